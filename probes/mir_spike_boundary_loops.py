"""Throw-away spike 2: symbolic execution of the real MIR of edges.rs::boundary_loops with a set-with-symbolic-order
model of HashMap/HashSet, decision-prefix re-execution DFS, loop budget => termination verdict."""
import re, sys, time
from z3 import *
MIR = open('/tmp/engeom.mir').read()
def fn_blocks(name_re):
    m = re.search(r'^fn ' + name_re + r'\([^\n]*\{\n(.*?)^\}', MIR, re.S | re.M); assert m, name_re
    blocks = {}
    for b in re.finditer(r'^    (bb\d+)(?: \(cleanup\))?: \{\n(.*?)^    \}', m.group(1), re.S | re.M):
        blocks[b.group(1)] = [s.strip().rstrip(';') for s in b.group(2).strip().split('\n') if s.strip()]
    return blocks

class Budget(Exception): pass
class Panic(Exception): pass
class Ref:
    def __init__(self, get, set_=None): self.get, self.set = get, set_
class VecV:
    def __init__(self, items=None): self.items = list(items or [])
class SetV(VecV): pass
class MapV(VecV): pass           # items: [key, value]
class IterV:
    def __init__(self, items): self.items = list(items); self.pos = 0; self.unordered = False

class Exec:
    def __init__(self, decisions, solver):
        self.dec = list(decisions); self.used = 0; self.s = solver; self.pc = []; self.pending = None
    def feasible(self, c):
        if is_true(simplify(c)): return True
        if is_false(simplify(c)): return False
        self.s.push(); self.s.add(self.pc + [c]); r = self.s.check() == sat; self.s.pop(); return r
    def choose(self, options):
        """options: list of (cond, payload). returns payload of the chosen feasible option; records alternatives"""
        feas = [(i, c, p) for i, (c, p) in enumerate(options) if self.feasible(c)]
        assert feas, 'no feasible option'
        if self.used < len(self.dec):
            k = self.dec[self.used]
        else:
            k = 0; self.dec.append(0)
            self.alts = getattr(self, 'alts', [])
            for j in range(1, len(feas)): self.alts.append(self.dec[:self.used] + [j])
        self.used += 1
        i, c, p = feas[k]; self.pc.append(c); return p

def split_args(s):
    out, d, cur = [], 0, ''
    for i, ch in enumerate(s):
        if ch in '(<[': d += 1
        if ch in ')]' or (ch == '>' and s[i-1] != '-'): d -= 1
        if ch == ',' and d == 0: out.append(cur.strip()); cur = ''
        else: cur += ch
    if cur.strip(): out.append(cur.strip())
    return out

def run(blocks, env, ex, loop_budget):
    visits = {}
    def rd_place(p):
        p = p.strip()
        if re.fullmatch(r'_\d+', p): return env[p]
        m = re.fullmatch(r'\(\*(_\d+)\)', p)
        if m: return env[m.group(1)].get()
        m = re.fullmatch(r'\(\((_\d+) as (\w+)\)\.(\d+): .*\)', p)
        if m: return env[m.group(1)][1][int(m.group(3))]
        raise NotImplementedError(p)
    def operand(o):
        o = o.strip()
        if o.startswith(('copy ', 'move ')): return rd_place(o[5:])
        m = re.fullmatch(r'const (true|false)', o)
        if m: return m.group(1) == 'true'
        raise NotImplementedError(o)
    def mkref(local):
        def g(): return env[local]
        def s(v): env[local] = v
        return Ref(g, s)
    def call(f, a):
        fs = re.sub(r'<[^<>]*>', '', re.sub(r'<[^<>]*>', '', re.sub(r'<[^<>]*>', '', f)))
        if fs in ('Vec::::new', 'Vec::new'): return VecV()
        if 'HashMap' in f and f.endswith('::keys'): it = IterV([k for k, v in a[0].get().items]); it.unordered = True; return it
        if '>::copied' in f: return a[0]
        if '>::collect::<HashSet' in f: return SetV(a[0].items)
        if 'HashSet' in f and f.endswith('::is_empty'): return len(a[0].get().items) == 0
        if f.endswith('as Deref>::deref') or f.endswith('as DerefMut>::deref_mut'): return a[0]
        if f.endswith(']>::last'): v = a[0].get().items; return ('Some', [Ref(lambda x=v[-1]: x)]) if v else ('None', [])
        if f.endswith(']>::first'): v = a[0].get().items; return ('Some', [Ref(lambda x=v[0]: x)]) if v else ('None', [])
        if f.endswith('::unwrap'):
            if a[0][0] == 'None': raise Panic('unwrap on None')
            return a[0][1][0]
        if 'as std::ops::Index<&u32>>::index' in f:
            m, k = a[0].get(), a[1].get()
            opts = [(kk == k, vv) for kk, vv in m.items] + [(And([kk != k for kk, _ in m.items]), None)]
            v = ex.choose(opts)
            if v is None: raise Panic('HashMap index: key missing')
            return Ref(lambda x=v: x)
        if 'HashSet' in f and '::remove' in f:
            st, k = a[0].get(), a[1].get()
            opts = [(e == k, i) for i, e in enumerate(st.items)] + [(And([e != k for e in st.items]) if st.items else BoolVal(True), None)]
            i = ex.choose(opts)
            if i is None: return False
            del st.items[i]; return True
        if f.endswith(']>::reverse'): a[0].get().items.reverse(); return None
        if '>::push' in f: a[0].get().items.append(a[1]); return None
        if 'HashSet' in f and f.endswith('::iter'): it = IterV(a[0].get().items); it.unordered = True; return it
        if 'as Iterator>::next' in f:
            it = a[0].get()
            if not it.items: return ('None', [])
            # unordered container: any element may come first  (symbolic hash order)
            i = ex.choose([(BoolVal(True), j) for j in range(len(it.items))]) if it.unordered else 0
            x = it.items.pop(i); return ('Some', [Ref(lambda x=x: x)])
        raise NotImplementedError(f)
    bb = 'bb0'
    while True:
        visits[bb] = visits.get(bb, 0) + 1
        if visits[bb] > loop_budget: raise Budget(bb)
        nxt = None
        for st in blocks[bb]:
            m = re.fullmatch(r'(_\d+) = (.*) -> \[return: (bb\d+), unwind.*\]', st)
            if m:
                dst, callee, nb = m.groups()
                d = 0
                for i, ch in enumerate(callee):
                    if ch == '<': d += 1
                    elif ch == '>' and callee[i-1] != '-': d -= 1
                    elif ch == '(' and d == 0: break
                f, argstr = callee[:i], callee[i+1:-1]
                env[dst] = call(f, [operand(x) for x in split_args(argstr)]); nxt = nb; break
            m = re.fullmatch(r'switchInt\((.*?)\) -> \[(.*)\]', st)
            if m:
                v = operand(m.group(1)); targets = dict(t.split(': ') for t in m.group(2).split(', '))
                if isinstance(v, bool): key = '1' if v else '0'
                elif isinstance(v, int): key = str(v)
                else: key = ex.choose([(v, '1'), (Not(v), '0')])
                nxt = targets.get(key, targets.get('otherwise')); break
            m = re.fullmatch(r'goto -> (bb\d+)', st)
            if m: nxt = m.group(1); break
            m = re.fullmatch(r'drop\(.*\) -> \[return: (bb\d+).*', st)
            if m: nxt = m.group(1); break
            if st == 'return': return env['_0']
            m = re.fullmatch(r'(_\d+) = (.*)', st); assert m, st
            dst, rv = m.groups()
            if rv.startswith('discriminant('): env[dst] = {'None': 0, 'Some': 1}[env[rv[13:-1]][0]]
            elif rv.startswith('&mut ') : env[dst] = mkref(rv[5:])
            elif rv.startswith('&'): env[dst] = mkref(rv[1:])
            elif rv.startswith('Eq('):
                x, y = [operand(t) for t in split_args(rv[3:-1])]; env[dst] = (x == y)
            else: env[dst] = operand(rv)
        bb = nxt

def explore(n_entries, nkeys=5):
    blocks = fn_blocks('boundary_loops')
    ks = [Int(f'k{i}') for i in range(n_entries)]; vs = [Int(f'v{i}') for i in range(n_entries)]
    base = [And(k >= 0, k < nkeys) for k in ks] + [And(v >= 0, v < nkeys) for v in vs] + [Distinct(ks)] if n_entries > 1 else [ks[0] >= 0, ks[0] < nkeys, vs[0] >= 0, vs[0] < nkeys]
    # realistic precondition: a boundary map comes from directed boundary edges: every value is also... (NOT assumed: vertex-only contacts overwrite entries)
    solver = Solver(); solver.add(base)
    work = [[]]; paths = 0; nonterm = []; panics = []; t0 = time.time()
    while work:
        dec = work.pop()
        ex = Exec(dec, solver); ex.alts = []
        env = {'_1': MapV([[k, v] for k, v in zip(ks, vs)])}
        try:
            ret = run(blocks, env, ex, loop_budget=2 * n_entries + 3); paths += 1
        except Budget as b:
            solver.push(); solver.add(ex.pc); solver.check(); m = solver.model(); solver.pop()
            nonterm.append({str(k): m.eval(k, True).as_long() for k in ks + vs}); paths += 1
        except Panic as p:
            panics.append(str(p)); paths += 1
        work.extend(ex.alts)
    print(f'entries={n_entries}: paths={paths} budget-exceeded={len(nonterm)} panics={len(panics)} wall={time.time()-t0:.1f}s')
    if nonterm: print('   first non-terminating map:', nonterm[0])
    if panics: print('   panic kinds:', sorted(set(panics)))
for n in (1, 2, 3):
    explore(n)
