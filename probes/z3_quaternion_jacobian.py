import time, sys
from z3 import *
def t(name, s, to=120000):
    s.set("timeout", to)
    t0=time.time(); r=s.check(); print(name, r, round(time.time()-t0,2)); sys.stdout.flush(); return r
# half-angle pairs
ca,sa,cb,sb,cc,sc = Reals('ca sa cb sb cc sc')
cons=[ca*ca+sa*sa==1, cb*cb+sb*sb==1, cc*cc+sc*sc==1]
def qmul(p,q):
    w1,x1,y1,z1=p; w2,x2,y2,z2=q
    return (w1*w2-x1*x2-y1*y2-z1*z2, w1*x2+x1*w2+y1*z2-z1*y2, w1*y2-x1*z2+y1*w2+z1*x2, w1*z2+x1*y2-y1*x2+z1*w2)
def rot(q):
    w,x,y,z=q
    return [[1-2*(y*y+z*z), 2*(x*y-z*w), 2*(x*z+y*w)],
            [2*(x*y+z*w), 1-2*(x*x+z*z), 2*(y*z-x*w)],
            [2*(x*z-y*w), 2*(y*z+x*w), 1-2*(x*x+y*y)]]
qx=(ca,sa,0,0); qy=(cb,0,sb,0); qz=(cc,0,0,sc)
q=qmul(qmul(qx,qy),qz)
R=rot(q)
# full-angle trig
Ca,Sa=ca*ca-sa*sa,2*sa*ca; Cb,Sb=cb*cb-sb*sb,2*sb*cb; Cc,Sc=cc*cc-sc*sc,2*sc*cc
# expected Rx*Ry*Rz
E=[[Cb*Cc, -Cb*Sc, Sb],
   [Ca*Sc+Sa*Sb*Cc, Ca*Cc-Sa*Sb*Sc, -Sa*Cb],
   [Sa*Sc-Ca*Sb*Cc, Sa*Cc+Ca*Sb*Sc, Ca*Cb]]
s=SolverFor("QF_NRA"); s.add(cons); s.add(Or([R[i][j]!=E[i][j] for i in range(3) for j in range(3)]))
t("quat product matrix == RxRyRz (9 entries)", s)
# Jacobian-like: n . (dR/da * R^-1 * v) vs derivative of n.(R v0) wrt a where v = R v0
px,py,pz,nx,ny,nz = Reals('px py pz nx ny nz')
# dR/da = P_X * R ; (P_X R) R^T v = P_X v
v=[px,py,pz]
PXv=[0, -pz, py]
# derivative of R*v0 wrt a where v0 = R^T v : using dual numbers: d/da (ca,sa) = (-sa/2, ca/2)
def dual_R():
    # derivative of each R entry wrt a
    import itertools
    dca, dsa = -sa/2, ca/2
    # symbolic derivative via product rule on the quaternion: dq = dqx * qy * qz
    dqx=(dca,dsa,0,0)
    dq=qmul(qmul(dqx,qy),qz)
    w,x,y,z=q; dw,dx,dy,dz=dq
    dR=[[-4*(y*dy+z*dz), 2*(dx*y+x*dy-dz*w-z*dw), 2*(dx*z+x*dz+dy*w+y*dw)],
        [2*(dx*y+x*dy+dz*w+z*dw), -4*(x*dx+z*dz), 2*(dy*z+y*dz-dx*w-x*dw)],
        [2*(dx*z+x*dz-dy*w-y*dw), 2*(dy*z+y*dz+dx*w+x*dw), -4*(x*dx+y*dy)]]
    return dR
dR=dual_R()
# v0 = R^T v
v0=[sum(R[k][i]*v[k] for k in range(3)) for i in range(3)]
dv=[sum(dR[i][j]*v0[j] for j in range(3)) for i in range(3)]
lhs=nx*PXv[0]+ny*PXv[1]+nz*PXv[2]
rhs=nx*dv[0]+ny*dv[1]+nz*dv[2]
s=SolverFor("QF_NRA"); s.add(cons); s.add(lhs!=rhs)
t("rotational Jacobian column (rx) == derivative", s, 300000)
