import time, sys
from z3 import *
def t(name, s, to=60000):
    s.set("timeout", to)
    t0=time.time(); r=s.check(); print(name, r, round(time.time()-t0,2)); sys.stdout.flush()
    return r
PI = RealVal("884279719003555/281474976710656")  # f64 PI exactly
TWO_PI=2*PI
ang=Real('ang'); k=Int('k'); rem=Real('rem')
def base():
    s=Solver()
    # rem = ang fmod 2pi : ang = k*2pi + rem, |rem|<2pi, sign(rem)=sign(ang) or 0
    s.add(ang==ToReal(k)*TWO_PI+rem, If(ang>=0, And(rem>=0, rem<TWO_PI), And(rem<=0, rem>-TWO_PI)))
    return s
res=If(rem<0, rem+TWO_PI, rem)
s=base(); s.add(Or(res<0,res>=TWO_PI)); t("angle_to_2pi out of [0,2pi) (reals)", s)
# same direction: res - ang is integer multiple of 2pi: by construction res-ang = -k*2pi or (1-k)*2pi
n=Int('n')
s=base(); s.add(res-ang != -ToReal(k)*TWO_PI, res-ang != (1-ToReal(k))*TWO_PI); t("not same direction", s)
# signed pi
sp=If(rem>PI, rem-TWO_PI, If(rem< -PI, rem+TWO_PI, rem))
s=base(); s.add(Or(sp< -PI, sp>PI)); t("angle_signed_pi out of range", s)
