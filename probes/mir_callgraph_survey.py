import re, sys, collections
MIR=open('/tmp/engeom.mir').read()
fns={}
for m in re.finditer(r'^fn (.*?)\((.*?)\) -> (.*?) \{\n(.*?)^\}', MIR, re.S|re.M):
    fns[m.group(1).strip()]=m.group(4)
def strip_generics(n):
    out='';d=0
    for i,ch in enumerate(n):
        if ch=='<': d+=1
        elif ch=='>' and n[i-1]!='-': d-=1
        elif d==0: out+=ch
    return out
srccache={}
def impl_header(path,line):
    if path not in srccache: srccache[path]=open('/repo/'+path).read().split('\n')
    L=srccache[path]; h=L[line-1]
    k=line
    while '{' not in h and k<len(L): h+=' '+L[k].strip(); k+=1
    return h
# key for each def
defs=collections.defaultdict(list)   # (selftype, method) -> [fullname]
for n in fns:
    m=re.search(r'<impl at (src/[^:]+):(\d+):\d+: \d+:\d+>::(.*)$', n)
    if m:
        h=impl_header(m.group(1), int(m.group(2)))
        hm=re.match(r'\s*impl(?:<[^>]*>)?\s+(?:(.*?)\s+for\s+)?(.*?)\s*(?:where.*)?\{', h)
        trait, selft = (hm.group(1), hm.group(2)) if hm else (None, h)
        selfbase=re.sub(r'<.*','',selft.strip().lstrip('&')).strip()
        meth=m.group(3)
        defs[(selfbase, strip_generics(meth))].append((n, trait))
    else:
        defs[(None, strip_generics(n).split('::')[-1] if '{closure' not in n else n)].append((n,None))
def callee_of(line):
    m=re.match(r'.*? = (.*) -> \[return: bb\d+', line)
    if not m: return None
    rhs=m.group(1); d=0
    for i,ch in enumerate(rhs):
        if ch=='<': d+=1
        elif ch=='>' and rhs[i-1]!='-': d-=1
        elif ch=='(' and d==0: return rhs[:i].strip()
    return None
def resolve(c):
    # forms: Type::<..>::method ; path::func::<..> ; <T as Trait>::method
    m=re.match(r'<(.*) as (.*?)>::(\w+)', c)
    if m:
        selfbase=re.sub(r'<.*','',strip_generics(m.group(1)).strip().lstrip('&').replace("'_ ",'')).strip().split('::')[-1]
        r=defs.get((selfbase, m.group(3)))
        if r: return [x[0] for x in r if x[1] and strip_generics(m.group(2)).split('::')[-1] in x[1]] or None
        return None
    s=strip_generics(c); parts=[p for p in s.split('::') if p]
    if len(parts)>=2:
        r=defs.get((parts[-2], parts[-1]))
        if r: return [x[0] for x in r if not x[1]] or [x[0] for x in r]
    r=defs.get((None, parts[-1]))
    if r and (len(parts)==1 or parts[0] in ('points','polyline2','line2','angles','angles2','edges','patches','indices','aabb2','circle2','hull','rotations','jacobian','align2','align3','vec_f64','poisson_disk','stats','helpers','camber','raster3','svd_basis','convert_2d_3d','discrete_domain','common','geom2','geom3','mesh','conformal','rc_params2','multi_param','series1','surface_point')):
        return [x[0] for x in r]
    return None
entries=sys.argv[1:]
seen=set(); ext=collections.Counter(); stack=[]
for e in entries:
    ms=[n for n in fns if re.search(e, n)]
    if not ms: print('NO MATCH',e)
    stack+=ms
while stack:
    f=stack.pop()
    if f in seen: continue
    seen.add(f)
    body=fns[f]
    # closures referenced
    for cm in re.finditer(r'\{closure@(src/[^:]+):(\d+):(\d+): (\d+):(\d+)\}', body):
        for n in fns:
            if '{closure#' in n and n.startswith(f.split('::{closure')[0]) and n not in seen: stack.append(n)
    for line in body.split('\n'):
        c=callee_of(line.strip())
        if not c: continue
        r=resolve(c)
        if r: stack+=r
        else:
            mm=re.match(r'<(.*) as (.*?)>::(\w+)', c)
            key=(('<'+re.sub(r'<.*','',strip_generics(mm.group(1)).strip()).split('::')[-1]+' as '+strip_generics(mm.group(2)).split('::')[-1]+'>::'+mm.group(3)) if mm else strip_generics(c))
            ext[key]+=1
print('LOCAL', len(seen))
for l in sorted(seen): print('  ', l[:150])
print('EXTERNAL', len(ext))
for k,v in sorted(ext.items(), key=lambda kv:(kv[0])): print(f'  {v:3d} {k[:160]}')
