#![allow(unused)]
// cost probe only: body of engeom::geom2::polyline2::{cast_ray, simd_swap} copied verbatim (private fns)
use parry2d_f64::bounding_volume::{SimdAabb, Aabb};
use parry2d_f64::math::{SimdBool, SimdReal, DIM, SIMD_WIDTH};
use parry2d_f64::na::{Point2, SimdPartialOrd, SimdValue, Vector2, SimdBool as _};
use parry2d_f64::query::{Ray, SimdRay};

fn cast_ray(bv: &SimdAabb, ray: &SimdRay) -> (SimdBool, SimdReal) {
    let zero = SimdReal::splat(0.0);
    let one = SimdReal::splat(1.0);
    let infinity = SimdReal::splat(f64::MAX);
    let mut hit = SimdBool::splat(true);
    let mut tmin = SimdReal::splat(f64::MIN);
    let mut tmax = SimdReal::splat(f64::MAX);
    for i in 0usize..DIM {
        let is_not_zero = ray.dir[i].simd_ne(zero);
        let is_zero_test = ray.origin[i].simd_ge(bv.mins[i]) & ray.origin[i].simd_le(bv.maxs[i]);
        let is_not_zero_test = {
            let denom = one / ray.dir[i];
            let mut inter_with_near_plane = ((bv.mins[i] - ray.origin[i]) * denom).select(is_not_zero, -infinity);
            let mut inter_with_far_plane = ((bv.maxs[i] - ray.origin[i]) * denom).select(is_not_zero, infinity);
            let gt = inter_with_near_plane.simd_gt(inter_with_far_plane);
            simd_swap(gt, &mut inter_with_near_plane, &mut inter_with_far_plane);
            tmin = tmin.simd_max(inter_with_near_plane);
            tmax = tmax.simd_min(inter_with_far_plane);
            tmin.simd_le(tmax)
        };
        hit = hit & is_not_zero_test.select(is_not_zero, is_zero_test);
    }
    (hit, tmin)
}
fn simd_swap(do_swap: SimdBool, a: &mut SimdReal, b: &mut SimdReal) {
    let _a = *a;
    *a = b.select(do_swap, *a);
    *b = _a.select(do_swap, *b);
}
#[cfg(kani)]
#[kani::proof]
fn c1_cast_ray_inside() {
    let v: [f64; 8] = kani::any();
    kani::assume(v.iter().all(|x| x.is_finite() && x.abs() < 1e6));
    let (minx, miny, maxx, maxy, ox, oy, dx, dy) = (v[0], v[1], v[2], v[3], v[4], v[5], v[6], v[7]);
    kani::assume(minx <= ox && ox <= maxx && miny <= oy && oy <= maxy);
    let aabb = Aabb::new(Point2::new(minx, miny), Point2::new(maxx, maxy));
    let bv = SimdAabb::splat(aabb);
    let ray = SimdRay::splat(Ray::new(Point2::new(ox, oy), Vector2::new(dx, dy)));
    let (mask, _) = cast_ray(&bv, &ray);
    assert!(mask.extract(0));
}
