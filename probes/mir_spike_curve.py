"""Throw-away spike 3: a more general mini MIR executor, used to measure path counts / solver time for
Curve2::{from_points, at_length, between_lengths} on the real MIR (engeom). Not framework code."""
import re, sys, time, itertools
from z3 import *

MIR = open('/tmp/engeom.mir').read()

# ---------------------------------------------------------------- parsing
class Fn:
    def __init__(self, name, params, blocks): self.name, self.params, self.blocks = name, params, blocks
FNS = {}
for m in re.finditer(r'^fn (.*?)\((.*?)\) -> (.*?) \{\n(.*?)^\}', MIR, re.S | re.M):
    name = m.group(1).strip()
    params = re.findall(r'(_\d+): ', m.group(2))
    blocks = {}
    for b in re.finditer(r'^    (bb\d+)(?: \(cleanup\))?: \{\n(.*?)^    \}', m.group(4), re.S | re.M):
        blocks[b.group(1)] = [s.strip().rstrip(';') for s in b.group(2).strip().split('\n') if s.strip()]
    FNS[name] = Fn(name, params, blocks)
    FNS[name].sig = m.group(2)
PROMOTED = {}
for m in re.finditer(r'^const ([^\n]*?::promoted\[\d+\]): [^\n]*? = \{\n(.*?)^\}', MIR, re.S | re.M):
    PROMOTED[m.group(1)] = m.group(2)

def strip_generics(n):
    out = ''; d = 0
    for i, ch in enumerate(n):
        if ch == '<': d += 1
        elif ch == '>' and n[i-1] != '-': d -= 1
        elif d == 0: out += ch
    return out
_src = {}
def impl_header(path, line):
    if path not in _src: _src[path] = open('/repo/' + path).read().split('\n')
    L = _src[path]; h = L[line-1]; k = line
    while '{' not in h and k < len(L): h += ' ' + L[k].strip(); k += 1
    return h
DEFS = {}
CLOSURES = {}
for n, f in FNS.items():
    if '{closure#' in n:
        sp = re.search(r'\{closure@([^}]*)\}', f.sig)
        if sp: CLOSURES[sp.group(1)] = n
        continue
    m = re.search(r'<impl at (src/[^:]+):(\d+):\d+: \d+:\d+>::(.*)$', n)
    if m:
        h = impl_header(m.group(1), int(m.group(2)))
        hm = re.match(r'\s*impl(?:<[^>]*>)?\s+(?:(.*?)\s+for\s+)?(.*?)\s*(?:where.*)?\{', h)
        selft = hm.group(2) if hm else h
        selfbase = re.sub(r'<.*', '', selft.strip().lstrip('&')).strip()
        DEFS.setdefault((selfbase, strip_generics(m.group(3))), []).append(n)
    else:
        DEFS.setdefault((None, strip_generics(n).split('::')[-1]), []).append(n)
def resolve(callee):
    if callee.startswith('<'): return None
    s = strip_generics(callee); parts = [p for p in s.split('::') if p]
    if len(parts) >= 2 and (parts[-2], parts[-1]) in DEFS: return DEFS[(parts[-2], parts[-1])][0]
    if len(parts) >= 1 and parts[0] in ('points',) and (None, parts[-1]) in DEFS: return DEFS[(None, parts[-1])][0]
    return None

def split_args(s):
    out, d, cur = [], 0, ''
    for i, ch in enumerate(s):
        if ch in '(<[{': d += 1
        if ch in ')]}' or (ch == '>' and s[i-1] != '-'): d -= 1
        if ch == ',' and d == 0: out.append(cur.strip()); cur = ''
        else: cur += ch
    if cur.strip(): out.append(cur.strip())
    return out

def outer_parens(s):
    s = s.strip()
    while s.startswith('(') and s.endswith(')'):
        d = 0; ok = True
        for i, ch in enumerate(s):
            if ch in '(': d += 1
            elif ch == ')':
                d -= 1
                if d == 0 and i != len(s) - 1: ok = False; break
        if not ok: break
        s = s[1:-1].strip()
    return s
_pp = {}
def parse_place(s):
    if s in _pp: return _pp[s]
    o = s; s = outer_parens(s)
    if re.fullmatch(r'_\d+', s): r = ('local', s)
    elif s.startswith('*'): r = ('deref', parse_place(s[1:]))
    else:
        d = 0; cut = None; as_at = None
        for i, ch in enumerate(s):
            if ch in '(<[': d += 1
            elif ch in ')]' or (ch == '>' and s[i-1] != '-'): d -= 1
            elif d == 0 and ch == ':' and s[i:i+2] != '::' and s[i-1] != ':': cut = i; break
            elif d == 0 and s[i:i+4] == ' as ' and as_at is None: as_at = i
        if cut is not None:
            core = s[:cut].strip(); m = re.fullmatch(r'(.*)\.(\d+)', core, re.S); assert m, o
            r = ('field', parse_place(m.group(1)), int(m.group(2)))
        elif as_at is not None: r = ('downcast', parse_place(s[:as_at]), s[as_at+4:].strip())
        elif s.endswith(']'):
            k = s.rindex('['); r = ('index', parse_place(s[:k]), s[k+1:-1])
        else: raise NotImplementedError('place ' + o)
    _pp[o] = r; return r

# ---------------------------------------------------------------- values
class Ref:
    def __init__(self, get, set_=None): self.get, self.set = get, set_
    @staticmethod
    def to(v): box = [v]; return Ref(lambda: box[0], lambda x: box.__setitem__(0, x))
class VecV:
    def __init__(self, items=None): self.items = list(items or [])
class En:   # enum value
    def __init__(self, variant, fields=()): self.v, self.f = variant, list(fields)
class RangeV:
    def __init__(self, a, b): self.a, self.b = a, b
class BoxCell:
    def __init__(self): self.payload = None
class Panic(Exception): pass
class Budget(Exception): pass
DISCR = {'None': 0, 'Some': 1, 'Ok': 0, 'Err': 1, 'Continue': 0, 'Break': 1}
CONS = []          # global defining constraints (sqrt, div)
_c = [0]
def fresh(p, sort=Real): _c[0] += 1; return sort(f'{p}!{_c[0]}')
def is_sym(x): return isinstance(x, ExprRef)
KNOWN_POS = []
DEFN = {}          # fresh var name -> constraints mentioning it (defining constraints)
def zsimp(x): return simplify(x) if is_sym(x) else x
def is_zero(x):
    x = zsimp(x)
    return (not is_sym(x) and x == 0) or (is_sym(x) and is_rational_value(x) and x.numerator_as_long() == 0)
def known_pos(x):
    x = zsimp(x)
    if not is_sym(x): return x > 0
    if is_rational_value(x): return x.numerator_as_long() > 0
    return any(eq(x, k) for k in KNOWN_POS)
def abs_of(x):
    if not is_sym(x): return abs(x)
    if known_pos(x): return zsimp(x)
    if known_pos(-x): return zsimp(-x)
    return If(x >= 0, x, -x)
def add_def(v, cs): DEFN[str(v)] = cs
def sqrt_of(x):
    if not is_sym(x): return x ** 0.5
    s = fresh('sq'); add_def(s, [s >= 0, s * s == x]); return s
def norm_of(v):
    nz = [c for c in v if not is_zero(c)]
    if len(nz) == 0: return 0
    if len(nz) == 1: return abs_of(nz[0])
    return sqrt_of(sum(c * c for c in nz))
def div(a, b):
    if not is_sym(a) and not is_sym(b): return a / b
    a, b = zsimp(a), zsimp(b)
    if is_zero(a): return RealVal(0)
    if is_sym(a) and is_sym(b) and eq(a, b): return RealVal(1)
    if is_sym(a) and is_sym(b) and eq(zsimp(-a), b): return RealVal(-1)
    q = fresh('q'); add_def(q, [q * b == a]); return q
def cone(exprs):
    """defining constraints transitively relevant to exprs"""
    seen = set(); out = []; todo = list(exprs)
    def vars_of(e, acc):
        if is_const(e) and e.decl().kind() == Z3_OP_UNINTERPRETED: acc.add(str(e))
        for c in e.children(): vars_of(c, acc)
    while todo:
        e = todo.pop(); acc = set()
        if is_sym(e): vars_of(e, acc)
        for v in acc:
            if v in DEFN and v not in seen:
                seen.add(v); out += DEFN[v]; todo += DEFN[v]
    return out

class Exec:
    def __init__(self, decisions, solver, base):
        self.dec = list(decisions); self.used = 0; self.s = solver; self.pc = []; self.alts = []; self.base = base; self.steps = 0; self.ncons = 0
    def feasible(self, c):
        c = simplify(c) if is_sym(c) else BoolVal(bool(c))
        if is_true(c): return True
        if is_false(c): return False
        self.s.push(); self.s.add(self.base + self.pc + [c] + cone(self.pc + [c])); r = self.s.check(); self.s.pop(); return r == sat
    def choose(self, options):
        feas = [(c, p) for (c, p) in options if self.feasible(c)]
        if not feas: raise Panic('infeasible state')
        if len(feas) == 1: self.pc.append(feas[0][0] if is_sym(feas[0][0]) else BoolVal(True)); return feas[0][1]
        if self.used < len(self.dec): k = self.dec[self.used]
        else:
            k = 0; self.dec.append(0)
            for j in range(1, len(feas)): self.alts.append(self.dec[:self.used] + [j])
        self.used += 1
        c, p = feas[k]; self.pc.append(c); return p
    def branch(self, cond):
        if not is_sym(cond): return bool(cond)
        return self.choose([(cond, True), (Not(cond), False)])

EX = None
def V2(a): return a   # vectors are python lists of scalars
def pt(v): return [list(v)]            # OPoint { coords }
def unit(v): return [list(v)]          # Unit { value }

def call_external(f, a):
    fs = strip_generics(f)
    # ---- std containers
    if fs.endswith('Vec::::new') or fs == 'Vec::new': return VecV()
    if '::to_vec' in fs: return VecV(list(a[0].get().items if isinstance(a[0].get(), VecV) else a[0].get()))
    if f.startswith('<Vec<') and ('as Deref>::deref' in f or 'deref_mut' in f): return a[0]
    if f.startswith('<OPoint') and '>::deref' in f: p = a[0].get(); return Ref(lambda: p[0])
    if f.startswith('<Unit') and ('>::deref' in f or 'as_ref' in f): u = a[0].get(); return Ref(lambda: u[0])
    if fs.endswith('Vec::::len') or re.search(r'Vec::<.*>::len$', f): return len(a[0].get().items)
    if re.search(r'Vec::<.*>::push$', f): a[0].get().items.append(a[1]); return None
    if re.search(r'\]>::first$', f): v = a[0].get().items; return En('Some', [Ref.to(v[0])]) if v else En('None')
    if re.search(r'\]>::last$', f): v = a[0].get().items; return En('Some', [Ref.to(v[-1])]) if v else En('None')
    if re.search(r'Option::<.*>::unwrap$', f):
        if a[0].v == 'None': raise Panic('unwrap on None')
        return a[0].f[0]
    if re.search(r'Option::<.*>::unwrap_or$', f): return a[0].f[0] if a[0].v == 'Some' else a[1]
    if 'as Try>::branch' in f: return En('Continue', [a[0].f[0]]) if a[0].v in ('Some', 'Ok') else En('Break', [a[0]])
    if 'as FromResidual' in f: return En('None') if 'Option' in f else En('Err', [a[0].f[0] if a[0].f else None])
    if 'as std::ops::Index<usize>>::index' in f:
        v, i = a[0].get().items, a[1]
        if not (0 <= i < len(v)): raise Panic('index out of bounds')
        return Ref(lambda: v[i], lambda x: v.__setitem__(i, x))
    if 'dedup_by' in f:
        vec, clo = a[0].get(), a[1]; body = FNS[CLOSURES[re.search(r'\{closure@([^}]*)\}', f).group(1)]]
        out = []
        for it in vec.items:
            if out:
                same = run_fn(body, [Ref.to(clo), Ref.to(it), Ref.to(out[-1])])
                if EX.branch(same): continue
            out.append(it)
        vec.items = out; return None
    if 'binary_search_by' in f:
        sl, clo = a[0].get().items, a[1]; body = FNS[CLOSURES[re.search(r'\{closure@([^}]*)\}', f).group(1)]]
        # specification-level summary: evaluate the comparator on every element; result = position among a sorted slice
        ords = [run_fn(body, [Ref.to(clo), Ref.to(x)]) for x in sl]      # each an En Less/Equal/Greater (forked)
        for i, o in enumerate(ords):
            if o.v == 'Equal': return En('Ok', [i])
        k = sum(1 for o in ords if o.v == 'Less'); return En('Err', [k])
    if 'PartialOrd>::partial_cmp' in f:
        x, y = a[0].get(), a[1].get()
        if not is_sym(x) and not is_sym(y): return En('Some', [En('Less' if x < y else 'Equal' if x == y else 'Greater')])
        return En('Some', [En(EX.choose([(x < y, 'Less'), (x == y, 'Equal'), (x > y, 'Greater')]))])
    if 'Box::<[' in f and 'new_uninit' in f: return BoxCell()
    if 'box_assume_init_into_vec_unsafe' in f: return VecV(a[0].payload)
    if 'as IntoIterator>::into_iter' in f and 'Range' in f: return a[0]
    if 'Range<usize> as Iterator>::next' in f:
        r = a[0].get()
        if r.a < r.b: v = r.a; r.a += 1; return En('Some', [v])
        return En('None')
    if 'as From<' in f and 'Box<dyn' in f: return ('boxed-error', a[0])
    # ---- parry
    if f.endswith('Polyline::new'): return ['Polyline', a[0]]
    if f.endswith('Polyline::vertices'): pl = a[0].get(); return Ref(lambda: pl[1])
    # ---- nalgebra
    if 'base::norm' in fs and fs.endswith('::norm'): v = a[0].get(); return norm_of(v)
    if 'Unit' in f and f.endswith('::new_normalize'): v = a[0]; n = norm_of(v); return unit([div(x, n) for x in v])
    if 'Unit' in f and f.endswith('::into_inner'): return list(a[0][0])
    m = re.match(r'<(&?)(OPoint|Matrix)<.*?> as (?:std::ops::)?(Sub|Add|Mul)(?:<(.*)>)?>::(sub|add|mul)$', f)
    if m:
        lhs = a[0].get() if isinstance(a[0], Ref) else a[0]; rhs = a[1].get() if isinstance(a[1], Ref) else a[1]
        lp = m.group(2) == 'OPoint'; lv = lhs[0] if lp else lhs
        if m.group(3) == 'Mul': return [x * rhs for x in lv]
        rp = ('OPoint' in m.group(4)) if m.group(4) else (len(rhs) == 1 and isinstance(rhs[0], list)); rv = rhs[0] if rp else rhs
        res = [x - y for x, y in zip(lv, rv)] if m.group(3) == 'Sub' else [x + y for x, y in zip(lv, rv)]
        return pt(res) if (lp and not rp) else res
    if f.endswith('::abs'): return abs_of(a[0])
    if 'f64 as std::ops::Add<&f64>>::add' in f: return a[0] + a[1].get()
    raise NotImplementedError('external: ' + f)

def const_val(o):
    m = re.fullmatch(r'const (-?[0-9.]+(?:[eE][-+]?\d+)?)f64', o)
    if m: return RealVal(m.group(1)) if True else float(m.group(1))
    m = re.fullmatch(r'const (-?\d+)_(?:usize|u32|i32|u8|isize|u64|i64)', o)
    if m: return int(m.group(1))
    if o in ('const true', 'const false'): return o == 'const true'
    m = re.fullmatch(r'const (\S+::promoted\[\d+\])', o)
    if m:
        body = PROMOTED[[k for k in PROMOTED if k.endswith(m.group(1).split('::')[-2] + '::' + m.group(1).split('::')[-1])][0]]  # spike: match by '<fn>::promoted[k]' suffix
        c = re.search(r'_1 = (const [^;]+);', body).group(1); return Ref.to(const_val(c))
    if re.fullmatch(r'const std::option::Option::<.*>::None', o): return En('None')
    raise NotImplementedError('const ' + o)

def run_fn(fn, args, loop_budget=40):
    global EX
    env = dict(zip(fn.params, args)); visits = {}
    def rd(p):
        k = p[0]
        if k == 'local': return env[p[1]]
        if k == 'deref':
            r = rd(p[1])
            if isinstance(r, BoxCell): return r
            return r.get()
        if k == 'field':
            b = rd(p[1])
            if isinstance(b, BoxCell): return b
            if isinstance(b, En): return b.f[p[2]]
            return b[p[2]]
        if k == 'downcast': return rd(p[1])
        if k == 'index':
            b = rd(p[1]); i = env[p[2]]; items = b.items if isinstance(b, VecV) else b
            return items[i]
    def wr(p, v):
        k = p[0]
        if k == 'local': env[p[1]] = v; return
        if k == 'deref': rd(p[1]).set(v); return
        if k == 'field':
            b = rd(p[1])
            if isinstance(b, BoxCell): b.payload = v; return
            b[p[2]] = v; return
        raise NotImplementedError(('write', p))
    def mkref(p):
        return Ref(lambda: rd(p), lambda v: wr(p, v))
    def operand(o):
        o = o.strip()
        if o.startswith(('copy ', 'move ')): return rd(parse_place(o[5:]))
        return const_val(o)
    bb = 'bb0'
    while True:
        visits[bb] = visits.get(bb, 0) + 1
        if visits[bb] > loop_budget: raise Budget(fn.name + ' ' + bb)
        nxt = None
        for st in fn.blocks[bb]:
            EX.steps += 1
            m = re.fullmatch(r'(.+?) = (.*) -> \[return: (bb\d+), unwind.*\]', st, re.S)
            if m:
                dst, callee, nb = m.groups(); d = 0
                for i, ch in enumerate(callee):
                    if ch == '<': d += 1
                    elif ch == '>' and callee[i-1] != '-': d -= 1
                    elif ch == '(' and d == 0: break
                f, argstr = callee[:i].strip(), callee[i+1:-1]
                a = [operand(x) for x in split_args(argstr)]
                loc = resolve(f)
                res = run_fn(FNS[loc], a) if loc else call_external(f, a)
                wr(parse_place(dst), res); nxt = nb; break
            m = re.fullmatch(r'switchInt\((.*?)\) -> \[(.*)\]', st)
            if m:
                v = operand(m.group(1)); targets = dict(t.split(': ') for t in m.group(2).split(', '))
                if is_sym(v): v = EX.branch(v)
                key = ('1' if v else '0') if isinstance(v, bool) else str(v)
                nxt = targets.get(key, targets.get('otherwise')); break
            m = re.fullmatch(r'assert\((!?)(.*?), ".*?\) -> \[success: (bb\d+), unwind.*\]', st, re.S)
            if m:
                neg, cond, nb = m.groups(); v = operand(cond); v = (Not(v) if is_sym(v) else not v) if neg else v
                if is_sym(v): v = EX.branch(v)
                if not v: raise Panic('MIR assert: ' + st[:60])
                nxt = nb; break
            m = re.fullmatch(r'goto -> (bb\d+)', st)
            if m: nxt = m.group(1); break
            m = re.fullmatch(r'drop\(.*\) -> \[return: (bb\d+).*', st)
            if m: nxt = m.group(1); break
            if st == 'return': return env.get('_0')
            if st == 'unreachable': raise Panic('unreachable')
            m = re.fullmatch(r'(.+?) = (.*)', st, re.S); assert m, st
            dst, rv = m.groups(); dstp = parse_place(dst)
            mb = re.fullmatch(r'(Add|Sub|Mul|Div|Lt|Le|Gt|Ge|Eq|Ne|AddWithOverflow|SubWithOverflow|MulWithOverflow)\((.*)\)', rv)
            if mb:
                x, y = [operand(t) for t in split_args(mb.group(2))]; op = mb.group(1)
                if op.endswith('WithOverflow'):
                    r = {'Add': x + y, 'Sub': x - y, 'Mul': x * y}[op[:3]]; wr(dstp, [r, (r < 0) if not is_sym(r) else False])
                else:
                    r = {'Add': lambda: x + y, 'Sub': lambda: x - y, 'Mul': lambda: x * y, 'Div': lambda: div(x, y), 'Lt': lambda: x < y, 'Le': lambda: x <= y,
                         'Gt': lambda: x > y, 'Ge': lambda: x >= y, 'Eq': lambda: x == y, 'Ne': lambda: x != y}[op](); wr(dstp, r)
            elif rv.startswith('discriminant('): wr(dstp, DISCR[rd(parse_place(rv[13:-1])).v])
            elif rv.startswith('PtrMetadata('): v = operand(rv[12:-1]); v = v.get() if isinstance(v, Ref) else v; wr(dstp, len(v.items if isinstance(v, VecV) else v))
            elif rv.startswith('&mut '): wr(dstp, mkref(parse_place(rv[5:])))
            elif rv.startswith('&'): wr(dstp, mkref(parse_place(rv[1:])))
            elif rv.endswith('(Transmute)'): wr(dstp, Ref.to(rd(parse_place(rv.split(' as ')[0][5:]))))
            elif rv.startswith('{closure@'): wr(dstp, [operand(x.split(': ', 1)[1]) for x in split_args(re.search(r'\} \{(.*)\}$', rv).group(1))])
            elif rv.startswith('std::ops::Range::<usize> {'): fl = [operand(x.split(': ', 1)[1]) for x in split_args(rv[rv.index('{')+1:-1])]; wr(dstp, RangeV(*fl))
            elif re.match(r'std::option::Option::<.*>::None$', rv): wr(dstp, En('None'))
            elif re.match(r'(std::option::Option|std::result::Result)::<.*>::(Some|Ok|Err)\(', rv): mm = re.match(r'.*>::(Some|Ok|Err)\((.*)\)$', rv, re.S); wr(dstp, En(mm.group(1), [operand(mm.group(2))]))
            elif rv.startswith('[') : wr(dstp, [operand(x) for x in split_args(rv[1:-1])])
            elif rv.startswith('('): wr(dstp, [operand(x) for x in split_args(rv[1:-1])])
            elif re.match(r'[A-Za-z_][\w:]*(::<.*>)? \{', rv): fl = [operand(x.split(': ', 1)[1]) for x in split_args(rv[rv.index('{')+1:-1])]; wr(dstp, fl)
            elif re.fullmatch(r'[A-Z]\w*::[A-Z]\w*', rv): wr(dstp, En(rv.split('::')[1]))
            elif rv.startswith('no_retag '): wr(dstp, operand(rv[9:]))
            else: wr(dstp, operand(rv))
        bb = nxt

# ---------------------------------------------------------------- drivers
def explore(entry, make_args, base, check, label):
    global EX, CONS
    solver = Solver(); work = [[]]; paths = 0; t0 = time.time(); stats = {'panic': 0, 'budget': 0, 'viol': 0, 'queries': 0, 'steps': 0}; viol = []
    while work:
        dec = work.pop(); DEFN.clear(); EX = Exec(dec, solver, base)
        try:
            args, ctx = make_args(); ret = run_fn(FNS[entry], args); paths += 1
            for name, post in check(ctx, ret):
                solver.push(); solver.add(base + EX.pc + [Not(post)] + cone(EX.pc + [Not(post)])); r = solver.check(); stats['queries'] += 1
                if r != unsat: stats['viol'] += 1; viol.append((name, str(r), solver.model() if r == sat else None))
                solver.pop()
        except Panic as p: stats['panic'] += 1; paths += 1; viol.append(('panic', str(p), None))
        except Budget as b: stats['budget'] += 1; paths += 1
        stats['steps'] += EX.steps; work.extend(EX.alts)
    print(f'{label}: paths={paths} {stats} wall={time.time()-t0:.1f}s')
    for v in viol[:2]: print('    ', v[0], v[1], (str(sorted([(str(d), str(v[2][d])) for d in v[2].decls() if '!' not in str(d)]))[:400] if v[2] is not None else ''))

def sym_points(n, prefix='p'):
    return [pt([Real(f'{prefix}{i}x'), Real(f'{prefix}{i}y')]) for i in range(n)]

FROM_POINTS = DEFS[('Curve2', 'from_points')][0]; AT_LENGTH = DEFS[('Curve2', 'at_length')][0]; BETWEEN = DEFS[('Curve2', 'between_lengths')][0]
LEN_ALONG = DEFS[('CurveStation2', 'length_along')][0]

def drv_from_points(n, closed):
    tol = Real('tol'); pts = sym_points(n)
    def mk(): return [Ref.to(VecV([[list(p[0])] for p in pts])), tol, closed], None
    def chk(ctx, ret):
        if ret.v != 'Ok': return []
        c = ret.f[0]; L = c[1].items; out = [('lengths[0]=0', L[0] == 0)]
        for i in range(len(L) - 1): out.append((f'increasing{i}', L[i+1] - L[i] > tol))
        return out
    explore(FROM_POINTS, mk, [tol > 0], chk, f'from_points n={n} closed={closed}')

DIRS = [(1, 0), (0, 1), (-1, 0), (0, -1)]
def mk_curve(n, closed_flag, pattern):
    """a valid Curve2 state (representation invariant assumed). pattern: tuple of concrete axis directions per edge"""
    tol = Real('tol'); base = [tol > 0]; verts = []; lens = [RealVal(0)]; KNOWN_POS.clear(); KNOWN_POS.append(tol)
    x, y = Real('x0'), Real('y0'); verts.append(pt([x, y]))
    for i in range(1, n):
        e = Real(f'e{i}'); base.append(e > tol); KNOWN_POS.append(e); ux, uy = DIRS[pattern[i-1]]
        x, y = zsimp(x + ux * e), zsimp(y + uy * e)
        verts.append(pt([x, y])); lens.append(zsimp(lens[-1] + e))
    first, last = verts[0][0], verts[-1][0]
    d2 = (first[0] - last[0]) ** 2 + (first[1] - last[1]) ** 2
    base.append(d2 <= tol * tol if closed_flag else d2 > tol * tol)
    return tol, base, verts, lens

def drv_at_length(n, closed, axis):
    tol, base, verts, lens = mk_curve(n, closed, axis); l = Real('l')
    def mk():
        curve = [['Polyline', VecV([[list(v[0])] for v in verts])], VecV(list(lens)), closed, tol]
        return [Ref.to(curve), l], curve
    def chk(curve, ret):
        L = lens[-1]
        if ret.v == 'None': return [('None only outside', Or(l < 0, l > L))]
        st = ret.f[0]; la = run_fn(FNS[LEN_ALONG], [Ref.to(st)]); i, f = st[2], st[3]; vi, vj = verts[i][0], verts[i+1][0]
        return [('inside', And(l >= 0, l <= L)), ('length_along==l', la == l), ('0<=f<=1', And(f >= 0, f <= 1)),
                ('lerp x', st[0][0][0] == vi[0] + f * (vj[0] - vi[0])), ('lerp y', st[0][0][1] == vi[1] + f * (vj[1] - vi[1])),
                ('unit dir', st[1][0][0] ** 2 + st[1][0][1] ** 2 == 1)]
    explore(AT_LENGTH, mk, base, chk, f'at_length n={n} closed={closed} axis_aligned={axis}')

def drv_between(n, closed, axis):
    tol, base, verts, lens = mk_curve(n, closed, axis); l0, l1 = Real('l0'), Real('l1')
    def mk():
        curve = [['Polyline', VecV([[list(v[0])] for v in verts])], VecV(list(lens)), closed, tol]
        return [Ref.to(curve), l0, l1], curve
    def chk(curve, ret):
        L = lens[-1]; inr = And(l0 >= 0, l0 <= L, l1 >= 0, l1 <= L)
        if ret.v == 'None': return []     # (ill-posedness oracle left to the real framework)
        c = ret.f[0]; newL = c[1].items[-1]; exp = If(l1 > l0, l1 - l0, L - (l0 - l1)); PT0 = c[0][1].items[0][0]
        return [('in range', inr), ('length conserved within 2 tol', And(newL - exp <= 2 * tol, exp - newL <= 2 * tol)), ('front point', And(c[0][1].items[0][0][0] == PT0[0], c[0][1].items[0][0][1] == PT0[1]))]
    explore(BETWEEN, mk, base, chk, f'between_lengths n={n} closed={closed} axis_aligned={axis}')

if __name__ == '__main__':
    which = sys.argv[1] if len(sys.argv) > 1 else 'all'
    if which in ('all', 'fp'):
        drv_from_points(2, False); drv_from_points(3, False); drv_from_points(3, True)
    if which in ('all', 'al'):
        for pat in itertools.product(range(4), repeat=2): drv_at_length(3, False, pat)
    if which in ('all', 'bl'):
        t0 = time.time()
        for pat in [(0, 1), (0, 0), (0, 3)]: drv_between(3, False, pat)
        for pat in [(0, 1, 2), (0, 0, 1)]: drv_between(4, False, pat)
        for pat in [(0, 1, 2)]: drv_between(4, True, pat)
        print('total', round(time.time() - t0, 1), 's')
    if which == 'fpc':
        drv_from_points(3, True)
