"""Throw-away feasibility spike: parse rustc MIR text, symbolically execute a loop-free f64 kernel
(Circle2::tangent_points_to) with z3 reals + an algebraic angle abstraction, decide the tangency property."""
import re, sys, time
from z3 import *

MIR = open('/tmp/engeom.mir').read()

def fn_body(name_re):
    m = re.search(r'^fn [^\n]*' + name_re + r'\([^\n]*\{\n(.*?)^\}', MIR, re.S | re.M)
    assert m, name_re
    return m.group(0)

def parse_blocks(text):
    blocks = {}
    for m in re.finditer(r'^    (bb\d+)(?: \(cleanup\))?: \{\n(.*?)^    \}', text, re.S | re.M):
        stmts = [s.strip() for s in m.group(2).strip().split('\n') if s.strip()]
        blocks[m.group(1)] = stmts
    return blocks

# ---- place parsing: returns list: base local, then projections
def strip_parens(s):
    s = s.strip()
    while s.startswith('(') and s.endswith(')'):
        # check matching
        d = 0; ok = True
        for i, ch in enumerate(s):
            if ch == '(': d += 1
            elif ch == ')':
                d -= 1
                if d == 0 and i != len(s) - 1: ok = False; break
        if ok: s = s[1:-1].strip()
        else: break
    return s

def parse_place(s):
    s = strip_parens(s)
    if re.fullmatch(r'_\d+', s): return ('local', s)
    if s.startswith('*'): return ('deref', parse_place(s[1:]))
    # field:  X.N: type   (type annotation after colon at depth 0)
    d = 0; colon = None
    for i, ch in enumerate(s):
        if ch in '(<[': d += 1
        elif ch in ')>]': d -= 1
        elif ch == ':' and d == 0 and s[i:i+2] != '::' and s[i-1:i+1] != '::': colon = i; break
    core = s[:colon] if colon else s
    m = re.fullmatch(r'(.*)\.(\d+)', core.strip())
    assert m, s
    return ('field', parse_place(m.group(1)), int(m.group(2)))

class Ref:
    def __init__(self, env, place): self.env, self.place = env, place

class Angle:  # formal sum of base angles: dict base->coef(+1/-1) ; each base has (cos,sin)
    def __init__(self, terms): self.terms = terms
    def __add__(self, o): 
        t = dict(self.terms)
        for k, v in o.terms.items(): t[k] = t.get(k, 0) + v
        return Angle(t)
    def __sub__(self, o): return self + Angle({k: -v for k, v in o.terms.items()})

BASES = {}   # name -> (cos, sin)
CONS = []
cnt = [0]
def fresh(p): cnt[0] += 1; return Real(f'{p}{cnt[0]}')

def cos_sin(a):
    c, s = RealVal(1), RealVal(0)
    for k, v in a.terms.items():
        ck, sk = BASES[k]
        assert v in (1, -1)
        if v == -1: sk = -sk
        c, s = c*ck - s*sk, s*ck + c*sk
    return c, s

def read(env, pl):
    k = pl[0]
    if k == 'local': return env[pl[1]]
    if k == 'deref':
        r = read(env, pl[1]); assert isinstance(r, Ref), pl
        return read(r.env, r.place)
    if k == 'field': return read(env, pl[1])[pl[2]]

def write(env, pl, val):
    if pl[0] == 'local': env[pl[1]] = val; return
    raise NotImplementedError(pl)

def operand(env, s):
    s = s.strip()
    if s.startswith('copy ') or s.startswith('move '): return read(env, parse_place(s[5:]))
    m = re.fullmatch(r'const (-?[0-9.]+(?:[eE][-+]?\d+)?)f64', s)
    if m: return RealVal(m.group(1))
    raise NotImplementedError(s)

def split_args(s):
    out, d, cur = [], 0, ''
    for ch in s:
        if ch in '(<[': d += 1
        if ch in ')>]': d -= 1
        if ch == ',' and d == 0: out.append(cur); cur = ''
        else: cur += ch
    if cur.strip(): out.append(cur)
    return out

def sqrt_of(x):
    s = fresh('sq'); CONS.extend([s >= 0, s*s == x]); return s
def div(a, b):
    q = fresh('q'); CONS.append(q*b == a); return q

def call(fname, args):
    if 'points::dist' in fname:               # local fn in reality; summarised here for the spike
        a, b = args; a = read(a.env, a.place); b = read(b.env, b.place)
        return sqrt_of((a[0][0]-b[0][0])**2 + (a[0][1]-b[0][1])**2)
    if fname.endswith('as Deref>::deref'):    # OPoint -> &XY : coords [x,y]
        p = args[0]; v = read(p.env, p.place)
        e = {'tmp': v[0]}; return Ref(e, ('local', 'tmp'))
    if fname.endswith('::asin'):
        q = args[0]; n = f'asin{len(BASES)}'; w = sqrt_of(1 - q*q); BASES[n] = (w, q); return Angle({n: 1})
    if fname.endswith('::acos'):
        q = args[0]; n = f'acos{len(BASES)}'; w = sqrt_of(1 - q*q); BASES[n] = (q, w); return Angle({n: 1})
    if fname.endswith('::atan2'):
        y, x = args; r = sqrt_of(x*x + y*y); CONS.append(r > 0)
        n = f'atan{len(BASES)}'; BASES[n] = (div(x, r), div(y, r)); return Angle({n: 1})
    if fname.endswith('::cos'): return cos_sin(args[0])[0]
    if fname.endswith('::sin'): return cos_sin(args[0])[1]
    if 'point_construction' in fname and fname.endswith('::new'):
        return [[args[0], args[1]]]          # OPoint { coords: [x, y] }
    raise NotImplementedError(fname)

BIN = {'Add': lambda a, b: a + b, 'Sub': lambda a, b: a - b, 'Mul': lambda a, b: a * b,
       'Div': lambda a, b: div(a, b), 'Le': lambda a, b: a <= b, 'Lt': lambda a, b: a < b}

def run(blocks, env, solver):
    """returns list of (path_condition, return_value)"""
    results = []
    def go(bb, env, pc):
        for st in blocks[bb]:
            st = st.rstrip(';')
            m = re.fullmatch(r'(_\d+) = (.*?) -> \[return: (bb\d+).*\]', st)
            if m and re.match(r'[\w<]', m.group(2)) and '(' in m.group(2) and not re.match(r'(Add|Sub|Mul|Div|Le|Lt|copy|move|const)\b', m.group(2)):
                dst, callee, nxt = m.groups()
                fname, argstr = re.fullmatch(r'(.*?)\((.*)\)', callee, re.S).groups()
                args = [operand(env, a) for a in split_args(argstr)]
                env[dst] = call(fname, args); return go(nxt, env, pc)
            m = re.fullmatch(r'switchInt\((.*?)\) -> \[0: (bb\d+), otherwise: (bb\d+)\]', st)
            if m:
                c = operand(env, m.group(1))
                go(m.group(3), dict(env), pc + [c]); go(m.group(2), dict(env), pc + [Not(c)]); return
            m = re.fullmatch(r'goto -> (bb\d+)', st)
            if m: return go(m.group(1), env, pc)
            if st == 'return': results.append((pc, env['_0'])); return
            m = re.fullmatch(r'(_\d+) = (.*)', st)
            assert m, st
            dst, rv = m.groups()
            mb = re.fullmatch(r'(Add|Sub|Mul|Div|Le|Lt)\((.*)\)', rv)
            if mb:
                a, b = [operand(env, x) for x in split_args(mb.group(2))]
                if isinstance(a, Angle) or isinstance(b, Angle): env[dst] = (a + b) if mb.group(1) == 'Add' else (a - b)
                else: env[dst] = BIN[mb.group(1)](a, b)
            elif rv.startswith('&'): env[dst] = Ref(env, parse_place(rv[1:]))
            elif rv.startswith('copy ') or rv.startswith('move ') or rv.startswith('const '): env[dst] = operand(env, rv)
            elif re.match(r'std::option::Option::<.*>::None$', rv): env[dst] = ('None',)
            elif re.match(r'std::option::Option::<.*>::Some\(', rv): env[dst] = ('Some', operand(env, re.search(r'::Some\((.*)\)$', rv).group(1)))
            elif rv.startswith('('): env[dst] = [operand(env, x) for x in split_args(rv[1:-1])]
            else: raise NotImplementedError(st)
    go('bb0', env, [])
    return results

t0 = time.time()
body = fn_body(r'tangent_points_to')
blocks = parse_blocks(body)
cx, cy, r, px, py = Reals('cx cy r px py')
circle = [[[cx, cy]], [r], None]          # Circle2 { center: OPoint{coords}, ball: Ball{radius}, aabb }
point = [[px, py]]
holder = {'c': circle, 'p': point}
env = {'_1': Ref(holder, ('local', 'c')), '_2': Ref(holder, ('local', 'p'))}
paths = run(blocks, env, None)
print('paths:', len(paths), 'bases:', list(BASES))
for pc, ret in paths:
    s = SolverFor('QF_NRA'); s.add(r > 0); s.add(CONS); s.add(pc)
    if ret[0] == 'None':
        print(' path None: reachable =', s.check()); continue
    p0, p1 = ret[1]
    for nm, p in (('p0', p0), ('p1', p1)):
        X, Y = p[0]
        s.push(); s.add((X-cx)*(X-px) + (Y-cy)*(Y-py) != 0)
        res = s.check(); print(f' tangent {nm} perpendicular violated?', res)
        if res == sat:
            m = s.model(); print('   model:', {str(v): m[v] for v in (cx, cy, r, px, py)})
        s.pop()
        s.push(); s.add((X-cx)**2 + (Y-cy)**2 != r*r); print(f' {nm} off circle?', s.check()); s.pop()
print('wall', round(time.time()-t0, 2), 's')
