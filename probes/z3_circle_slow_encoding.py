import time
from z3 import *
PI = RealVal("3.14159265358979311599796346854") # f64 value of PI as exact rational
def t(name, s):
    t0=time.time(); r=s.check(); print(name, r, round(time.time()-t0,2)); 
    if r==sat: 
        m=s.model(); print("   ", {str(k): m[k] for k in m.decls() if k.arity()==0})
# (a) circle-circle: crossing case: both points on both circles
x0,y0,r0,x1,y1,r1,d,a,h = Reals('x0 y0 r0 x1 y1 r1 d a h')
s=Solver()
s.add(r0>0,r1>0,d>=0,d*d==(x1-x0)**2+(y1-y0)**2, d>=RealVal("1e-10"), d<=r0+r1)
s.add(a==(r0*r0-r1*r1+d*d)/(2*d))
vx,vy=(x1-x0)/d,(y1-y0)/d
px,py=x0+vx*a,y0+vy*a
tol=RealVal("1e-10")
s.add(Not(And(d-(r0+r1) < tol, (r0+r1)-d < tol)))   # not touching branch
# reachability of sqrt(negative): r0^2 - a^2 < 0
s.push(); s.add(r0*r0-a*a<0); t("sqrt-negative reachable (nested circles)", s); s.pop()
# when defined: points lie on both circles
s.add(r0*r0-a*a>=0, h>=0, h*h==r0*r0-a*a)
qx,qy=px+(-vy)*h, py+vx*h
s.push(); s.add(Or((qx-x0)**2+(qy-y0)**2 != r0*r0, (qx-x1)**2+(qy-y1)**2 != r1*r1)); t("point off a circle", s); s.pop()
# (b) angle_to_2pi
ang=Real('ang'); k=Int('k'); 
TWO_PI=2*PI
s=Solver()
q=ang/TWO_PI
# trunc toward zero
s.add(If(q>=0, And(ToReal(k)<=q, q<ToReal(k)+1), And(ToReal(k)>=q, q>ToReal(k)-1)))
rem=ang-ToReal(k)*TWO_PI
res=If(rem<0, rem+TWO_PI, rem)
s.push(); s.add(Or(res<0,res>TWO_PI)); t("angle_to_2pi out of range", s); s.pop()
n=Int('n')
s.push(); s.add(ForAll([n], res-ang != ToReal(n)*TWO_PI)); t("angle_to_2pi not same direction (quantified)", s); s.pop()
