#![allow(unused)]
#[cfg(kani)]
mod h {
    use engeom::common::{angle_to_2pi, angle_signed_pi, DiscreteDomain, Interval, AngleInterval};
    use engeom::common::indices::chained_indices;
    use engeom::{Series1, Point2, Circle2, Vector2, Curve2};
    use engeom::func1::Polynomial;

    fn finite(x: f64) -> bool { x.is_finite() }

    // P1: DiscreteDomain::index_of, n=3, full f64 domain
    #[kani::proof]
    #[kani::unwind(6)]
    fn p1_index_of() {
        let a: f64 = kani::any(); let b: f64 = kani::any(); let c: f64 = kani::any();
        let v: f64 = kani::any();
        kani::assume(!v.is_nan());
        if let Ok(d) = DiscreteDomain::try_from(vec![a, b, c]) {
            match d.index_of(v) {
                Some(i) => { assert!(d[i] <= v); if i + 1 < 3 { assert!(v <= d[i+1]); } else { assert!(v == d[2]); } }
                None => assert!(v < a || v > c),
            }
        }
    }

    // P2: Series1::interpolate n=3 (1 div, 1 mul)
    #[kani::proof]
    #[kani::unwind(6)]
    fn p2_interp() {
        let xs: [f64; 3] = kani::any(); let ys: [f64; 3] = kani::any();
        let x: f64 = kani::any();
        kani::assume(ys.iter().all(|y| y.is_finite() && y.abs() < 1e6));
        kani::assume(xs.iter().all(|y| y.abs() < 1e6));
        kani::assume(!x.is_nan());
        if let Ok(s) = Series1::try_new(xs.to_vec(), ys.to_vec()) {
            let y = s.interpolate(x);
            if x < xs[0] || x > xs[2] { assert!(y.is_nan()); }
            else {
                assert!(!y.is_nan());
            }
        }
    }

    // P3: fmod
    #[kani::proof]
    fn p3_angle_2pi() {
        let a: f64 = kani::any();
        kani::assume(a.is_finite() && a.abs() < 1e6);
        let r = angle_to_2pi(a);
        assert!(r >= 0.0 && r <= 2.0 * std::f64::consts::PI);
    }

    // P4: trig
    #[kani::proof]
    fn p4_trig() {
        let x: f64 = kani::any(); let y: f64 = kani::any();
        kani::assume(x.is_finite() && y.is_finite() && x.abs() < 1e3 && y.abs() < 1e3 && (x.abs() > 1e-3 || y.abs() > 1e-3));
        let a = y.atan2(x);
        assert!(a >= -3.2 && a <= 3.2);
        let s = a.sin();
        assert!(s >= -1.0 && s <= 1.0);
    }

    // P5: sqrt / dist
    #[kani::proof]
    fn p5_dist() {
        let x: f64 = kani::any(); let y: f64 = kani::any();
        kani::assume(x.is_finite() && y.is_finite() && x.abs() < 1e3 && y.abs() < 1e3);
        let d = engeom::common::points::dist(&Point2::new(x, y), &Point2::new(0.0, 0.0));
        assert!(d >= x.abs() * 0.999999 );
    }

    // P6: chained_indices, 3 pairs
    #[kani::proof]
    #[kani::unwind(12)]
    fn p6_chain() {
        let p: [[u32; 2]; 3] = kani::any();
        let chains = chained_indices(&p);
        let mut total = 0usize;
        for c in chains.iter() { assert!(c.len() >= 2); total += c.len() - 1; }
        assert!(total == 3);
    }

    // P7: HashMap via unique_edges
    #[kani::proof]
    #[kani::unwind(8)]
    fn p7_hashmap() {
        let e: [[u32; 2]; 2] = kani::any();
        let mut unique = std::collections::HashMap::new();
        for edge in e.iter() { let c = unique.entry(*edge).or_insert(0usize); *c += 1; }
        assert!(unique.len() >= 1 && unique.len() <= 2);
    }

    // P8: Curve2 from 3 concrete points, symbolic length
    #[kani::proof]
    #[kani::unwind(8)]
    fn p8_curve() {
        let pts = [Point2::new(0.0, 0.0), Point2::new(3.0, 0.0), Point2::new(3.0, 4.0)];
        let c = Curve2::from_points(&pts, 1e-6, false).unwrap();
        let l: f64 = kani::any();
        kani::assume(!l.is_nan());
        match c.at_length(l) {
            None => assert!(l < 0.0 || l > 7.0),
            Some(s) => { assert!(s.index() < 2); }
        }
    }

    // P9: least squares K=2 n=2 on small ints
    #[kani::proof]
    #[kani::unwind(8)]
    fn p9_lsq() {
        let x0: i8 = kani::any(); let x1: i8 = kani::any();
        let m: i8 = kani::any(); let b: i8 = kani::any();
        kani::assume(x0 != x1 && x0.abs() < 8 && x1.abs() < 8 && m.abs() < 8 && b.abs() < 8);
        let xs = [x0 as f64, x1 as f64];
        let ys = [(m as f64) * xs[0] + b as f64, (m as f64) * xs[1] + b as f64];
        let p = Polynomial::<2>::least_squares(&xs, &ys, None);
        assert!((p.c[0] - b as f64).abs() < 1e-6);
        assert!((p.c[1] - m as f64).abs() < 1e-6);
    }
}
