import time
from z3 import *
def run(use_acos):
    cx,cy,r,px,py = Reals('cx cy r px py')
    d = Real('d')
    s = Solver()
    s.add(d >= 0, d*d == (px-cx)**2 + (py-cy)**2, r > 0, d > r)
    q = r/d
    # angle = asin(q): sin=q, cos=sqrt(1-q^2);  acos(q): cos=q, sin = sqrt(1-q^2)
    w = Real('w'); s.add(w >= 0, w*w == 1 - q*q)
    (sa, ca) = (w, q) if use_acos else (q, w)
    # theta = atan2(py-cy, px-cx): cos = (px-cx)/d, sin=(py-cy)/d
    ct, st = (px-cx)/d, (py-cy)/d
    # p0 = c + r*(cos(theta-angle), sin(theta-angle))
    c0 = ct*ca + st*sa; s0 = st*ca - ct*sa
    p0x, p0y = cx + r*c0, cy + r*s0
    # tangent: (p0 - c) . (p0 - p) == 0
    dot = (p0x-cx)*(p0x-px) + (p0y-cy)*(p0y-py)
    s.add(dot != 0)
    t=time.time(); res = s.check(); 
    print("acos" if use_acos else "asin", res, round(time.time()-t,2))
    if res == sat:
        m = s.model(); print({str(k): m[k] for k in m})
run(False); run(True)
