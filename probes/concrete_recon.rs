#![allow(unused)]
use engeom::common::points::{dist, fill_gaps, ramer_douglas_peucker};
use engeom::common::{Resample, AngleInterval, angle_to_2pi, angle_signed_pi, angle_in_direction, signed_compliment_2pi, AngleDir};
use engeom::geom2::{Curve2, Point2, Vector2, Circle2, Arc2, Segment2, Iso2, signed_angle, directed_angle, HasBounds2, Line2};
use engeom::geom2::polyline2::{ray_intersect_with_edge};
use engeom::geom3::{Curve3, Point3, Vector3, Iso3, Plane3, IsoExtensions3, UnitVec3};
use engeom::Series1;
use parry2d_f64::query::Ray;
use parry2d_f64::shape::Polyline;
use std::panic::{catch_unwind, AssertUnwindSafe};

struct Rng(u64);
impl Rng { fn f(&mut self) -> f64 { self.0 = self.0.wrapping_mul(6364136223846793005).wrapping_add(1442695040888963407); ((self.0 >> 11) as f64) / ((1u64 << 53) as f64) }
           fn r(&mut self, a: f64, b: f64) -> f64 { a + (b - a) * self.f() } fn u(&mut self, n: usize) -> usize { (self.f() * n as f64) as usize % n } }
fn rand_poly(r: &mut Rng, n: usize) -> Vec<Point2> { let mut p = Point2::new(r.r(-5.,5.), r.r(-5.,5.)); let mut v = vec![p]; for _ in 1..n { p = p + Vector2::new(r.r(-3.,3.), r.r(-3.,3.)); v.push(p);} v }
fn convexish(r: &mut Rng, n: usize) -> Vec<Point2> { let cx = r.r(-5.,5.); let cy = r.r(-5.,5.); (0..n).map(|i| { let a = (i as f64 + r.r(-0.3,0.3)) / n as f64 * std::f64::consts::TAU; let rad = r.r(1.,3.); Point2::new(cx + rad*a.cos(), cy + rad*a.sin()) }).collect() }
use std::collections::BTreeMap; use std::cell::RefCell;
thread_local!{ static CATS: RefCell<BTreeMap<String, usize>> = RefCell::new(BTreeMap::new()); }
macro_rules! bad { ($cnt:expr, $($a:tt)*) => {{ $cnt += 1; let m = format!($($a)*); let key: String = m.split(|c: char| c.is_ascii_digit() || c == '=' || c == '{' || c == '[').next().unwrap().trim().to_string(); let first = CATS.with(|c| { let mut c = c.borrow_mut(); let e = c.entry(key).or_insert(0); *e += 1; *e == 1 }); if first { println!("   FAIL(first of kind) {}", m); } }} }

fn c01(r: &mut Rng) { let mut bad = 0; let mut n = 0;
    for it in 0..400 { let k = 2 + r.u(5); let pts = if it % 2 == 0 { rand_poly(r, k) } else { convexish(r, k.max(3)) }; let closed = it % 3 == 0;
        let c = match Curve2::from_points(&pts, 1e-6, closed) { Ok(c) => c, Err(_) => continue }; let l = c.lengths().clone(); let ltot = c.length();
        let mut ls: Vec<f64> = l.clone(); for i in 0..l.len()-1 { ls.push(l[i] + (l[i+1]-l[i]) * r.f()); }
        for &x in &ls { n += 1; match c.at_length(x) { None => bad!(bad, "None inside l={} L={}", x, ltot), Some(s) => {
            if (s.length_along() - x).abs() > 1e-9 { bad!(bad, "length_along {} vs {}", s.length_along(), x); }
            let i = s.index(); let f = s.fraction(); if i + 1 >= c.count() || !(0.0..=1.0).contains(&f) { bad!(bad, "idx/frac {} {}", i, f); continue; }
            let q = c.vtx(i) + (c.vtx(i+1) - c.vtx(i)) * f; if dist(&q, &s.point()) > 1e-9 { bad!(bad, "lerp mismatch l={} i={} f={}", x, i, f); }
            if let Some(s2) = c.at_fraction(x / ltot) { if dist(&s2.point(), &s.point()) > 1e-9 { bad!(bad, "at_fraction mismatch"); } } else { bad!(bad, "at_fraction None x={} L={}", x, ltot); } } } }
        if c.at_length(-1e-9).is_some() || c.at_length(ltot + 1e-9).is_some() { bad!(bad, "outside gives Some"); }
        // Curve3
        let p3: Vec<Point3> = pts.iter().map(|p| Point3::new(p.x, p.y, p.x * 0.3)).collect(); if let Ok(c3) = Curve3::from_points(&p3, 1e-6) { let l3 = c3.lengths().to_vec(); for i in 0..l3.len() { let s = c3.at_length(l3[i]).unwrap(); if (s.length_along() - l3[i]).abs() > 1e-9 { bad!(bad, "c3 length_along"); } if dist(&s.point(), &c3.vtx(i)) > 1e-9 { bad!(bad, "c3 vertex point"); } } }
    } println!("C01 recon: {} checks, {} bad", n, bad); }

fn c04(r: &mut Rng) { let mut bad = 0; let mut n = 0; let mut panics = 0;
    for it in 0..600 { let k = 3 + r.u(4); let pts = convexish(r, k); let closed = it % 2 == 0; let c = match Curve2::from_points(&pts, 1e-6, closed) { Ok(c) => c, Err(_) => continue }; let l = c.lengths().clone(); let lt = c.length();
        let pick = |r: &mut Rng| -> f64 { if r.f() < 0.4 { l[r.u(l.len())] } else { r.r(0.0, lt) } };
        let (a, b) = (pick(r), pick(r)); if (a - b).abs() < 1e-3 { continue; } n += 1;
        let res = catch_unwind(AssertUnwindSafe(|| c.between_lengths(a, b)));
        let res = match res { Ok(x) => x, Err(_) => { panics += 1; bad!(bad, "PANIC between_lengths a={} b={} closed={} L={}", a, b, closed, lt); continue } };
        let expect_some = closed || a < b; match res { None => if expect_some { bad!(bad, "None for well-posed a={} b={} closed={} L={} lens={:?}", a, b, closed, lt, l) }, Some(p) => { if !expect_some { bad!(bad, "Some for reversed open"); }
            let el = if b > a { b - a } else { lt - (a - b) }; if (p.length() - el).abs() > 1e-6 { bad!(bad, "length {} expect {} a={} b={} closed={} lens={:?}", p.length(), el, a, b, closed, l); }
            let pa = c.at_length(a).unwrap().point(); let pb = c.at_length(b).unwrap().point(); if dist(&p.at_front().point(), &pa) > 1e-6 || dist(&p.at_back().point(), &pb) > 1e-6 { bad!(bad, "endpoints a={} b={} closed={}", a, b, closed); } } }
        // reversed
        let rv = c.reversed(); if (rv.length() - lt).abs() > 1e-9 { bad!(bad, "reversed length"); } let x = r.r(0.0, lt); if dist(&rv.at_length(lt - x).unwrap().point(), &c.at_length(x).unwrap().point()) > 1e-6 { bad!(bad, "reversed point"); }
        // trims and splits
        let t = r.r(0.01, lt - 0.01); if let Some(tf) = c.trim_front(t) { if (tf.length() - (lt - t)).abs() > 1e-6 { bad!(bad, "trim_front len closed={}", closed); } } else { bad!(bad, "trim_front None closed={} t={} L={}", closed, t, lt); }
        if let Some(tb) = c.trim_back(t) { if (tb.length() - (lt - t)).abs() > 1e-6 { bad!(bad, "trim_back len closed={}", closed); } } else { bad!(bad, "trim_back None closed={}", closed); }
        if !closed { if let Ok((x, y)) = c.split_open_at_length(t) { if (x.length() + y.length() - lt).abs() > 1e-6 { bad!(bad, "split_open sum"); } } else { bad!(bad, "split_open Err"); } }
        else { let u = r.r(0.01, lt - 0.01); if (u - t).abs() > 1e-3 { if let Ok((x, y)) = c.split_closed_at_lengths(t, u) { if (x.length() + y.length() - lt).abs() > 1e-6 { bad!(bad, "split_closed sum {} {} L={}", x.length(), y.length(), lt); } } else { bad!(bad, "split_closed Err t={} u={} L={}", t, u, lt); } } }
        // control
        if closed { let (a, b, ctl) = (r.r(0.0, lt), r.r(0.0, lt), r.r(0.0, lt)); if (a-b).abs() > 1e-3 && (a-ctl).abs() > 1e-3 && (b-ctl).abs() > 1e-3 { match c.between_lengths_by_control(a, b, ctl) { None => bad!(bad, "control None"), Some(p) => { let pc = c.at_length(ctl).unwrap().point(); if p.dist_to_point(&pc) > 1e-6 { bad!(bad, "control point not on piece"); } } } } }
    } println!("C04 recon: {} cases, {} bad, {} panics", n, bad, panics); }

fn c05(r: &mut Rng) { let mut bad = 0; let mut n = 0;
    for it in 0..200 { let k = 2 + r.u(5); let pts = rand_poly(r, k); let p3: Vec<Point3> = pts.iter().map(|p| Point3::new(p.x, p.y, 0.5 * p.y)).collect(); let c3 = match Curve3::from_points(&p3, 1e-6) { Ok(c) => c, Err(_) => continue }; n += 1;
        let cnt = 2 + r.u(6); match catch_unwind(AssertUnwindSafe(|| c3.resample(Resample::ByCount(cnt)))) { Err(_) => bad!(bad, "c3 bycount panic"), Ok(rs) => { if dist(&rs.vtx(0), &c3.vtx(0)) > 1e-9 || dist(&rs.at_back().point(), &c3.at_back().point()) > 1e-9 { bad!(bad, "c3 bycount ends"); } for p in rs.points() { if c3.dist_to_point(p) > 1e-9 { bad!(bad, "c3 bycount off curve"); } } } }
        let sp = r.r(0.05, 1.0) * c3.length(); match catch_unwind(AssertUnwindSafe(|| c3.resample(Resample::BySpacing(sp)))) { Err(_) => bad!(bad, "c3 byspacing panic sp={} L={}", sp, c3.length()), Ok(rs) => { for p in rs.points() { if c3.dist_to_point(p) > 1e-9 { bad!(bad, "c3 byspacing off"); } } } }
        let ms = r.r(0.05, 1.5) * c3.length(); match catch_unwind(AssertUnwindSafe(|| c3.resample(Resample::ByMaxSpacing(ms)))) { Err(_) => bad!(bad, "c3 maxspacing panic ms={} L={}", ms, c3.length()), Ok(rs) => { let ll = rs.lengths(); for w in ll.windows(2) { if w[1] - w[0] > ms + 1e-9 { bad!(bad, "c3 maxspacing exceeded {} > {}", w[1]-w[0], ms); break; } } } }
        let c2 = Curve2::from_points(&pts, 1e-6, false).unwrap(); let sp2 = r.r(0.05, 1.0) * c2.length(); match catch_unwind(AssertUnwindSafe(|| c2.resample(Resample::BySpacing(sp2)))) { Err(_) => bad!(bad, "c2 byspacing panic"), Ok(Err(_)) => bad!(bad, "c2 byspacing err"), Ok(Ok(rs)) => { for p in rs.points() { if c2.dist_to_point(p) > 1e-9 { bad!(bad, "c2 byspacing off"); } } let m0 = c2.at_closest_to_point(&rs.vtx(0)).length_along(); let m1 = c2.length() - c2.at_closest_to_point(&rs.at_back().point()).length_along(); if (m0 - m1).abs() > 1e-6 || m0 >= sp2 { bad!(bad, "c2 byspacing margins {} {} sp {}", m0, m1, sp2); } } }
        // rdp
        let e = r.r(0.01, 1.0); let s = ramer_douglas_peucker(&pts, e); if dist(&s[0], &pts[0]) > 0.0 || dist(s.last().unwrap(), pts.last().unwrap()) > 0.0 { bad!(bad, "rdp ends"); } if s.len() >= 2 { let sc = Curve2::from_points(&s, 1e-12, false); if let Ok(sc) = sc { for p in &pts { if sc.dist_to_point(p) > e + 1e-9 { bad!(bad, "rdp dropped vertex {} from simplified > e={}", sc.dist_to_point(p), e); break; } } } }
        // fill gaps
        let mx = r.r(0.1, 2.0); let fg = fill_gaps(&pts, mx); for w in fg.windows(2) { if dist(&w[0], &w[1]) > mx + 1e-9 { bad!(bad, "fill_gaps gap"); } }
    } println!("C05 recon: {} cases, {} bad", n, bad); }

fn c06(r: &mut Rng) { let mut bad = 0; let mut n = 0;
    for it in 0..300 { let k = 5 + r.u(40); let mut pts = convexish(r, k); pts.push(pts[0]); let c = Curve2::from_points(&pts, 1e-9, false).unwrap(); let line = Polyline::new(c.clone_points(), None);
        for j in 0..20 { let o = Point2::new(r.r(-8., 8.), r.r(-8., 8.)); let d = match j % 4 { 0 => Vector2::new(1.0, 0.0), 1 => Vector2::new(0.0, -1.0), 2 => Vector2::new(r.r(-1.,1.), r.r(-1.,1.)), _ => Vector2::new(0.0, r.r(-2., 2.)) }; if d.norm() < 1e-3 { continue; }
            let ray = Ray::new(o, d); n += 1; let fast: Vec<f64> = c.ray_intersections(&ray).iter().map(|x| x.0).collect(); let mut naive: Vec<f64> = (0..c.count()-1).filter_map(|i| ray_intersect_with_edge(&line, &ray, i)).collect(); naive.sort_by(|a, b| a.partial_cmp(b).unwrap()); naive.dedup_by(|a, b| (*a - *b).abs() < 1e-8);
            if fast != naive { bad!(bad, "fast {:?} naive {:?} o={:?} d={:?}", fast, naive, o, d); }
            let sr = c.try_create_spanning_ray(&ray); if sr.is_some() != (naive.len() == 2) { bad!(bad, "spanning some={} naive={}", sr.is_some(), naive.len()); } }
    } println!("C06 recon: {} rays, {} bad", n, bad); }

fn c11(r: &mut Rng) { let mut bad = 0; let mut n = 0;
    for it in 0..500 { n += 1; let c0 = Circle2::new(r.r(-5.,5.), r.r(-5.,5.), r.r(0.2, 3.0)); let c1 = Circle2::new(r.r(-5.,5.), r.r(-5.,5.), r.r(0.2, 3.0));
        if let Some((s0, s1)) = c0.outer_tangents_to(&c1) { for s in [s0, s1] { let da = (c0.distance_to(&s.a)).abs(); let db = c1.distance_to(&s.b).abs(); let dir = s.b - s.a; let pa = dir.dot(&(s.a - c0.center)).abs() / dir.norm().max(1e-12); let pb = dir.dot(&(s.b - c1.center)).abs() / dir.norm().max(1e-12); if da > 1e-6 || db > 1e-6 || pa > 1e-6 || pb > 1e-6 { bad!(bad, "outer tangent da={} db={} pa={} pb={} r0={} r1={} d={}", da, db, pa, pb, c0.r(), c1.r(), dist(&c0.center, &c1.center)); } } }
        let seg = Segment2::try_new(Point2::new(r.r(-6.,6.), r.r(-6.,6.)), Point2::new(r.r(-6.,6.), r.r(-6.,6.))).unwrap(); use engeom::common::Intersection; for p in c0.intersection(&seg) { if c0.distance_to(&p).abs() > 1e-6 { bad!(bad, "seg-circle point off circle"); } let t = seg.projected_parameter(&p); if t < -1e-6 || t > 1.0 + 1e-6 { bad!(bad, "seg-circle point off segment"); } }
        let (p0, p1, p2) = (Point2::new(r.r(-5.,5.), r.r(-5.,5.)), Point2::new(r.r(-5.,5.), r.r(-5.,5.)), Point2::new(r.r(-5.,5.), r.r(-5.,5.))); if Circle2::from_3_points(p0, p1, p2).is_ok() { let a = Arc2::three_points(p0, p1, p2); if dist(&a.start(), &p0) > 1e-6 || dist(&a.end(), &p2) > 1e-6 { bad!(bad, "arc ends"); } let ang1 = directed_angle(&(p0 - a.center()), &(p1 - a.center()), if a.angle >= 0.0 { AngleDir::Ccw } else { AngleDir::Cw }); if ang1 > a.angle.abs() + 1e-9 { bad!(bad, "arc does not pass p1: ang1={} sweep={}", ang1, a.angle); }
            let bb = a.aabb(); let mut mn = Point2::new(f64::MAX, f64::MAX); let mut mx = Point2::new(f64::MIN, f64::MIN); for i in 0..=2000 { let p = a.point_at_fraction(i as f64 / 2000.0); mn.x = mn.x.min(p.x); mn.y = mn.y.min(p.y); mx.x = mx.x.max(p.x); mx.y = mx.y.max(p.y); } if dist(&mn, &bb.mins) > 1e-3 * a.radius().max(1.0) || dist(&mx, &bb.maxs) > 1e-3 * a.radius().max(1.0) { bad!(bad, "arc aabb {:?} {:?} vs {:?} {:?} angle0={} angle={}", bb.mins, bb.maxs, mn, mx, a.angle0, a.angle); } }
        let ints = c0.intersections_with(&c1); for p in &ints { if !(p.x.is_finite() && p.y.is_finite()) { bad!(bad, "nonfinite intersection"); } else if c0.distance_to(p).abs() > 1e-6 || c1.distance_to(p).abs() > 1e-6 { bad!(bad, "cc point off"); } }
    } println!("C11 recon: {} cases, {} bad", n, bad); }

fn c18(_r: &mut Rng) { use std::f64::consts::PI; let mut bad = 0; let vals = [0.0, -0.0, PI, -PI, 2.0*PI, -2.0*PI, 1e-20, -1e-20, 4.0*PI, -4.0*PI, 1e6, -1e6, PI + 1e-15, -PI - 1e-15, 3.0*PI, -3.0*PI];
    for &a in &vals { let t = angle_to_2pi(a); if !(t >= 0.0 && t <= 2.0*PI) { bad!(bad, "to_2pi({})={}", a, t); } let s = angle_signed_pi(a); if !(s >= -PI && s <= PI) { bad!(bad, "signed_pi({})={}", a, s); }
        for &b in &vals { let cw = angle_in_direction(a, b, AngleDir::Cw); let ccw = angle_in_direction(a, b, AngleDir::Ccw); if !(cw >= 0.0 && cw <= 2.0*PI && ccw >= 0.0 && ccw <= 2.0*PI) { bad!(bad, "in_direction range a={} b={} cw={} ccw={}", a, b, cw, ccw); } let sum = cw + ccw; if !((sum - 2.0*PI).abs() < 1e-9 || (cw.abs() < 1e-9 && ccw.abs() < 1e-9)) { if a.abs() < 100.0 && b.abs() < 100.0 { bad!(bad, "cw+ccw a={} b={} cw={} ccw={}", a, b, cw, ccw); } } } }
    for &(s, e, q, exp) in &[(0.0, 0.1, -1e-20, true), (6.0, 1.0, 0.5, true), (0.0, 0.1, 2.0*PI, true), (1.0, -0.5, 0.75, true), (1.0, -0.5, 1.25, false), (0.0, 2.0*PI, 3.0, true), (0.0, -7.0, 3.0, true)] { let iv = AngleInterval::new(s, e); if iv.contains(q) != exp { bad!(bad, "AngleInterval({}, {}).contains({}) = {} expected {}", s, e, q, iv.contains(q), exp); } }
    println!("C18 recon: {} bad", bad); }

fn c19(r: &mut Rng) { let mut bad = 0; let mut n = 0;
    for _ in 0..300 { n += 1; let a = Vector3::new(r.r(-2.,2.), r.r(-2.,2.), r.r(-2.,2.)); let b = Vector3::new(r.r(-2.,2.), r.r(-2.,2.), r.r(-2.,2.)); let o = Point3::new(r.r(-5.,5.), r.r(-5.,5.), r.r(-5.,5.)); if a.cross(&b).norm() < 1e-2 { continue; }
        let fns: [(&str, fn(&Vector3, &Vector3, Option<Point3>) -> engeom::Result<Iso3>, usize, usize); 6] = [("xy", Iso3::try_from_basis_xy, 0, 1), ("xz", Iso3::try_from_basis_xz, 0, 2), ("yz", Iso3::try_from_basis_yz, 1, 2), ("yx", Iso3::try_from_basis_yx, 1, 0), ("zx", Iso3::try_from_basis_zx, 2, 0), ("zy", Iso3::try_from_basis_zy, 2, 1)];
        for (nm, f, pi, si) in fns { let iso = f(&a, &b, Some(o)).unwrap(); let m = iso.rotation.to_rotation_matrix(); let cols = [m.matrix().column(0).into_owned(), m.matrix().column(1).into_owned(), m.matrix().column(2).into_owned()]; let det = m.matrix().determinant(); if (det - 1.0).abs() > 1e-9 { bad!(bad, "{} det {}", nm, det); } if (cols[pi] - a.normalize()).norm() > 1e-9 { bad!(bad, "{} primary axis", nm); } if cols[si].dot(&b) <= 0.0 { bad!(bad, "{} secondary half-plane", nm); } if (iso * Point3::origin() - o).norm() > 1e-9 { bad!(bad, "{} origin", nm); } }
        let (p1, p2, p3) = (o, o + a, o + b); let pl = Plane3::from((&p1, &p2, &p3)); for p in [p1, p2, p3] { if pl.signed_distance_to_point(&p).abs() > 1e-9 { bad!(bad, "plane3 contains"); } } let q = Point3::new(r.r(-5.,5.), r.r(-5.,5.), r.r(-5.,5.)); let pq = pl.project_point(&q); if pl.signed_distance_to_point(&pq).abs() > 1e-9 { bad!(bad, "plane project"); } if (pl.inverted_normal().signed_distance_to_point(&q) + pl.signed_distance_to_point(&q)).abs() > 1e-9 { bad!(bad, "plane invert"); }
        let t = Iso3::new(Vector3::new(r.r(-5.,5.), r.r(-5.,5.), r.r(-5.,5.)), Vector3::new(r.r(-3.,3.), r.r(-3.,3.), r.r(-3.,3.))); let plt = pl.transform_by(&t); if (plt.signed_distance_to_point(&(t * q)) - pl.signed_distance_to_point(&q)).abs() > 1e-9 { bad!(bad, "plane transform invariance"); }
    } println!("C19 recon: {} cases, {} bad", n, bad); }

fn c17(r: &mut Rng) { let mut bad = 0; let mut n = 0;
    for _ in 0..300 { n += 1; let k = 2 + r.u(5); let mut xs = vec![r.r(-5., 5.)]; for _ in 1..k { let last = *xs.last().unwrap(); xs.push(last + r.r(0.1, 2.0)); } let ys: Vec<f64> = (0..k).map(|_| r.r(-3., 3.)).collect(); let s = Series1::try_new(xs.clone(), ys.clone()).unwrap();
        let (a, b) = { let a = r.r(xs[0], xs[k-1]); let b = r.r(xs[0], xs[k-1]); (a.min(b), a.max(b)) }; if b - a < 1e-6 { continue; }
        match catch_unwind(AssertUnwindSafe(|| s.between(a, b))) { Err(_) => bad!(bad, "between panic"), Ok(t) => { if t.x_min() != a || t.x_max() != b { bad!(bad, "between ends {} {} vs {} {}", t.x_min(), t.x_max(), a, b); } for i in 0..=10 { let x = a + (b - a) * i as f64 / 10.0; if (t.interpolate(x) - s.interpolate(x)).abs() > 1e-9 { bad!(bad, "between != parent at {}", x); } } } }
        let x = r.r(xs[0], xs[k-1]); if let (Some(l), Some(rr)) = s.split_at_x(x) { if (l.area_under() + rr.area_under() - s.area_under()).abs() > 1e-9 { bad!(bad, "split areas"); } }
        let m = 2 + r.u(6); match catch_unwind(AssertUnwindSafe(|| s.resampled_n(m))) { Err(_) => bad!(bad, "resampled_n panic m={}", m), Ok(t) => { if t.x.len() != m || t.x_min() != s.x_min() || t.x_max() != s.x_max() { bad!(bad, "resampled_n ends/len m={} got {} [{}, {}] vs [{}, {}]", m, t.x.len(), t.x_min(), t.x_max(), s.x_min(), s.x_max()); } } }
        let lvl = r.r(-3., 3.); match catch_unwind(AssertUnwindSafe(|| s.y_crossings(lvl))) { Err(_) => bad!(bad, "y_crossings panic"), Ok(cs) => { for c in &cs { if (s.interpolate(*c) - lvl).abs() > 1e-9 { bad!(bad, "crossing not at level"); } } let mut cnt = 0; for i in 0..k-1 { if (ys[i] - lvl) * (ys[i+1] - lvl) < 0.0 { cnt += 1; } } if cs.len() < cnt { bad!(bad, "missing crossings {} < {}", cs.len(), cnt); } } }
        let sc = s.scaled_by(-2.0, 1.0); if !sc.is_ordered() { bad!(bad, "scaled_by negative unordered"); }
    }
    let flat = Series1::try_new(vec![0.0, 1.0, 2.0], vec![1.0, 1.0, 2.0]).unwrap(); match catch_unwind(AssertUnwindSafe(|| flat.y_crossings(1.0))) { Err(_) => bad!(bad, "flat y_crossings panic"), Ok(cs) => if cs.iter().any(|c| c.is_nan()) { bad!(bad, "flat y_crossings NaN {:?}", cs) } else { println!("   flat crossings {:?}", cs) } }
    println!("C17 recon: {} cases, {} bad", n, bad); }


fn c08(r: &mut Rng) { use engeom::geom2::align2::{RcParams2, iso2_from_param, param_from_iso2}; use engeom::geom3::align3::{RcParams3, iso3_from_param, param_from_iso3, jacobian::{point_plane_jacobian, point_point_jacobian, point_plane_jacobian_rev}}; use engeom::SurfacePoint3; use parry3d_f64::na::{Vector6, Vector3 as V3};
    let mut bad = 0; let mut n = 0; use std::f64::consts::PI;
    for it in 0..400 { n += 1; let t2 = Iso2::new(Vector2::new(r.r(-10.,10.), r.r(-10.,10.)), r.r(-PI, PI)); let rc = Point2::new(r.r(-1000.,1000.), r.r(-1000.,1000.)); let p = RcParams2::from_initial(&t2, &rc);
        if (p.transform().to_matrix() - t2.to_matrix()).norm() > 1e-8 { bad!(bad, "rc2 from_initial mismatch"); } if ((p.transform() * p.inverse()).to_matrix() - Iso2::identity().to_matrix()).norm() > 1e-8 { bad!(bad, "rc2 inverse"); } if dist(p.current_rc(), &(t2 * rc)) > 1e-8 { bad!(bad, "rc2 current_rc"); }
        let mut q = p.clone(); let mut x = *q.x(); x[0] += 0.5; x[1] -= 0.25; q.set(&x); let tp = Point2::new(r.r(-5.,5.), r.r(-5.,5.)); let d = (q.transform() * tp) - (p.transform() * tp); if (d - Vector2::new(0.5, -0.25)).norm() > 1e-8 { bad!(bad, "rc2 pure translation {:?}", d); }
        let back = iso2_from_param(&param_from_iso2(&t2)); if (back.to_matrix() - t2.to_matrix()).norm() > 1e-9 { bad!(bad, "iso2 param roundtrip"); }
        // 3D
        let pitch = match it % 5 { 0 => PI / 2.0, 1 => -PI / 2.0, 2 => PI / 2.0 - 1e-9, 3 => -PI / 2.0 + 1e-9, _ => r.r(-1.5, 1.5) };
        let e = Vector6::new(r.r(-10.,10.), r.r(-10.,10.), r.r(-10.,10.), r.r(-PI, PI), pitch, r.r(-PI, PI)); let t3 = iso3_from_param(&e); let back3 = iso3_from_param(&param_from_iso3(&t3)); if (back3.to_matrix() - t3.to_matrix()).norm() > 1e-7 { bad!(bad, "iso3 param roundtrip kind{} pitch={} err={} e={:?} back={:?}", it % 5, pitch, (back3.to_matrix() - t3.to_matrix()).norm(), e, param_from_iso3(&t3)); }
        let rc3 = Point3::new(r.r(-1000.,1000.), r.r(-1000.,1000.), r.r(-1000.,1000.)); let p3 = RcParams3::from_initial(&t3, &rc3); let err = (p3.transform().to_matrix() - t3.to_matrix()).norm(); if err > 1e-6 { bad!(bad, "rc3 from_initial mismatch pitch={} err={}", pitch, err); }
        if dist(p3.current_rc(), &(t3 * rc3)) > 1e-6 { bad!(bad, "rc3 current_rc"); }
        // jacobians vs central differences (regular poses only)
        if it % 5 == 4 { let tp = Point3::new(r.r(-5.,5.), r.r(-5.,5.), r.r(-5.,5.)); let moved = p3.transform() * tp; let sp = SurfacePoint3::new_normalize(Point3::new(r.r(-5.,5.), r.r(-5.,5.), r.r(-5.,5.)), Vector3::new(r.r(-1.,1.), r.r(-1.,1.), r.r(-1.,1.)));
            let jp = point_plane_jacobian(&moved, &sp, &p3); let jpp = point_point_jacobian(&moved, &sp.point, &p3); let jr = point_plane_jacobian_rev(&moved, &sp, &p3);
            for k in 0..6 { let h = 1e-6; let mut xa = *p3.x(); xa[k] += h; let mut xb = *p3.x(); xb[k] -= h; let mut pa = p3.clone(); pa.set(&xa); let mut pb = p3.clone(); pb.set(&xb); let ma = pa.transform() * tp; let mb = pb.transform() * tp;
                let fd_plane = (sp.scalar_projection(&ma).abs() - sp.scalar_projection(&mb).abs()) / (2.0 * h); let fd_point = (dist(&ma, &sp.point) - dist(&mb, &sp.point)) / (2.0 * h);
                if (fd_plane - jp[k]).abs() > 1e-4 * (1.0 + fd_plane.abs()) { bad!(bad, "point_plane_jacobian k={} fd={} an={}", k, fd_plane, jp[k]); } if (fd_point - jpp[k]).abs() > 1e-4 * (1.0 + fd_point.abs()) { bad!(bad, "point_point_jacobian k={} fd={} an={}", k, fd_point, jpp[k]); }
                // rev: move the reference by relative transform
                let rel_a = pa.transform() * p3.inverse(); let rel_b = pb.transform() * p3.inverse(); let fd_rev = (sp.transformed(&rel_a).scalar_projection(&moved) - sp.transformed(&rel_b).scalar_projection(&moved)) / (2.0 * h); let s = sp.scalar_projection(&moved).signum(); if (fd_rev * s - jr[k]).abs() > 1e-4 * (1.0 + fd_rev.abs()) { bad!(bad, "point_plane_jacobian_rev k={} fd*s={} an={}", k, fd_rev * s, jr[k]); } } }
    } println!("C08 recon: {} cases, {} bad", n, bad); }

fn c12(r: &mut Rng) { use engeom::Mesh; use engeom::common::indices::chained_indices; use engeom::raster3::clusters_from_sparse; use std::collections::HashSet; let mut bad = 0; let mut n = 0;
    // random small meshes from a grid with holes / flipped faces
    for it in 0..200 { n += 1; let w = 2 + r.u(3); let h = 2 + r.u(3); let mut v = vec![]; for j in 0..=h { for i in 0..=w { v.push(Point3::new(i as f64, j as f64, 0.0)); } } let id = |i: usize, j: usize| (j * (w + 1) + i) as u32; let mut f: Vec<[u32; 3]> = vec![]; for j in 0..h { for i in 0..w { if r.f() < 0.25 { continue; } let (a, b, c, d) = (id(i, j), id(i + 1, j), id(i + 1, j + 1), id(i, j + 1)); let flip = it % 3 == 0 && r.f() < 0.3; f.push(if flip { [a, c, b] } else { [a, b, c] }); f.push([a, c, d]); } } if f.is_empty() { continue; }
        let m = Mesh::new(v.clone(), f.clone(), false);
        // union-find oracle on shared undirected edges
        let mut parent: Vec<usize> = (0..f.len()).collect(); fn find(p: &mut Vec<usize>, x: usize) -> usize { if p[x] != x { let r = find(p, p[x]); p[x] = r; } p[x] } let mut em: std::collections::HashMap<(u32, u32), Vec<usize>> = Default::default(); for (fi, t) in f.iter().enumerate() { for k in 0..3 { let (a, b) = (t[k], t[(k + 1) % 3]); em.entry((a.min(b), a.max(b))).or_default().push(fi); } } for (_, fs) in em.iter() { for w2 in fs.windows(2) { let (a, b) = (find(&mut parent, w2[0]), find(&mut parent, w2[1])); parent[a] = b; } }
        let ncomp = (0..f.len()).filter(|&i| find(&mut parent, i) == i).count(); let patches = m.get_patches(); let total: usize = patches.iter().map(|p| p.len()).sum(); let uniq: HashSet<usize> = patches.iter().flatten().copied().collect(); if total != f.len() || uniq.len() != f.len() { bad!(bad, "patches not a partition total={} faces={}", total, f.len()); } if patches.len() != ncomp { bad!(bad, "patch count {} vs components {} (flips={})", patches.len(), ncomp, it % 3 == 0); }
        // edges (watchdog by thread not available: skip meshes with vertex-only contact)
    }
    for it in 0..500 { n += 1; let k = 1 + r.u(6); let nv = 2 + r.u(6) as u32; let pairs: Vec<[u32; 2]> = (0..k).map(|_| { let a = r.u(nv as usize) as u32; let mut b = r.u(nv as usize) as u32; if b == a { b = (a + 1) % nv; } [a, b] }).collect(); let chains = chained_indices(&pairs); let mut used = vec![0usize; k]; for c in &chains { for w2 in c.windows(2) { if let Some(i) = (0..k).find(|&i| pairs[i] == [w2[0], w2[1]] && used[i] == 0) { used[i] += 1; } else { bad!(bad, "chain step not an unused input pair {:?} in {:?}", w2, pairs); } } } if used.iter().any(|&u| u != 1) { bad!(bad, "pair not used exactly once {:?} -> {:?}", pairs, chains); } }
    for _ in 0..200 { n += 1; let k = 1 + r.u(8); let vox: HashSet<(i32, i32, i32)> = (0..k).map(|_| (r.u(4) as i32, r.u(4) as i32, r.u(2) as i32)).collect(); let cl = clusters_from_sparse(vox.clone()); let tot: usize = cl.iter().map(|c| c.len()).sum(); if tot != vox.len() { bad!(bad, "voxel clusters not partition"); } for (i, a) in cl.iter().enumerate() { for (j, b) in cl.iter().enumerate() { if i < j { for p in a { for q in b { if (p.0 - q.0).abs() <= 1 && (p.1 - q.1).abs() <= 1 && (p.2 - q.2).abs() <= 1 { bad!(bad, "adjacent voxels in different clusters"); } } } } } } }
    println!("C12 recon: {} cases, {} bad", n, bad); }

fn c15(r: &mut Rng) { use engeom::common::kd_tree::{KdTree, KdTreeSearch, PartialKdTree}; use engeom::common::poisson_disk::sample_poisson_disk; use engeom::geom2::hull::{convex_hull_2d, farthest_pair_indices, point_order_direction}; let mut bad = 0; let mut n = 0;
    for it in 0..200 { n += 1; let k = 3 + r.u(60); let pts: Vec<Point2> = (0..k).map(|_| if it % 2 == 0 { Point2::new(r.r(0., 5.), r.r(0., 5.)) } else { Point2::new(r.u(5) as f64, r.u(5) as f64) }).collect(); let tree = KdTree::new(&pts); let q = Point2::new(r.r(-1., 6.), r.r(-1., 6.));
        let (i, d) = tree.nearest_one(&q); let bd = pts.iter().map(|p| dist(p, &q)).fold(f64::MAX, f64::min); if (d - bd).abs() > 1e-12 || (dist(&pts[i], &q) - bd).abs() > 1e-12 { bad!(bad, "nearest_one"); }
        let rad = r.r(0.2, 2.0); let mut w: Vec<usize> = tree.within(&q, rad).iter().map(|x| x.0).collect(); w.sort(); let bw: Vec<usize> = (0..k).filter(|&j| dist(&pts[j], &q) <= rad).collect(); if w != bw { bad!(bad, "within {:?} vs {:?} rad={} q={:?} dists_kiddo={:?} dists_brute={:?}", w, bw, rad, q, w.iter().map(|&j| dist(&pts[j], &q)).collect::<Vec<_>>(), bw.iter().map(|&j| dist(&pts[j], &q)).collect::<Vec<_>>()); }
        let idx: Vec<usize> = (0..k).filter(|_| r.f() < 0.6).collect(); if idx.len() >= 1 { let pt = PartialKdTree::new(&pts, &idx); let (pi, pd) = pt.nearest_one(&q); let bb = idx.iter().map(|&j| dist(&pts[j], &q)).fold(f64::MAX, f64::min); if !idx.contains(&pi) || (pd - bb).abs() > 1e-12 { bad!(bad, "partial nearest"); }
            let keep = sample_poisson_disk(&pts, &idx, rad); for (a, &x) in keep.iter().enumerate() { if !idx.contains(&x) { bad!(bad, "poisson not subset"); } for &y in keep.iter().skip(a + 1) { if dist(&pts[x], &pts[y]) <= rad && x != y { bad!(bad, "poisson separation d={} rad={}", dist(&pts[x], &pts[y]), rad); } } } for &j in &idx { if !keep.iter().any(|&x| dist(&pts[x], &pts[j]) <= rad + 1e-12) { bad!(bad, "poisson coverage"); } } }
        let hull = convex_hull_2d(&pts); if hull.len() >= 3 { let mut area = 0.0; for a in 0..hull.len() { let (p, q2) = (pts[hull[a]], pts[hull[(a + 1) % hull.len()]]); area += p.x * q2.y - q2.x * p.y; } if area < 0.0 { bad!(bad, "hull not ccw"); } }
    }
    for _ in 0..200 { n += 1; let k = 3 + r.u(10); let mut pts = convexish(r, k); let ccw = r.f() < 0.5; if !ccw { pts.reverse(); } let rot = r.u(k); pts.rotate_left(rot); let d = point_order_direction(&pts); let is_ccw = matches!(d, AngleDir::Ccw); let mut area = 0.0; for a in 0..k { let (p, q2) = (pts[a], pts[(a + 1) % k]); area += p.x * q2.y - q2.x * p.y; } if is_ccw != (area > 0.0) { bad!(bad, "point_order_direction ccw={} area={} k={} rot={}", is_ccw, area, k, rot); } }
    println!("C15 recon: {} cases, {} bad", n, bad); }

fn c03(r: &mut Rng) { let mut bad = 0; let mut n = 0; use std::f64::consts::PI;
    for it in 0..200 { n += 1; let k = 3 + r.u(6); let pts = rand_poly(r, k); let closed = it % 2 == 0; let c = match Curve2::from_points(&pts, 1e-6, closed) { Ok(c) => c, Err(_) => continue }; let t = Iso2::new(Vector2::new(r.r(-1000., 1000.), r.r(-1000., 1000.)), r.r(-PI, PI)); let ct = c.transformed_by(&t); if (ct.length() - c.length()).abs() > 1e-7 || ct.is_closed() != c.is_closed() || ct.count() != c.count() { bad!(bad, "curve2 transform len/closed/count {} {} {} {}", ct.length(), c.length(), ct.count(), c.count()); }
        let q = Point2::new(r.r(-8., 8.), r.r(-8., 8.)); if (ct.dist_to_point(&(t * q)) - c.dist_to_point(&q)).abs() > 1e-7 { bad!(bad, "curve2 dist invariance"); } let s = c.at_closest_to_point(&q); let st = ct.at_closest_to_point(&(t * q)); if (st.length_along() - s.length_along()).abs() > 1e-6 && c.dist_to_point(&q) > 1e-3 { /* ties possible */ }
        let back = ct.transformed_by(&t.inverse()); for (a, b) in back.points().iter().zip(c.points()) { if dist(a, b) > 1e-7 { bad!(bad, "curve2 inverse restore"); break; } } }
    println!("C03 recon: {} cases, {} bad", n, bad); }

fn c02(r: &mut Rng) { let mut bad = 0; let mut n = 0;
    for it in 0..300 { let k = 2 + r.u(30); let pts = rand_poly(r, k); let c = match Curve2::from_points(&pts, 1e-9, false) { Ok(c) => c, Err(_) => continue }; for _ in 0..10 { n += 1; let q = if r.f() < 0.2 { c.at_length(r.r(0.0, c.length())).unwrap().point() } else { Point2::new(r.r(-15., 15.), r.r(-15., 15.)) };
        let s = c.at_closest_to_point(&q); let d = c.dist_to_point(&q); let mut best = f64::MAX; for i in 0..c.count() - 1 { let a = c.vtx(i); let b = c.vtx(i + 1); let ab = b - a; let t = ((q - a).dot(&ab) / ab.dot(&ab)).clamp(0.0, 1.0); best = best.min(dist(&q, &(a + ab * t))); } if (d - best).abs() > 1e-9 { bad!(bad, "dist not global min {} vs {}", d, best); } if (dist(&s.point(), &q) - d).abs() > 1e-9 { bad!(bad, "station dist"); } let i = s.index(); let rp = c.vtx(i) + (c.vtx(i + 1) - c.vtx(i)) * s.fraction(); if dist(&rp, &s.point()) > 1e-9 { bad!(bad, "station index/fraction do not reproduce point i={} f={}", i, s.fraction()); } } }
    println!("C02 recon: {} cases, {} bad", n, bad); }

fn c13(r: &mut Rng) { use engeom::Mesh; let mut bad = 0; let mut n = 0; use std::f64::consts::PI;
    for it in 0..200 { n += 1; let (w, h, d) = (r.r(0.5, 3.0), r.r(0.5, 3.0), r.r(0.5, 3.0)); let mut m = Mesh::create_box(w, h, d, true); let t = Iso3::new(Vector3::new(r.r(-5.,5.), r.r(-5.,5.), r.r(-5.,5.)), Vector3::new(r.r(-3.,3.), r.r(-3.,3.), r.r(-3.,3.))); m.transform(&t);
        let nrm = UnitVec3::new_normalize(Vector3::new(r.r(-1.,1.), r.r(-1.,1.), r.r(-1.,1.))); let c = t * Point3::new(w * r.r(0.2, 0.8), h * r.r(0.2, 0.8), d * r.r(0.2, 0.8)); let pl = Plane3::from((&nrm, &c));
        let secs = m.section(&pl, None).unwrap(); if secs.len() != 1 { bad!(bad, "box section loops = {}", secs.len()); continue; } let s = &secs[0]; for p in s.points() { if pl.signed_distance_to_point(p).abs() > 1e-6 { bad!(bad, "section vertex off plane"); } if dist(&m.point_closest_to(p), p) > 1e-6 { bad!(bad, "section vertex off surface"); } } if dist(&s.points()[0], s.points().last().unwrap()) > 1e-6 { bad!(bad, "section loop not closed"); }
    } println!("C13 recon: {} cases, {} bad", n, bad); }
fn c16(r: &mut Rng) { use engeom::metrology::line_profiles::point_curve2_deviation; use engeom::metrology::{Measurement, Distance2}; use engeom::Mesh; use engeom::common::DistMode; let mut bad = 0; let mut n = 0;
    for it in 0..300 { n += 1; let k = 4 + r.u(6); let mut pts = convexish(r, k); pts.push(pts[0]); let c = Curve2::from_points(&pts, 1e-9, false).unwrap(); let q = Point2::new(r.r(-8., 8.), r.r(-8., 8.)); let st = c.at_closest_to_point(&q); let dv = point_curve2_deviation(&st, &q); let d = c.dist_to_point(&q); if (dv.deviation.abs() - d).abs() > 1e-9 { bad!(bad, "deviation magnitude {} vs {}", dv.deviation, d); } let side = (q - st.point()).dot(&st.normal()); if side.abs() > 1e-6 && dv.deviation.signum() != side.signum() { bad!(bad, "deviation sign"); } if dist(&dv.actual_point(), &q) > 1e-9 { bad!(bad, "deviation reconstruct"); }
        let a = Point2::new(r.r(-5.,5.), r.r(-5.,5.)); let b = Point2::new(r.r(-5.,5.), r.r(-5.,5.)); let dd = Distance2::new(a, b, None); if (dd.value() - dist(&a, &b)).abs() > 1e-12 || (dd.reversed().value() - dd.value()).abs() > 1e-12 { bad!(bad, "distance value/reversed"); }
        let m = Mesh::create_box(1.0, 2.0, 3.0, false); let p = Point3::new(r.r(-2., 3.), r.r(-2., 4.), r.r(-2., 5.)); for mode in [DistMode::ToPoint, DistMode::ToPlane] { let is_point = matches!(mode, DistMode::ToPoint); let ms = m.measure_point_deviation(&p, mode); let cl = m.surf_closest_to(&p); let full = dist(&cl.point, &p); if is_point { if (ms.value().abs() - full).abs() > 1e-9 { bad!(bad, "mesh ToPoint magnitude"); } } else { if (ms.value() - cl.scalar_projection(&p)).abs() > 1e-9 { bad!(bad, "mesh ToPlane value"); } } let side = cl.scalar_projection(&p); if side.abs() > 1e-6 && ms.value().signum() != side.signum() { bad!(bad, "mesh deviation sign point_mode={}", is_point); } }
    } println!("C16 recon: {} cases, {} bad", n, bad); }

fn main() { let which = std::env::args().nth(1).unwrap_or("all".into()); let mut r = Rng(12345);
    if std::env::var("QUIET").is_ok() { std::panic::set_hook(Box::new(|_| {})); }
    let all: Vec<(&str, fn(&mut Rng))> = vec![("c01", c01), ("c04", c04), ("c05", c05), ("c06", c06), ("c11", c11), ("c17", c17), ("c18", c18), ("c19", c19), ("c08", c08), ("c12", c12), ("c15", c15), ("c03", c03), ("c02", c02), ("c13", c13), ("c16", c16)];
    for (n, f) in all { if which == "all" || which == n { let res = catch_unwind(AssertUnwindSafe(|| f(&mut r))); if res.is_err() { println!("{} recon ABORTED by an uncaught panic", n); } CATS.with(|c| { for (k, v) in c.borrow().iter() { println!("      [{}] x{}", k, v); } c.borrow_mut().clear(); }); } } }
