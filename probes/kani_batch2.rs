#![allow(unused)]
#[cfg(kani)]
mod h {
    use engeom::common::{angle_to_2pi, angle_signed_pi, DiscreteDomain, Interval, AngleInterval, SurfacePoint};
    use engeom::common::indices::chained_indices;
    use engeom::{Series1, Point2, Point3, Circle2, Vector2, Curve2, PointCloud, PointCloudFeatures, UnitVec3, Vector3};
    use engeom::metrology::{SurfaceDeviationSet2, SurfaceDeviation2, Tolerance, ToleranceMap, DiscreteDomainTolMap};

    fn sp() -> SurfacePoint<2> { SurfacePoint::new(Point2::new(0.0,0.0), engeom::geom2::UnitVec2::new_unchecked(Vector2::new(1.0,0.0))) }

    #[kani::proof]
    #[kani::unwind(6)]
    fn q1_devset() {
        let d: [f64; 4] = kani::any();
        kani::assume(d.iter().all(|x| !x.is_nan()));
        let n: usize = kani::any(); kani::assume(n <= 4);
        let mut s = SurfaceDeviationSet2::default();
        for i in 0..n { s.push(SurfaceDeviation2::new(sp(), d[i])); }
        if n == 0 { assert!(s.max().is_none() && s.min().is_none()); }
        else {
            let mx = s.max().unwrap().deviation; let mn = s.min().unwrap().deviation;
            for i in 0..n { assert!(d[i] <= mx && d[i] >= mn); }
        }
    }

    #[kani::proof]
    #[kani::unwind(5)]
    fn q2_cloud() {
        let hn: bool = kani::any(); let hc: bool = kani::any();
        let mut c = PointCloud::empty(hn, hc);
        let k: usize = kani::any(); kani::assume(k <= 2);
        let nrm = UnitVec3::new_unchecked(Vector3::new(0.0,0.0,1.0));
        for _ in 0..k { c.append(Point3::new(0.0,0.0,0.0), if hn {Some(nrm)} else {None}, if hc {Some([0u8;3])} else {None}).unwrap(); }
        // arbitrary op
        let gn: bool = kani::any(); let gc: bool = kani::any();
        let before = c.len();
        let r = c.append(Point3::new(1.0,0.0,0.0), if gn {Some(nrm)} else {None}, if gc {Some([1u8;3])} else {None});
        if r.is_ok() { assert!(c.len() == before + 1); } else { assert!(c.len() == before); }
        assert!(c.normals().map(|n| n.len() == c.len()).unwrap_or(true));
        assert!(c.colors().map(|n| n.len() == c.len()).unwrap_or(true));
        std::mem::forget(r);
    }

    #[kani::proof]
    #[kani::unwind(6)]
    fn q3_tolmap() {
        let xs: [f64; 3] = kani::any(); let x: f64 = kani::any();
        kani::assume(!x.is_nan());
        if let Ok(d) = DiscreteDomain::try_from(xs.to_vec()) {
            let zones = vec![Tolerance::new_unchecked(0.0, 1.0), Tolerance::new_unchecked(0.0, 2.0), Tolerance::new_unchecked(0.0, 3.0)];
            let m = DiscreteDomainTolMap::try_new(d, zones).unwrap();
            let z = m.get(x);
            if x < xs[0] { assert!(z.is_none() ); }
            else if x > xs[2] { assert!(z.unwrap().upper == 3.0); }
        }
    }

    #[kani::proof]
    fn q4_fmod_narrow() {
        let a: f64 = kani::any();
        kani::assume(a.is_finite() && a.abs() <= 16.0);
        let r = angle_to_2pi(a);
        assert!(r >= 0.0 && r <= 2.0 * std::f64::consts::PI);
    }

    #[kani::proof]
    fn q5_interval() {
        let a: f64 = kani::any(); let b: f64 = kani::any(); let c: f64 = kani::any(); let d: f64 = kani::any(); let x: f64 = kani::any();
        kani::assume(!a.is_nan() && !b.is_nan() && !c.is_nan() && !d.is_nan() && !x.is_nan());
        let i = Interval::new(a, b); let j = Interval::new(c, d);
        let ij = i.intersection(&j); let ji = j.intersection(&i);
        assert!(ij == ji);
        match ij { Some(k) => { assert!(k.contains(x) == (i.contains(x) && j.contains(x))); } None => assert!(!(i.contains(x) && j.contains(x))) }
        let cl = i.clamp(x); assert!(i.contains(cl));
    }

    #[kani::proof]
    #[kani::unwind(10)]
    fn q6_chain2() {
        let p: [[u32; 2]; 2] = kani::any();
        let chains = chained_indices(&p);
        let mut total = 0usize;
        for c in chains.iter() { assert!(c.len() >= 2); total += c.len() - 1; }
        assert!(total == 2);
        std::mem::forget(chains);
    }

    #[kani::proof]
    #[kani::unwind(7)]
    fn q7_between() {
        let xs: [f64; 3] = kani::any(); let ys: [f64; 3] = kani::any();
        let a: f64 = kani::any(); let b: f64 = kani::any();
        kani::assume(ys.iter().all(|y| y.is_finite() && y.abs() < 1e6));
        kani::assume(xs.iter().all(|y| y.abs() < 1e6));
        kani::assume(xs[0] < xs[1] && xs[1] < xs[2]);
        kani::assume(a >= xs[0] && b <= xs[2] && a < b);
        let s = Series1::try_new(xs.to_vec(), ys.to_vec()).unwrap();
        let t = s.between(a, b);
        assert!(t.x_min() == a && t.x_max() == b);
        assert!(t.x.len() == t.y.len());
        std::mem::forget(t); std::mem::forget(s);
    }

    #[kani::proof]
    #[kani::unwind(5)]
    fn q8_linear() {
        let a: f64 = kani::any(); let b: f64 = kani::any();
        kani::assume(a.is_finite() && b.is_finite() && a.abs() < 1e6 && b.abs() < 1e6 && (a - b).abs() > 1e-3);
        let d = DiscreteDomain::linear(a, b, 3);
        assert!(d.values()[0] < d.values()[2]);
    }

    #[kani::proof]
    fn q11_circle3() {
        let c: [i8; 6] = kani::any();
        kani::assume(c.iter().all(|v| v.abs() <= 8));
        let p0 = Point2::new(c[0] as f64, c[1] as f64); let p1 = Point2::new(c[2] as f64, c[3] as f64); let p2 = Point2::new(c[4] as f64, c[5] as f64);
        if let Ok(k) = Circle2::from_3_points(p0, p1, p2) {
            assert!(k.distance_to(&p1).abs() < 1e-6);
            assert!(k.distance_to(&p2).abs() < 1e-6);
        }
    }
}
