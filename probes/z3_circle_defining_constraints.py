import time, sys
from z3 import *
def t(name, s, to=120000):
    s.set("timeout", to)
    t0=time.time(); r=s.check(); print(name, r, round(time.time()-t0,2)); sys.stdout.flush()
x0,y0,r0,x1,y1,r1,d,a,h,vx,vy,px,py,qx,qy = Reals('x0 y0 r0 x1 y1 r1 d a h vx vy px py qx qy')
def base():
    s=SolverFor("QF_NRA")
    s.add(r0>0,r1>0,d>0,d*d==(x1-x0)**2+(y1-y0)**2, d<=r0+r1)
    s.add(a*(2*d)==(r0*r0-r1*r1+d*d))
    s.add(vx*d==x1-x0, vy*d==y1-y0)
    s.add(px==x0+vx*a, py==y0+vy*a)
    s.add(h>=0, h*h==r0*r0-a*a)
    s.add(qx==px-vy*h, qy==py+vx*h)
    return s
s=base(); s.add((qx-x0)**2+(qy-y0)**2 != r0*r0); t("off circle0 (fresh-var encoding)", s)
s=base(); s.add((qx-x1)**2+(qy-y1)**2 != r1*r1); t("off circle1 (fresh-var encoding)", s)
