use engeom::geom2::{Curve2, Point2, Vector2};
use engeom::geom2::polyline2::ray_intersect_with_edge;
use parry2d_f64::query::Ray;
use parry2d_f64::shape::Polyline;
fn main() {
    let pts = vec![Point2::new(0.0, 0.0), Point2::new(1.0, 0.5), Point2::new(1.0, 1.0), Point2::new(0.0, 1.0), Point2::new(0.0, 0.0)];
    let c = Curve2::from_points(&pts, 1e-6, false).unwrap();
    let line = Polyline::new(pts.clone(), None);
    for dy in [0.0, 1e-320, 1e-300, -1e-320] {
        let ray = Ray::new(Point2::new(-1.0, 0.0), Vector2::new(1.0, dy));
        let fast = c.ray_intersections(&ray);
        let naive: Vec<(f64, usize)> = (0..4).filter_map(|i| ray_intersect_with_edge(&line, &ray, i).map(|t| (t, i))).collect();
        println!("dy={:e}: fast={:?} naive={:?}", dy, fast, naive);
    }
}
