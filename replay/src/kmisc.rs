use crate::{f, fo, fv};
use serde_json::{json, Value};

pub fn run(k: &str, a: &Value) -> Option<Value> {
    Some(match k {
        "noop" => json!(null),
        _ => return None,
    })
}
