use crate::{f, fo, fv};
use engeom::common::{angle_in_direction, angle_signed_pi, angle_to_2pi, signed_compliment_2pi, AngleDir, AngleInterval, Interval};
use engeom::geom2::{directed_angle, signed_angle, Vector2};
use serde_json::{json, Value};

fn dir(v: &Value) -> AngleDir {
    if v.as_str().unwrap() == "cw" { AngleDir::Cw } else { AngleDir::Ccw }
}

pub fn run(k: &str, a: &Value) -> Option<Value> {
    Some(match k {
        "noop" => json!(null),
        "angle_to_2pi" => fo(angle_to_2pi(f(&a["a"]))),
        "angle_signed_pi" => fo(angle_signed_pi(f(&a["a"]))),
        "signed_compliment_2pi" => fo(signed_compliment_2pi(f(&a["a"]))),
        "angle_in_direction" => json!({"cw": fo(angle_in_direction(f(&a["a"]), f(&a["b"]), AngleDir::Cw)), "ccw": fo(angle_in_direction(f(&a["a"]), f(&a["b"]), AngleDir::Ccw))}),
        "angle_interval" => {
            let i = AngleInterval::new(f(&a["start"]), f(&a["angle"]));
            let mut o = json!({"start": fo(i.start()), "angle": fo(i.angle())});
            if let Some(q) = a.get("q") { o["contains"] = json!(i.contains(f(q))); }
            if let Some(s2) = a.get("start2") {
                let j = AngleInterval::new(f(s2), f(&a["angle2"]));
                o["intersects"] = json!(i.intersects(&j));
                o["intersects_rev"] = json!(j.intersects(&i));
            }
            o
        }
        "vector_angles" => {
            let v1 = Vector2::new(f(&a["v1"][0]), f(&a["v1"][1]));
            let v2 = Vector2::new(f(&a["v2"][0]), f(&a["v2"][1]));
            json!({"signed": fo(signed_angle(&v1, &v2)), "cw": fo(directed_angle(&v1, &v2, AngleDir::Cw)), "ccw": fo(directed_angle(&v1, &v2, AngleDir::Ccw))})
        }
        _ => return None,
    })
}
