//! C19 / C03 kernels: frame constructors, planes, principal-axis bases.
use crate::{f, fo, fv};
use engeom::common::points::{mean_point, mean_point_weighted};
use engeom::common::svd_basis::SvdBasis;
use engeom::geom3::IsoExtensions3;
use engeom::{Iso3, Plane3, Point2, Point3, SurfacePoint3, UnitVec3, Vector3};
use parry3d_f64::na::{Point, Unit};
use serde_json::{json, Value};

fn v3(v: &Value) -> Vector3 {
    let x = fv(v);
    Vector3::new(x[0], x[1], x[2])
}

fn p3(v: &Value) -> Point3 {
    Point3::from(v3(v))
}

fn o3(v: &Vector3) -> Value {
    json!([fo(v.x), fo(v.y), fo(v.z)])
}

fn plane_out(p: &Plane3) -> Value {
    json!({"normal": o3(&p.normal.into_inner()), "d": fo(p.d)})
}

fn basis_out<const D: usize>(b: &SvdBasis<D>, q: &Point<f64, D>, tol: f64) -> Value {
    let tb = b.point_to_basis(q);
    let rt = b.point_from_basis(&tb);
    let ctr = b.point_to_basis(&b.center);
    json!({
        "center": b.center.coords.iter().map(|x| fo(*x)).collect::<Vec<_>>(),
        "basis": b.basis.iter().map(|v| v.iter().map(|x| fo(*x)).collect::<Vec<_>>()).collect::<Vec<_>>(),
        "sv": b.sv.iter().map(|x| fo(*x)).collect::<Vec<_>>(),
        "n": b.n,
        "variances": b.basis_variances().iter().map(|x| fo(*x)).collect::<Vec<_>>(),
        "to_basis": tb.coords.iter().map(|x| fo(*x)).collect::<Vec<_>>(),
        "round_trip": rt.coords.iter().map(|x| fo(*x)).collect::<Vec<_>>(),
        "center_in_basis": ctr.coords.iter().map(|x| fo(*x)).collect::<Vec<_>>(),
        "rank": b.rank(tol),
    })
}

pub fn run(k: &str, a: &Value) -> Option<Value> {
    Some(match k {
        "frame" => {
            let (e0, e1) = (v3(&a["e0"]), v3(&a["e1"]));
            let origin = if a["origin"].is_null() { None } else { Some(p3(&a["origin"])) };
            let r = match a["ctor"].as_str().unwrap() {
                "xy" => Iso3::try_from_basis_xy(&e0, &e1, origin),
                "xz" => Iso3::try_from_basis_xz(&e0, &e1, origin),
                "yz" => Iso3::try_from_basis_yz(&e0, &e1, origin),
                "yx" => Iso3::try_from_basis_yx(&e0, &e1, origin),
                "zx" => Iso3::try_from_basis_zx(&e0, &e1, origin),
                "zy" => Iso3::try_from_basis_zy(&e0, &e1, origin),
                o => panic!("ctor {o}"),
            };
            match r {
                Ok(iso) => {
                    let m = iso.rotation.to_rotation_matrix();
                    let rows: Vec<Value> = (0..3).map(|i| json!([fo(m[(i, 0)]), fo(m[(i, 1)]), fo(m[(i, 2)])])).collect();
                    json!({"ok": {"m": rows, "t": o3(&iso.translation.vector), "origin_image": o3(&(iso * Point3::origin()).coords)}})
                }
                Err(e) => json!({"err": e.to_string()}),
            }
        }
        "plane" => {
            let q = p3(&a["q"]);
            let (pl, defining): (Plane3, Vec<Point3>) = match a["kind"].as_str().unwrap() {
                "three" => {
                    let (p1, p2, p3_) = (p3(&a["p1"]), p3(&a["p2"]), p3(&a["p3"]));
                    (Plane3::from((&p1, &p2, &p3_)), vec![p1, p2, p3_])
                }
                "normal" => {
                    let n = Unit::new_unchecked(v3(&a["n"]));
                    let p = p3(&a["p"]);
                    (Plane3::from((&n, &p)), vec![p])
                }
                "sp" => {
                    let sp = SurfacePoint3::new(p3(&a["p"]), Unit::new_unchecked(v3(&a["n"])));
                    (Plane3::from(&sp), vec![sp.point])
                }
                "raw" => (Plane3::new(Unit::new_unchecked(v3(&a["n"])), f(&a["d"])), vec![]),
                o => panic!("kind {o}"),
            };
            let inv = pl.inverted_normal();
            let pr = pl.project_point(&q);
            json!({"plane": plane_out(&pl), "inv": plane_out(&inv),
                   "sd_defining": defining.iter().map(|p| fo(pl.signed_distance_to_point(p))).collect::<Vec<_>>(),
                   "sd_defining_inv": defining.iter().map(|p| fo(inv.signed_distance_to_point(p))).collect::<Vec<_>>(),
                   "sd_q": fo(pl.signed_distance_to_point(&q)), "dist_q": fo(pl.distance_to_point(&q)), "sd_q_inv": fo(inv.signed_distance_to_point(&q)),
                   "proj": o3(&pr.coords), "sd_proj": fo(pl.signed_distance_to_point(&pr)), "proj_proj": o3(&pl.project_point(&pr).coords)})
        }
        "svd_basis" => {
            let w: Option<Vec<f64>> = if a["weights"].is_null() { None } else { Some(fv(&a["weights"])) };
            let tol = a.get("tol").map(f).unwrap_or(1e-9);
            let pts: Vec<Vec<f64>> = a["points"].as_array().unwrap().iter().map(fv).collect();
            if pts[0].len() == 2 {
                let p: Vec<Point2> = pts.iter().map(|c| Point2::new(c[0], c[1])).collect();
                let q = fv(&a["q"]);
                let b = SvdBasis::<2>::from_points(&p, w.as_deref());
                basis_out(&b, &Point2::new(q[0], q[1]), tol)
            } else {
                let p: Vec<Point3> = pts.iter().map(|c| Point3::new(c[0], c[1], c[2])).collect();
                let b = SvdBasis::<3>::from_points(&p, w.as_deref());
                basis_out(&b, &p3(&a["q"]), tol)
            }
        }
        "basis_ops" => {
            let tol = f(&a["tol"]);
            let rows: Vec<Vec<f64>> = a["basis"].as_array().unwrap().iter().map(fv).collect();
            let (sv, c, q) = (fv(&a["sv"]), fv(&a["center"]), fv(&a["q"]));
            let n = a["n"].as_u64().unwrap() as usize;
            if rows.len() == 2 {
                let b = SvdBasis::<2> { basis: [parry3d_f64::na::Vector2::new(rows[0][0], rows[0][1]), parry3d_f64::na::Vector2::new(rows[1][0], rows[1][1])], sv: [sv[0], sv[1]], center: Point2::new(c[0], c[1]), n };
                let mut o = basis_out(&b, &Point2::new(q[0], q[1]), tol);
                o["vec_to_basis"] = json!(b.vec_to_basis(&parry3d_f64::na::Vector2::new(q[0], q[1])).iter().map(|x| fo(*x)).collect::<Vec<_>>());
                o["origin_back"] = json!(b.point_from_basis(&Point2::origin()).coords.iter().map(|x| fo(*x)).collect::<Vec<_>>());
                o["largest"] = json!(b.largest().iter().map(|x| fo(*x)).collect::<Vec<_>>());
                o["smallest"] = json!(b.smallest().iter().map(|x| fo(*x)).collect::<Vec<_>>());
                o
            } else {
                let b = SvdBasis::<3> { basis: [v3(&a["basis"][0]), v3(&a["basis"][1]), v3(&a["basis"][2])], sv: [sv[0], sv[1], sv[2]], center: p3(&a["center"]), n };
                let mut o = basis_out(&b, &p3(&a["q"]), tol);
                o["vec_to_basis"] = json!(b.vec_to_basis(&v3(&a["q"])).iter().map(|x| fo(*x)).collect::<Vec<_>>());
                o["origin_back"] = json!(b.point_from_basis(&Point3::origin()).coords.iter().map(|x| fo(*x)).collect::<Vec<_>>());
                o["largest"] = json!(b.largest().iter().map(|x| fo(*x)).collect::<Vec<_>>());
                o["smallest"] = json!(b.smallest().iter().map(|x| fo(*x)).collect::<Vec<_>>());
                o
            }
        }
        "plane_intersection" => {
            let pl = Plane3::new(Unit::new_unchecked(v3(&a["n"])), f(&a["d"]));
            let sp = SurfacePoint3::new(p3(&a["p"]), Unit::new_unchecked(v3(&a["s"])));
            match pl.intersection_distance(&sp) {
                Some(t) => json!({"some": fo(t), "sd_hit": fo(pl.signed_distance_to_point(&(sp.point + sp.normal.into_inner() * t)))}),
                None => json!({"none": true}),
            }
        }
        "mean_point" => {
            let pts: Vec<Vec<f64>> = a["points"].as_array().unwrap().iter().map(fv).collect();
            let p: Vec<Point3> = pts.iter().map(|c| Point3::new(c[0], c[1], c[2])).collect();
            let m = if a["weights"].is_null() { mean_point(&p) } else { mean_point_weighted(&p, &fv(&a["weights"])) };
            o3(&m.coords)
        }
        _ => return None,
    })
}
