//! C06 kernels: line / polyline intersections on the real build.
use crate::{f, fo, fv};
use engeom::geom2::polyline2::{farthest_point_direction_distance, max_intersection, polyline_intersections, ray_intersect_with_edge, spanning_ray};
use engeom::{Curve2, Point2, SurfacePoint2, Vector2};
use engeom::common::Intersection;
use parry2d_f64::query::Ray;
use parry2d_f64::shape::Polyline;
use parry2d_f64::na::Unit;
use serde_json::{json, Value};

pub fn run(k: &str, a: &Value) -> Option<Value> {
    Some(match k {
        "line_polyline" => {
            let pts: Vec<Point2> = a["points"].as_array().unwrap().iter().map(|v| { let x = fv(v); Point2::new(x[0], x[1]) }).collect();
            let o = fv(&a["origin"]);
            let d = fv(&a["dir"]);
            let ray = Ray::new(Point2::new(o[0], o[1]), Vector2::new(d[0], d[1]));
            let line = Polyline::new(pts.clone(), None);
            let hits = polyline_intersections(&line, &ray);
            let per_edge: Vec<Value> = (0..pts.len() - 1).map(|i| match ray_intersect_with_edge(&line, &ray, i) { Some(t) => fo(t), None => Value::Null }).collect();
            let sp = spanning_ray(&line, &ray);
            let mut out = json!({
                "hits": hits.iter().map(|(t, i)| json!([fo(*t), i])).collect::<Vec<_>>(),
                "per_edge": per_edge,
                "spanning": sp.map(|s| json!({"origin": [fo(s.ray().origin.x), fo(s.ray().origin.y)], "dir": [fo(s.ray().dir.x), fo(s.ray().dir.y)]})),
                "max": max_intersection(&line, &ray).map(fo),
                "farthest": fo(farthest_point_direction_distance(&line, &ray)),
            });
            if let Some(tol) = a.get("tol") {
                if let Ok(c) = Curve2::from_points(&pts, f(tol), false) {
                    if c.points().len() == pts.len() {
                        out["curve_hits"] = json!(c.ray_intersections(&ray).iter().map(|(t, i)| json!([fo(*t), i])).collect::<Vec<_>>());
                        out["curve_spanning"] = json!(c.try_create_spanning_ray(&ray).is_some());
                        let n = Vector2::new(d[0], d[1]);
                        let nn = n.norm();
                        let spt = SurfacePoint2::new(Point2::new(o[0], o[1]), Unit::new_unchecked(n / nn));
                        let ts: Vec<f64> = c.intersection(&spt);
                        out["curve_sp_hits"] = json!(ts.iter().map(|t| fo(*t / nn)).collect::<Vec<_>>());
                    }
                }
            }
            out
        }
        #[cfg(not(feature = "hooks"))]
        "cast_ray" => json!({"hooks_unavailable": true}),
        #[cfg(feature = "hooks")]
        "cast_ray" => {
            use parry2d_f64::bounding_volume::{Aabb, SimdAabb};
            use parry2d_f64::query::SimdRay;
            let boxes: Vec<Aabb> = a["boxes"].as_array().unwrap().iter().map(|b| { let m = fv(&b[0]); let x = fv(&b[1]); Aabb::new(Point2::new(m[0], m[1]), Point2::new(x[0], x[1])) }).collect();
            let bv = SimdAabb::from([boxes[0], boxes[1], boxes[2], boxes[3]]);
            let o = fv(&a["origin"]);
            let d = fv(&a["dir"]);
            let ray = SimdRay::splat(Ray::new(Point2::new(o[0], o[1]), Vector2::new(d[0], d[1])));
            let (mask, _t) = engeom::verif_hooks::cast_ray(&bv, &ray);
            use parry2d_f64::na::SimdValue;
            json!({"mask": (0..4).map(|i| mask.extract(i)).collect::<Vec<bool>>()})
        }
        _ => return None,
    })
}
