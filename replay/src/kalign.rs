//! C08 kernels: rotation-centred parameters and Jacobians.  `pairs` = [name, analytic / API value, reference value, tolerance]
//! where the reference is a central finite difference of the residual on the real build, or the composition done by hand.
use crate::kxform::{iso2, iso3};
use crate::{f, fo, fv};
use engeom::geom2::align2::{iso2_from_param, param_from_iso2, RcParams2};
use engeom::geom3::align3::jacobian::{point_plane_jacobian, point_plane_jacobian_rev, point_point_jacobian};
use engeom::geom3::align3::{iso3_from_param, param_from_iso3, RcParams3, RotationMatrices};
use engeom::{Iso2, Iso3, Point2, Point3, SurfacePoint2, SurfacePoint3, Vector2, Vector3};
use parry3d_f64::na::{Matrix3, Unit, UnitQuaternion, Vector6};
use serde_json::{json, Value};

struct Pairs(Vec<Value>);
impl Pairs {
    fn s(&mut self, name: &str, got: f64, want: f64, tol: f64) {
        self.0.push(json!([name, fo(got), fo(want), tol]));
    }
    fn v(&mut self, name: &str, got: &[f64], want: &[f64], tol: f64) {
        for (i, (g, w)) in got.iter().zip(want.iter()).enumerate() {
            self.0.push(json!([format!("{name}[{i}]"), fo(*g), fo(*w), tol]));
        }
    }
}

fn p2(v: &Value) -> Point2 { let x = fv(v); Point2::new(x[0], x[1]) }
fn p3(v: &Value) -> Point3 { let x = fv(v); Point3::new(x[0], x[1], x[2]) }
fn x3(v: &Value) -> parry3d_f64::na::Vector3<f64> { let x = fv(v); parry3d_f64::na::Vector3::new(x[0], x[1], x[2]) }
fn x6(v: &Value) -> Vector6<f64> { let x = fv(v); Vector6::new(x[0], x[1], x[2], x[3], x[4], x[5]) }

fn rot_matrix(e: &[f64]) -> Matrix3<f64> {
    let rx = UnitQuaternion::from_euler_angles(e[0], 0.0, 0.0).to_rotation_matrix();
    let ry = UnitQuaternion::from_euler_angles(0.0, e[1], 0.0).to_rotation_matrix();
    let rz = UnitQuaternion::from_euler_angles(0.0, 0.0, e[2]).to_rotation_matrix();
    *(rx * ry * rz).matrix()
}

const H: f64 = 1e-6;

pub fn run(k: &str, a: &Value) -> Option<Value> {
    let mut o = Pairs(vec![]);
    match k {
        "param2" => {
            let x = x3(&a["x"]);
            let t = iso2_from_param(&x);
            let back = param_from_iso2(&t);
            o.v("translation parameters round trip", &[back.x, back.y], &[x.x, x.y], 1e-9);
            o.v("rotation parameter round trip (cos, sin)", &[back.z.cos(), back.z.sin()], &[x.z.cos(), x.z.sin()], 1e-9);
            let t0 = iso2(&a["iso"]);
            let t1 = iso2_from_param(&param_from_iso2(&t0));
            o.v("isometry round trip", t1.to_homogeneous().as_slice(), t0.to_homogeneous().as_slice(), 1e-9);
        }
        "rc2" => {
            let (t0, rc) = (iso2(&a["iso"]), p2(&a["rc"]));
            let mut p = RcParams2::from_initial(&t0, &rc);
            let s = 1.0 + rc.coords.norm() + t0.translation.vector.norm();
            o.v("from_initial reproduces the isometry", p.transform().to_homogeneous().as_slice(), t0.to_homogeneous().as_slice(), 1e-9 * s);
            o.v("from_initial: inverse * transform = identity", (p.inverse() * p.transform()).to_homogeneous().as_slice(), Iso2::identity().to_homogeneous().as_slice(), 1e-9 * s);
            o.v("from_initial: moved rotation centre", p.current_rc().coords.as_slice(), (t0 * rc).coords.as_slice(), 1e-9 * s);
            let x = x3(&a["x"]);
            p.set(&x);
            let s = s + x.norm();
            let want = Iso2::translation(rc.x, rc.y) * iso2_from_param(&x) * Iso2::translation(-rc.x, -rc.y);
            o.v("set: transform is the parameter isometry about the rotation centre", p.transform().to_homogeneous().as_slice(), want.to_homogeneous().as_slice(), 1e-9 * s);
            o.v("set: inverse * transform = identity", (p.inverse() * p.transform()).to_homogeneous().as_slice(), Iso2::identity().to_homogeneous().as_slice(), 1e-9 * s);
            o.v("set: moved rotation centre", p.current_rc().coords.as_slice(), (p.transform() * rc).coords.as_slice(), 1e-9 * s);
            o.v("set: rotation part", p.rotation().to_homogeneous().as_slice(), Iso2::rotation(x.z).to_homogeneous().as_slice(), 1e-9);
            let before = *p.transform();
            let d = fv(&a["shift"]);
            let mut x2 = x;
            x2.x += d[0];
            x2.y += d[1];
            p.set(&x2);
            o.v("a pure translation change translates by that vector", p.transform().to_homogeneous().as_slice(), (Iso2::translation(d[0], d[1]) * before).to_homogeneous().as_slice(), 1e-9 * (s + d[0].abs() + d[1].abs()));
        }
        #[cfg(not(feature = "hooks"))]
        "jac2" => { return Some(json!({"hooks_unavailable": true})); }
        #[cfg(feature = "hooks")]
        "jac2" => {
            let (t0, rc) = (iso2(&a["iso"]), p2(&a["rc"]));
            let mut p = RcParams2::from_initial(&t0, &rc);
            let x0 = x3(&a["x"]);
            p.set(&x0);
            let pt = p2(&a["p"]);
            let n = fv(&a["n"]);
            let sp = SurfacePoint2::new(p2(&a["sp"]), Unit::new_unchecked(Vector2::new(n[0], n[1])));
            let j = engeom::verif_hooks::point_surface_jacobian(&pt, &sp, &p);
            let ti = p.transform().inverse();
            let s = 1.0 + (pt - p.current_rc()).norm();
            for i in 0..3 {
                let mut q = p.clone();
                let mut xp = x0; xp[i] += H; q.set(&xp);
                let dp = sp.scalar_projection(&((q.transform() * ti) * pt));
                let mut xm = x0; xm[i] -= H; q.set(&xm);
                let dm = sp.scalar_projection(&((q.transform() * ti) * pt));
                o.s(&format!("2D point-to-surface Jacobian entry {i}"), j[i], (dp - dm) / (2.0 * H), 1e-5 * s);
            }
        }
        "rc3" => {
            let (t0, rc) = (iso3(&a["iso"]), p3(&a["rc"]));
            let mut p = RcParams3::from_initial(&t0, &rc);
            let s = 1.0 + rc.coords.norm() + t0.translation.vector.norm();
            o.v("from_initial reproduces the isometry", p.transform().to_homogeneous().as_slice(), t0.to_homogeneous().as_slice(), 1e-7 * s);
            o.v("from_initial: inverse * transform = identity", (p.inverse() * p.transform()).to_homogeneous().as_slice(), Iso3::identity().to_homogeneous().as_slice(), 1e-7 * s);
            o.v("from_initial: moved rotation centre", p.current_rc().coords.as_slice(), (t0 * rc).coords.as_slice(), 1e-7 * s);
            let x = x6(&a["x"]);
            p.set(&x);
            let s = s + x.norm();
            let rcd = t0 * rc;
            let r = UnitQuaternion::from_rotation_matrix(&parry3d_f64::na::Rotation3::from_matrix_unchecked(rot_matrix(&[x[3], x[4], x[5]])));
            let want = Iso3::translation(rcd.x, rcd.y, rcd.z) * Iso3::from_parts(parry3d_f64::na::Translation3::new(x[0], x[1], x[2]), r) * Iso3::translation(-rc.x, -rc.y, -rc.z);
            o.v("set: transform is the parameter isometry about the rotation centre", p.transform().to_homogeneous().as_slice(), want.to_homogeneous().as_slice(), 1e-7 * s);
            o.v("set: inverse * transform = identity", (p.inverse() * p.transform()).to_homogeneous().as_slice(), Iso3::identity().to_homogeneous().as_slice(), 1e-7 * s);
            o.v("set: moved rotation centre", p.current_rc().coords.as_slice(), (p.transform() * rc).coords.as_slice(), 1e-7 * s);
            let before = *p.transform();
            let d = fv(&a["shift"]);
            let mut x2 = x;
            for i in 0..3 { x2[i] += d[i]; }
            p.set(&x2);
            o.v("a pure translation change translates by that vector", p.transform().to_homogeneous().as_slice(), (Iso3::translation(d[0], d[1], d[2]) * before).to_homogeneous().as_slice(), 1e-7 * (s + d[0].abs() + d[1].abs() + d[2].abs()));
        }
        "rotmats" => {
            let e = fv(&a["e"]);
            let m = RotationMatrices::from_euler(e[0], e[1], e[2]);
            let r0 = rot_matrix(&e);
            o.v("q is Rx*Ry*Rz", m.q.to_rotation_matrix().matrix().as_slice(), r0.as_slice(), 1e-9);
            let ds = [&m.d.x, &m.d.y, &m.d.z];
            let rds = [&m.rd.x, &m.rd.y, &m.rd.z];
            for i in 0..3 {
                let (mut ep, mut em) = (e.clone(), e.clone());
                ep[i] += H; em[i] -= H;
                let fd = (rot_matrix(&ep) - rot_matrix(&em)) / (2.0 * H);
                o.v(&format!("d[{i}] is the derivative of the rotation matrix"), ds[i].as_slice(), fd.as_slice(), 1e-6);
                o.v(&format!("rd[{i}] is d * R^-1"), rds[i].as_slice(), (fd * r0.transpose()).as_slice(), 1e-6);
            }
            if let Some(rv) = a.get("rot") {
                let t = iso3(&json!({"r": rv, "t": [0.0, 0.0, 0.0]}));
                let m2 = RotationMatrices::from_rotation(&t.rotation);
                o.v("from_rotation reproduces the rotation", m2.q.to_rotation_matrix().matrix().as_slice(), t.rotation.to_rotation_matrix().matrix().as_slice(), f(&a["tol"]));
            }
        }
        "jac3" => {
            let (t0, rc) = (iso3(&a["iso"]), p3(&a["rc"]));
            let mut p = RcParams3::from_initial(&t0, &rc);
            if !a["x"].is_null() { p.set(&x6(&a["x"])); }
            let x0 = *p.x();
            let pt = p3(&a["p"]);
            let sp = SurfacePoint3::new(p3(&a["sp"]), Unit::new_unchecked(x3(&a["n"])));
            let c = p3(&a["c"]);
            let (j, jr, jp) = (point_plane_jacobian(&pt, &sp, &p), point_plane_jacobian_rev(&pt, &sp, &p), point_point_jacobian(&pt, &c, &p));
            let ti = p.transform().inverse();
            let s = 1.0 + (pt - p.current_rc()).norm() + (sp.point - p.current_rc()).norm();
            for i in 0..6 {
                let mut q = p.clone();
                let mut xp = x0; xp[i] += H; q.set(&xp);
                let tp = q.transform() * ti;
                let mut xm = x0; xm[i] -= H; q.set(&xm);
                let tm = q.transform() * ti;
                let fd = (sp.scalar_projection(&(tp * pt)).abs() - sp.scalar_projection(&(tm * pt)).abs()) / (2.0 * H);
                o.s(&format!("3D point-to-plane Jacobian entry {i}"), j[i], fd, 1e-5 * s);
                let fdr = (sp.transformed(&tp).scalar_projection(&pt).abs() - sp.transformed(&tm).scalar_projection(&pt).abs()) / (2.0 * H);
                o.s(&format!("3D reference-side point-to-plane Jacobian entry {i}"), jr[i], fdr, 1e-5 * s);
                let fdp = ((tp * pt - c).norm() - (tm * pt - c).norm()) / (2.0 * H);
                o.s(&format!("3D point-to-point Jacobian entry {i}"), jp[i], fdp, 1e-5 * s);
            }
        }
        "align2" => {
            use engeom::geom2::align2::points_to_curve;
            let pts: Vec<Point2> = a["pts"].as_array().unwrap().iter().map(p2).collect();
            let curve = engeom::Curve2::from_points(&pts, f(&a["tol"]), false).unwrap();
            let points: Vec<Point2> = a["points"].as_array().unwrap().iter().map(p2).collect();
            let t0 = iso2(&a["iso"]);
            #[cfg(feature = "hooks")]
            if let Some(xv) = a.get("x") {
                // the problem object driven to the model's final parameters (no iteration): new -> set_params(x*)
                let x = fv(xv);
                let (tr, res) = engeom::verif_hooks::points_to_curve_eval(&points, &curve, &t0, &[[x[0], x[1], x[2]]]);
                for (i, p) in points.iter().enumerate() {
                    let m = tr * p;
                    let want = curve.at_closest_to_point(&m).surface_point().scalar_projection(&m);
                    let got = if i < res.len() { res[i] } else { f64::NAN };
                    o.s(&format!("state after set_params: residual {i} describes the transform"), got, want, 1e-9 * (1.0 + want.abs()));
                }
            }
            match points_to_curve(&points, &curve, &t0) {
                Ok(al) => {
                    for (i, p) in points.iter().enumerate() {
                        let m = al.transform() * p;
                        let want = curve.at_closest_to_point(&m).surface_point().scalar_projection(&m);
                        let got = if i < al.residuals().len() { al.residuals()[i] } else { f64::NAN };
                        o.s(&format!("residual {i} is the signed distance measure of point {i} moved by the returned transform"), got, want, 1e-9 * (1.0 + want.abs()));
                    }
                    o.s("one residual per input point", al.residuals().len() as f64, points.len() as f64, 0.0);
                }
                Err(_) => { o.0.push(json!(["alignment failed", 0.0, 0.0, 1.0])); }
            }
        }
        "align3" => {
            use engeom::geom3::align3::points_to_mesh;
            use engeom::common::DistMode;
            let verts: Vec<Point3> = a["vertices"].as_array().unwrap().iter().map(p3).collect();
            let faces: Vec<[u32; 3]> = a["faces"].as_array().unwrap().iter().map(|t| { let x = t.as_array().unwrap(); [x[0].as_u64().unwrap() as u32, x[1].as_u64().unwrap() as u32, x[2].as_u64().unwrap() as u32] }).collect();
            let mesh = engeom::Mesh::new(verts, faces, false);
            let points = vec![p3(&a["point"])];
            let t0 = iso3(&a["iso"]);
            let to_plane = a["mode"].as_str().unwrap() == "ToPlane";
            #[cfg(feature = "hooks")]
            if let Some(xv) = a.get("x") {
                let x = fv(xv);
                let (tr, res) = engeom::verif_hooks::points_to_mesh_eval(&points, &mesh, &t0, if to_plane { DistMode::ToPlane } else { DistMode::ToPoint }, &[[x[0], x[1], x[2], x[3], x[4], x[5]]]);
                for (i, p) in points.iter().enumerate() {
                    let m = tr * p;
                    let sp = mesh.surf_closest_to(&m);
                    let want = if to_plane { sp.scalar_projection(&m).abs() } else { (m - sp.point).norm() };
                    let got = if i < res.len() { res[i] } else { f64::NAN };
                    o.s(&format!("state after set_params: residual {i} describes the transform"), got, want, 1e-9 * (1.0 + want.abs()));
                }
            }
            match points_to_mesh(&points, &mesh, &t0, if to_plane { DistMode::ToPlane } else { DistMode::ToPoint }) {
                Ok(al) => {
                    for (i, p) in points.iter().enumerate() {
                        let m = al.transform() * p;
                        let sp = mesh.surf_closest_to(&m);
                        let want = if to_plane { sp.scalar_projection(&m).abs() } else { (m - sp.point).norm() };
                        let got = if i < al.residuals().len() { al.residuals()[i] } else { f64::NAN };
                        o.s(&format!("residual {i} describes the returned transform"), got, want, 1e-9 * (1.0 + want.abs()));
                    }
                    o.s("one residual per input point", al.residuals().len() as f64, points.len() as f64, 0.0);
                }
                Err(_) => { o.0.push(json!(["alignment failed", 0.0, 0.0, 1.0])); }
            }
        }
        _ => return None,
    }
    Some(json!({"pairs": o.0}))
}
