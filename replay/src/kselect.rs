//! C14 kernels: face selection by set algebra, mesh from a selection.
use crate::{f, fo, fv};
use engeom::common::{SelectOp, Selection};
use engeom::{Mesh, Point3, Vector3};
use serde_json::{json, Value};

fn mesh(v: &Value, fc: &Value) -> Mesh {
    let verts: Vec<Point3> = v.as_array().unwrap().iter().map(|p| { let x = fv(p); Point3::new(x[0], x[1], x[2]) }).collect();
    let faces: Vec<[u32; 3]> = fc.as_array().unwrap().iter().map(|t| { let x = t.as_array().unwrap(); [x[0].as_u64().unwrap() as u32, x[1].as_u64().unwrap() as u32, x[2].as_u64().unwrap() as u32] }).collect();
    Mesh::new(verts, faces, false)
}

fn op(s: &str) -> SelectOp {
    match s { "Add" => SelectOp::Add, "Remove" => SelectOp::Remove, _ => SelectOp::Keep }
}

pub fn run(k: &str, a: &Value) -> Option<Value> {
    Some(match k {
        "face_select" => {
            let m = mesh(&a["vertices"], &a["faces"]);
            let start = match &a["start"] {
                Value::String(s) if s == "All" => Selection::All,
                Value::String(_) => Selection::None,
                v => Selection::Indices(v.as_array().unwrap().iter().map(|i| i.as_u64().unwrap() as usize).collect()),
            };
            let mut sel = m.face_select(start);
            let other = if a["ref_vertices"].is_null() { None } else { Some(mesh(&a["ref_vertices"], &a["ref_faces"])) };
            for o in a["ops"].as_array().unwrap() {
                sel = match o["kind"].as_str().unwrap() {
                    "facing" => { let n = fv(&o["normal"]); sel.facing(&Vector3::new(n[0], n[1], n[2]), f(&o["angle"]), op(o["mode"].as_str().unwrap())) }
                    _ => sel.near_mesh(other.as_ref().unwrap(), o["all_points"].as_bool().unwrap(), f(&o["distance_tol"]),
                                       if o["planar_tol"].is_null() { None } else { Some(f(&o["planar_tol"])) }, if o["angle_tol"].is_null() { None } else { Some(f(&o["angle_tol"])) },
                                       op(o["mode"].as_str().unwrap())),
                };
            }
            let mut idx = sel.collect();
            idx.sort();
            let create: Vec<usize> = match a.get("create") { Some(Value::Array(c)) => c.iter().map(|i| i.as_u64().unwrap() as usize).collect(), _ => idx.clone() };
            let sub = m.create_from_indices(&create);
            json!({"indices": idx,
                   "sub_vertices": sub.vertices().iter().map(|p| json!([fo(p.x), fo(p.y), fo(p.z)])).collect::<Vec<_>>(),
                   "sub_faces": sub.faces().iter().map(|t| json!([t[0], t[1], t[2]])).collect::<Vec<_>>()})
        }
        "mesh_project" => {
            let m = mesh(&a["vertices"], &a["faces"]);
            let q = { let x = fv(&a["q"]); Point3::new(x[0], x[1], x[2]) };
            let cap = f(&a["cap"]);
            let pj = |r: Option<(parry3d_f64::query::PointProjection, u32, parry3d_f64::shape::TrianglePointLocation)>| r.map(|(p, id, _)| json!({"point": [fo(p.point.x), fo(p.point.y), fo(p.point.z)], "face": id}));
            let sp = m.surf_closest_to(&q);
            let c = m.point_closest_to(&q);
            json!({"max": pj(m.project_with_max_dist(&q, cap)), "tol": pj(m.project_with_tol(&q, cap, f(&a["angle"]), None)),
                   "surf": {"point": [fo(sp.point.x), fo(sp.point.y), fo(sp.point.z)], "normal": [fo(sp.normal.x), fo(sp.normal.y), fo(sp.normal.z)]},
                   "closest": [fo(c.x), fo(c.y), fo(c.z)]})
        }
        "mesh_section" if a["scene"].as_str() == Some("all") => {
            let mut all = vec![];
            for sc in ["box_z", "box_diagonal", "box_mixed", "box_corner", "two_boxes"] {
                all.push(run("mesh_section", &json!({"scene": sc})).unwrap());
            }
            json!({"scenes": all})
        }
        "mesh_section" => {
            use engeom::{Plane3, UnitVec3};
            use parry3d_f64::query::IntersectResult;
            let scene = a["scene"].as_str().unwrap();
            let (m, n, d): (Mesh, Vector3, f64) = match scene {
                "box_z" => (Mesh::create_box(2.0, 2.0, 2.0, false), Vector3::new(0.0, 0.0, 1.0), 0.3),
                "box_mixed" => (Mesh::create_box(2.0, 2.0, 2.0, false), Vector3::new(0.6, -0.8, 0.0), 0.5),
                "box_corner" => (Mesh::create_box(2.0, 2.0, 2.0, false), Vector3::new(1.0, 1.0, 1.0).normalize(), 2.0 * 3.0_f64.sqrt() - 0.0002),
                "box_diagonal" => (Mesh::create_box(2.0, 3.0, 1.0, false), Vector3::new(1.0, 1.0, 0.2).normalize(), 0.1),
                _ => {
                    // two disjoint boxes: two rings
                    let b1 = Mesh::create_box(2.0, 2.0, 2.0, false);
                    let mut verts: Vec<Point3> = b1.vertices().to_vec();
                    let mut faces: Vec<[u32; 3]> = b1.faces().to_vec();
                    let off = verts.len() as u32;
                    verts.extend(b1.vertices().iter().map(|p| Point3::new(p.x + 5.0, p.y, p.z)));
                    faces.extend(b1.faces().iter().map(|t| [t[0] + off, t[1] + off, t[2] + off]));
                    (Mesh::new(verts, faces, false), Vector3::new(0.0, 0.0, 1.0), 0.3)
                }
            };
            let normal = UnitVec3::new_normalize(n);
            let raw = m.tri_mesh().intersection_with_local_plane(&normal, d, 1.0e-6);
            let (rv, ri) = match raw {
                IntersectResult::Intersect(pl) => (pl.vertices().iter().map(|p| json!([fo(p.x), fo(p.y), fo(p.z)])).collect::<Vec<_>>(), pl.indices().iter().map(|i| json!([i[0], i[1]])).collect::<Vec<_>>()),
                _ => (vec![], vec![]),
            };
            if a.get("raw_only").is_some() {
                return Some(json!({"raw_vertices": rv, "raw_pairs": ri}));
            }
            let curves = m.section(&Plane3::new(normal, d), None).unwrap();
            json!({"raw_vertices": rv, "raw_pairs": ri,
                   "curves": curves.iter().map(|c| c.points().iter().map(|p| json!([fo(p.x), fo(p.y), fo(p.z)])).collect::<Vec<_>>()).collect::<Vec<_>>()})
        }
        _ => return None,
    })
}
