//! C15 kernels: k-d tree wrappers, Poisson-disk selection, farthest pair.
use crate::{f, fo, fv};
use engeom::common::kd_tree::{KdTree, KdTreeSearch, PartialKdTree};
use engeom::common::poisson_disk::sample_poisson_disk;
use engeom::Point2;
use serde_json::{json, Value};
use std::num::NonZero;

fn pts(v: &Value) -> Vec<Point2> {
    v.as_array().unwrap().iter().map(|p| { let x = fv(p); Point2::new(x[0], x[1]) }).collect()
}

fn pairs(v: Vec<(usize, f64)>) -> Value {
    json!(v.iter().map(|(i, d)| json!([i, fo(*d)])).collect::<Vec<_>>())
}

pub fn run(k: &str, a: &Value) -> Option<Value> {
    Some(match k {
        "kd_tree" => {
            let p = pts(&a["points"]);
            let q = { let x = fv(&a["q"]); Point2::new(x[0], x[1]) };
            let r = f(&a["radius"]);
            let n = NonZero::new(a["count"].as_u64().unwrap() as usize).unwrap();
            if a["indices"].is_null() {
                let t = KdTree::new(&p);
                let one = t.nearest_one(&q);
                json!({"one": [one.0, fo(one.1)], "nearest": pairs(t.nearest(&q, n)), "within": pairs(t.within(&q, r)), "len": t.len()})
            } else {
                let idx: Vec<usize> = a["indices"].as_array().unwrap().iter().map(|i| i.as_u64().unwrap() as usize).collect();
                let t = PartialKdTree::new(&p, &idx);
                let one = t.nearest_one(&q);
                json!({"one": [one.0, fo(one.1)], "nearest": pairs(t.nearest(&q, n)), "within": pairs(t.within(&q, r)), "len": t.len()})
            }
        }
        "poisson" => {
            let p = pts(&a["points"]);
            let idx: Vec<usize> = a["indices"].as_array().unwrap().iter().map(|i| i.as_u64().unwrap() as usize).collect();
            json!({"kept": sample_poisson_disk(&p, &idx, f(&a["radius"]))})
        }
        "farthest_pair" => {
            let p = pts(&a["points"]);
            let poly = parry2d_f64::shape::ConvexPolygon::from_convex_polyline(p).unwrap();
            let (i, j) = engeom::geom2::hull::farthest_pair_indices(&poly);
            json!({"pair": [i, j], "n": poly.points().len(), "points": poly.points().iter().map(|q| json!([fo(q.x), fo(q.y)])).collect::<Vec<_>>()})
        }
        _ => return None,
    })
}
