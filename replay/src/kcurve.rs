use crate::{f, fo, fv};
use engeom::{Curve2, Curve3, Point2, Point3};
use serde_json::{json, Value};

fn pts2(v: &Value) -> Vec<Point2> {
    v.as_array().unwrap().iter().map(|p| { let c = fv(p); Point2::new(c[0], c[1]) }).collect()
}
fn pts3(v: &Value) -> Vec<Point3> {
    v.as_array().unwrap().iter().map(|p| { let c = fv(p); Point3::new(c[0], c[1], c[2]) }).collect()
}
fn st2(s: &engeom::CurveStation2) -> Value {
    json!({"point": [fo(s.point().x), fo(s.point().y)], "dir": [fo(s.direction().x), fo(s.direction().y)], "normal": [fo(s.normal().x), fo(s.normal().y)],
           "index": s.index(), "fraction": fo(s.fraction()), "length_along": fo(s.length_along())})
}
fn st3(s: &engeom::CurveStation3) -> Value {
    json!({"point": [fo(s.point().x), fo(s.point().y), fo(s.point().z)], "dir": [fo(s.direction().x), fo(s.direction().y), fo(s.direction().z)],
           "index": s.index(), "fraction": fo(s.fraction()), "length_along": fo(s.length_along())})
}
fn c2o(c: &Curve2) -> Value {
    json!({"points": c.points().iter().map(|p| vec![fo(p.x), fo(p.y)]).collect::<Vec<_>>(), "lengths": c.lengths().iter().map(|v| fo(*v)).collect::<Vec<_>>(),
           "is_closed": c.is_closed(), "length": fo(c.length())})
}
fn c3o(c: &Curve3) -> Value {
    json!({"points": c.points().iter().map(|p| vec![fo(p.x), fo(p.y), fo(p.z)]).collect::<Vec<_>>(), "lengths": c.lengths().iter().map(|v| fo(*v)).collect::<Vec<_>>(),
           "length": fo(c.length())})
}

pub fn run(k: &str, a: &Value) -> Option<Value> {
    Some(match k {
        "curve2_stations" => {
            let c = match Curve2::from_points(&pts2(&a["pts"]), f(&a["tol"]), a["force_closed"].as_bool().unwrap()) { Ok(c) => c, Err(_) => return Some(json!({"err": true})) };
            let l = f(&a["l"]);
            let mut o = c2o(&c);
            o["station"] = c.at_length(l).as_ref().map(st2).unwrap_or(Value::Null);
            o["by_fraction"] = c.at_fraction(l / c.length()).as_ref().map(st2).unwrap_or(Value::Null);
            o["iter"] = json!(c.iter().map(|s| st2(&s)).collect::<Vec<_>>());
            o["front"] = st2(&c.at_front());
            o["back"] = st2(&c.at_back());
            o
        }
        "curve3_stations" => {
            let c = match Curve3::from_points(&pts3(&a["pts"]), f(&a["tol"])) { Ok(c) => c, Err(_) => return Some(json!({"err": true})) };
            let l = f(&a["l"]);
            let mut o = c3o(&c);
            o["station"] = c.at_length(l).as_ref().map(st3).unwrap_or(Value::Null);
            o["by_fraction"] = c.at_fraction(l / c.length()).as_ref().map(st3).unwrap_or(Value::Null);
            o["iter"] = json!(c.iter().map(|s| st3(&s)).collect::<Vec<_>>());
            o["front"] = st3(&c.at_front());
            o["back"] = st3(&c.at_back());
            o
        }
        "curve_closest" => {
            if a["pts"][0].as_array().unwrap().len() == 2 {
                let c = match Curve2::from_points(&pts2(&a["pts"]), f(&a["tol"]), a["force_closed"].as_bool().unwrap_or(false)) { Ok(c) => c, Err(_) => return Some(json!({"err": true})) };
                let q = { let x = fv(&a["q"]); engeom::Point2::new(x[0], x[1]) };
                let mut o = c2o(&c);
                o["station"] = st2(&c.at_closest_to_point(&q));
                o["dist"] = fo(c.dist_to_point(&q));
                o
            } else {
                let c = match Curve3::from_points(&pts3(&a["pts"]), f(&a["tol"])) { Ok(c) => c, Err(_) => return Some(json!({"err": true})) };
                let q = { let x = fv(&a["q"]); engeom::Point3::new(x[0], x[1], x[2]) };
                let mut o = c3o(&c);
                o["station"] = st3(&c.at_closest_to_point(&q));
                o["dist"] = fo(c.dist_to_point(&q));
                o
            }
        }
        "curve2_portion" => {
            let c = match Curve2::from_points(&pts2(&a["pts"]), f(&a["tol"]), a["force_closed"].as_bool().unwrap()) { Ok(c) => c, Err(_) => return Some(json!({"err": true})) };
            let op = a["op"].as_str().unwrap();
            let mut o = json!({"source": c2o(&c)});
            match op {
                "between" => { o["result"] = c.between_lengths(f(&a["l0"]), f(&a["l1"])).as_ref().map(c2o).unwrap_or(Value::Null); }
                "by_control" => { o["result"] = c.between_lengths_by_control(f(&a["l0"]), f(&a["l1"]), f(&a["control"])).as_ref().map(c2o).unwrap_or(Value::Null); }
                "trim_front" => { o["result"] = c.trim_front(f(&a["l0"])).as_ref().map(c2o).unwrap_or(Value::Null); }
                "trim_back" => { o["result"] = c.trim_back(f(&a["l0"])).as_ref().map(c2o).unwrap_or(Value::Null); }
                "reversed" => { o["result"] = c2o(&c.reversed()); }
                "split_open" => { o["result"] = match c.split_open_at_length(f(&a["l0"])) { Ok((x, y)) => json!([c2o(&x), c2o(&y)]), Err(_) => Value::Null }; }
                "split_closed" => { o["result"] = match c.split_closed_at_lengths(f(&a["l0"]), f(&a["l1"])) { Ok((x, y)) => json!([c2o(&x), c2o(&y)]), Err(_) => Value::Null }; }
                _ => panic!("unknown op"),
            }
            o
        }
        "curve2_resample" => {
            use engeom::Resample;
            let c = match Curve2::from_points(&pts2(&a["pts"]), f(&a["tol"]), a["force_closed"].as_bool().unwrap()) { Ok(c) => c, Err(_) => return Some(json!({"err": true})) };
            let mode = match a["mode"].as_str().unwrap() { "count" => Resample::ByCount(a["n"].as_u64().unwrap() as usize), "spacing" => Resample::BySpacing(f(&a["s"])), _ => Resample::ByMaxSpacing(f(&a["s"])) };
            json!({"source": c2o(&c), "result": c.resample(mode).as_ref().map(c2o).ok()})
        }
        "curve3_resample" => {
            use engeom::Resample;
            let c = match Curve3::from_points(&pts3(&a["pts"]), f(&a["tol"])) { Ok(c) => c, Err(_) => return Some(json!({"err": true})) };
            let mode = match a["mode"].as_str().unwrap() { "count" => Resample::ByCount(a["n"].as_u64().unwrap() as usize), "spacing" => Resample::BySpacing(f(&a["s"])), _ => Resample::ByMaxSpacing(f(&a["s"])) };
            json!({"source": c3o(&c), "result": c3o(&c.resample(mode))})
        }
        "curve2_simplify" => {
            let c = match Curve2::from_points(&pts2(&a["pts"]), f(&a["tol"]), a["force_closed"].as_bool().unwrap()) { Ok(c) => c, Err(_) => return Some(json!({"err": true})) };
            json!({"source": c2o(&c), "result": c2o(&c.simplify(f(&a["eps"])))})
        }
        "rdp2" => {
            let r = engeom::common::points::ramer_douglas_peucker(&pts2(&a["pts"]), f(&a["eps"]));
            json!(r.iter().map(|p| vec![fo(p.x), fo(p.y)]).collect::<Vec<_>>())
        }
        "fill_gaps2" => {
            let r = engeom::common::points::fill_gaps(&pts2(&a["pts"]), f(&a["max"]));
            json!(r.iter().map(|p| vec![fo(p.x), fo(p.y)]).collect::<Vec<_>>())
        }
        _ => return None,
    })
}
