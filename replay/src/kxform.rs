//! C03 kernels: an entity and an isometry; every kernel returns `pairs` = [name, value computed through engeom's transform API,
//! value computed directly (the same measurement in the other frame / nalgebra applied to the raw coordinates)].
use crate::{f, fo, fv};
use engeom::common::points::transform_points;
use engeom::common::TransformBy;
use engeom::geom2::Segment2;
use engeom::metrology::{Distance2, Distance3, Measurement};
use engeom::geom3::PointCloudFeatures;
use engeom::{Curve2, Curve3, Iso2, Iso3, Plane3, Point2, Point3, PointCloud, SurfacePoint2, SurfacePoint3, UnitVec3, Vector2, Vector3};
use parry3d_f64::na::{Matrix3, Rotation3, Translation2, Translation3, Unit, UnitComplex, UnitQuaternion};
use serde_json::{json, Value};

fn v3(v: &Value) -> Vector3 {
    let x = fv(v);
    Vector3::new(x[0], x[1], x[2])
}
fn p3(v: &Value) -> Point3 {
    Point3::from(v3(v))
}
fn v2(v: &Value) -> Vector2 {
    let x = fv(v);
    Vector2::new(x[0], x[1])
}
fn p2(v: &Value) -> Point2 {
    Point2::from(v2(v))
}

pub fn iso3(v: &Value) -> Iso3 {
    let r: Vec<Vec<f64>> = v["r"].as_array().unwrap().iter().map(fv).collect();
    let m = Matrix3::new(r[0][0], r[0][1], r[0][2], r[1][0], r[1][1], r[1][2], r[2][0], r[2][1], r[2][2]);
    let q = UnitQuaternion::from_rotation_matrix(&Rotation3::from_matrix_unchecked(m));
    Iso3::from_parts(Translation3::from(v3(&v["t"])), q)
}

pub fn iso2(v: &Value) -> Iso2 {
    let t = v2(&v["t"]);
    Iso2::from_parts(Translation2::from(t), UnitComplex::from_cos_sin_unchecked(f(&v["c"]), f(&v["s"])))
}

struct Pairs(Vec<Value>);
impl Pairs {
    fn s(&mut self, name: &str, got: f64, want: f64) {
        self.0.push(json!([name, fo(got), fo(want)]));
    }
    fn v(&mut self, name: &str, got: &[f64], want: &[f64]) {
        for (i, (g, w)) in got.iter().zip(want.iter()).enumerate() {
            self.0.push(json!([format!("{name}[{i}]"), fo(*g), fo(*w)]));
        }
        if got.len() != want.len() {
            self.0.push(json!([format!("{name} length"), got.len() as f64, want.len() as f64]));
        }
    }
    fn out(self) -> Value {
        json!({"pairs": self.0})
    }
}

pub fn run(k: &str, a: &Value) -> Option<Value> {
    let mut o = Pairs(vec![]);
    match k {
        "sp_transform3" => {
            let t = iso3(&a["iso"]);
            let sp = SurfacePoint3::new(p3(&a["p"]), Unit::new_unchecked(v3(&a["n"])));
            let q = p3(&a["q"]);
            let (sp2, q2) = (sp.transformed(&t), t * q);
            let sp3 = &t * &sp;
            let sp4 = &t * sp.clone();
            o.v("point moves by T", sp2.point.coords.as_slice(), (t * sp.point).coords.as_slice());
            o.v("normal only rotates", sp2.normal.as_slice(), (t.rotation * sp.normal.into_inner()).as_slice());
            o.v("iso * &sp point", sp3.point.coords.as_slice(), (t * sp.point).coords.as_slice());
            o.v("iso * &sp normal", sp3.normal.as_slice(), (t.rotation * sp.normal.into_inner()).as_slice());
            o.v("iso * sp point", sp4.point.coords.as_slice(), (t * sp.point).coords.as_slice());
            o.v("iso * sp normal", sp4.normal.as_slice(), (t.rotation * sp.normal.into_inner()).as_slice());
            o.s("scalar projection invariant", sp2.scalar_projection(&q2), sp.scalar_projection(&q));
            o.s("planar distance invariant", sp2.planar_distance(&q2), sp.planar_distance(&q));
            o.v("projection commutes", sp2.projection(&q2).coords.as_slice(), (t * sp.projection(&q)).coords.as_slice());
            let back = sp2.transformed(&t.inverse());
            o.v("inverse restores the point", back.point.coords.as_slice(), sp.point.coords.as_slice());
            o.v("inverse restores the normal", back.normal.as_slice(), sp.normal.as_slice());
        }
        "sp_transform2" => {
            let t = iso2(&a["iso"]);
            let sp = SurfacePoint2::new(p2(&a["p"]), Unit::new_unchecked(v2(&a["n"])));
            let q = p2(&a["q"]);
            let (sp2, q2) = (sp.transformed(&t), t * q);
            let sp3 = &t * &sp;
            o.v("point moves by T", sp2.point.coords.as_slice(), (t * sp.point).coords.as_slice());
            o.v("normal only rotates", sp2.normal.as_slice(), (t.rotation * sp.normal.into_inner()).as_slice());
            o.v("iso * &sp point", sp3.point.coords.as_slice(), (t * sp.point).coords.as_slice());
            o.v("iso * &sp normal", sp3.normal.as_slice(), (t.rotation * sp.normal.into_inner()).as_slice());
            o.s("scalar projection invariant", sp2.scalar_projection(&q2), sp.scalar_projection(&q));
            o.s("planar distance invariant", sp2.planar_distance(&q2), sp.planar_distance(&q));
            o.v("projection commutes", sp2.projection(&q2).coords.as_slice(), (t * sp.projection(&q)).coords.as_slice());
            let back = sp2.transformed(&t.inverse());
            o.v("inverse restores the point", back.point.coords.as_slice(), sp.point.coords.as_slice());
            o.v("inverse restores the normal", back.normal.as_slice(), sp.normal.as_slice());
        }
        "plane_transform" => {
            let (t, t2) = (iso3(&a["iso"]), iso3(&a["iso2"]));
            let pl = Plane3::new(Unit::new_unchecked(v3(&a["n"])), f(&a["d"]));
            let q = p3(&a["q"]);
            let pt = pl.transform_by(&t);
            o.s("signed distance invariant", pt.signed_distance_to_point(&(t * q)), pl.signed_distance_to_point(&q));
            o.v("normal only rotates", pt.normal.as_slice(), (t.rotation * pl.normal.into_inner()).as_slice());
            o.v("projection commutes", pt.project_point(&(t * q)).coords.as_slice(), (t * pl.project_point(&q)).coords.as_slice());
            let back = pt.transform_by(&t.inverse());
            o.v("inverse restores the normal", back.normal.as_slice(), pl.normal.as_slice());
            o.s("inverse restores the offset", back.d, pl.d);
            let seq = pt.transform_by(&t2);
            let comp = pl.transform_by(&(t2 * t));
            o.v("composition equals sequence (normal)", seq.normal.as_slice(), comp.normal.as_slice());
            o.s("composition equals sequence (offset)", seq.d, comp.d);
        }
        "transform_points3" => {
            let t = iso3(&a["iso"]);
            let pts: Vec<Point3> = a["points"].as_array().unwrap().iter().map(p3).collect();
            let r = transform_points(&pts, &t);
            let r2 = (&pts).transform_by(&t);
            let r3 = (&pts[..]).transform_by(&t);
            o.s("count", r.len() as f64, pts.len() as f64);
            for (i, p) in pts.iter().enumerate() {
                if i < r.len() { o.v(&format!("transform_points {i}"), r[i].coords.as_slice(), (t * p).coords.as_slice()); }
                if i < r2.len() { o.v(&format!("&Vec transform_by {i}"), r2[i].coords.as_slice(), (t * p).coords.as_slice()); }
                if i < r3.len() { o.v(&format!("&[..] transform_by {i}"), r3[i].coords.as_slice(), (t * p).coords.as_slice()); }
            }
        }
        "transform_points2" => {
            let t = iso2(&a["iso"]);
            let pts: Vec<Point2> = a["points"].as_array().unwrap().iter().map(p2).collect();
            let r = transform_points(&pts, &t);
            o.s("count", r.len() as f64, pts.len() as f64);
            for (i, p) in pts.iter().enumerate() {
                if i < r.len() { o.v(&format!("transform_points {i}"), r[i].coords.as_slice(), (t * p).coords.as_slice()); }
            }
        }
        "curve_transformed2" => {
            let t = iso2(&a["iso"]);
            let pts: Vec<Point2> = a["points"].as_array().unwrap().iter().map(p2).collect();
            let c = Curve2::from_points(&pts, f(&a["tol"]), a["force_closed"].as_bool().unwrap_or(false)).unwrap();
            let c2 = c.transformed_by(&t);
            o.s("vertex count", c2.points().len() as f64, c.points().len() as f64);
            for (i, p) in c.points().iter().enumerate() {
                if i < c2.points().len() { o.v(&format!("vertex {i} moves by T"), c2.points()[i].coords.as_slice(), (t * p).coords.as_slice()); }
            }
            o.s("length invariant", c2.length(), c.length());
            o.s("closedness kept", c2.is_closed() as u8 as f64, c.is_closed() as u8 as f64);
            o.s("tolerance kept", c2.tol(), c.tol());
            let l = f(&a["l"]);
            if let (Some(s1), Some(s2)) = (c.at_length(l), c2.at_length(l)) {
                o.v("station moves by T", s2.point().coords.as_slice(), (t * s1.point()).coords.as_slice());
                o.v("station direction rotates", s2.direction().as_slice(), (t.rotation * s1.direction().into_inner()).as_slice());
            }
            let q = p2(&a["q"]);
            let (cl1, cl2) = (c.at_closest_to_point(&q), c2.at_closest_to_point(&(t * q)));
            o.s("point-to-curve distance invariant", (cl2.point() - t * q).norm(), (cl1.point() - q).norm());
        }
        "curve_transformed3" => {
            let t = iso3(&a["iso"]);
            let pts: Vec<Point3> = a["points"].as_array().unwrap().iter().map(p3).collect();
            let c = Curve3::from_points(&pts, f(&a["tol"])).unwrap();
            let c2 = c.transformed_by(&t);
            o.s("vertex count", c2.points().len() as f64, c.points().len() as f64);
            for (i, p) in c.points().iter().enumerate() {
                if i < c2.points().len() { o.v(&format!("vertex {i} moves by T"), c2.points()[i].coords.as_slice(), (t * p).coords.as_slice()); }
            }
            o.s("length invariant", c2.length(), c.length());
            o.s("tolerance kept", c2.tol(), c.tol());
        }
        "cloud_transform" => {
            let t = iso3(&a["iso"]);
            let pts: Vec<Point3> = a["points"].as_array().unwrap().iter().map(p3).collect();
            let nrm: Option<Vec<UnitVec3>> = if a["normals"].is_null() { None } else { Some(a["normals"].as_array().unwrap().iter().map(|v| Unit::new_unchecked(v3(v))).collect()) };
            let mut pc = PointCloud::try_new(pts.clone(), nrm.clone(), None).unwrap();
            pc.transform(&t);
            o.s("count", pc.points().len() as f64, pts.len() as f64);
            for (i, p) in pts.iter().enumerate() {
                o.v(&format!("point {i} moves by T"), pc.points()[i].coords.as_slice(), (t * p).coords.as_slice());
            }
            if let Some(n0) = &nrm {
                let n1 = pc.normals().unwrap();
                for (i, n) in n0.iter().enumerate() {
                    o.v(&format!("normal {i} only rotates"), n1[i].as_slice(), (t.rotation * n.into_inner()).as_slice());
                }
            } else {
                o.s("no normals stay none", pc.normals().is_some() as u8 as f64, 0.0);
            }
            pc.transform(&t.inverse());
            for (i, p) in pts.iter().enumerate() {
                o.v(&format!("inverse restores point {i}"), pc.points()[i].coords.as_slice(), p.coords.as_slice());
            }
            if let Some(n0) = &nrm {
                let n1 = pc.normals().unwrap();
                for (i, n) in n0.iter().enumerate() {
                    o.v(&format!("inverse restores normal {i}"), n1[i].as_slice(), n.as_slice());
                }
            }
        }
        "segment_transform" => {
            let t = iso2(&a["iso"]);
            let s = Segment2::try_new(p2(&a["a"]), p2(&a["b"])).unwrap();
            let s2 = s.transform_by(&t);
            o.v("a moves by T", s2.a.coords.as_slice(), (t * s.a).coords.as_slice());
            o.v("b moves by T", s2.b.coords.as_slice(), (t * s.b).coords.as_slice());
        }
        "distance_convert" => {
            let t = iso3(&a["iso"]);
            let d2 = Distance2::new(p2(&a["a2"]), p2(&a["b2"]), Some(Unit::new_unchecked(v2(&a["dir2"]))));
            let d3 = d2.to_3d(&t);
            let lift = |p: &Point2| Point3::new(p.x, p.y, 0.0);
            o.v("to_3d a", d3.a.coords.as_slice(), (t * lift(&d2.a)).coords.as_slice());
            o.v("to_3d b", d3.b.coords.as_slice(), (t * lift(&d2.b)).coords.as_slice());
            o.v("to_3d direction only rotates", d3.direction.as_slice(), (t.rotation * Vector3::new(d2.direction.x, d2.direction.y, 0.0)).as_slice());
            o.s("to_3d keeps the value", d3.value(), d2.value());
            let e3 = Distance3::new(p3(&a["a3"]), p3(&a["b3"]), Some(Unit::new_unchecked(v3(&a["dir3"]))));
            let e2 = e3.to_2d(&t);
            let (ta, tb) = (t * e3.a, t * e3.b);
            o.v("to_2d a", e2.a.coords.as_slice(), &[ta.x, ta.y]);
            o.v("to_2d b", e2.b.coords.as_slice(), &[tb.x, tb.y]);
            let td = t.rotation * e3.direction.into_inner();
            let nn = (td.x * td.x + td.y * td.y).sqrt();
            o.v("to_2d direction", e2.direction.as_slice(), &[td.x / nn, td.y / nn]);
        }
        _ => return None,
    }
    Some(o.out())
}
