use crate::{f, fo, fv};
use engeom::{Mesh, Point3};
use serde_json::{json, Value};
use std::collections::HashSet;

fn faces(v: &Value) -> Vec<[u32; 3]> {
    v.as_array().unwrap().iter().map(|t| { let a = t.as_array().unwrap(); [a[0].as_u64().unwrap() as u32, a[1].as_u64().unwrap() as u32, a[2].as_u64().unwrap() as u32] }).collect()
}

fn dummy_mesh(fs: &[[u32; 3]]) -> Mesh {
    let n = fs.iter().flat_map(|f| f.iter()).max().map(|m| *m as usize + 1).unwrap_or(0);
    // distinct non-degenerate positions
    let verts: Vec<Point3> = (0..n).map(|i| Point3::new(i as f64, (i * i) as f64 * 0.37, (i * i * i) as f64 * 0.11)).collect();
    Mesh::new(verts, fs.to_vec(), false)
}

pub fn run(k: &str, a: &Value) -> Option<Value> {
    Some(match k {
        "chained_indices" => {
            let pairs: Vec<[u32; 2]> = a["pairs"].as_array().unwrap().iter().map(|p| { let q = p.as_array().unwrap(); [q[0].as_u64().unwrap() as u32, q[1].as_u64().unwrap() as u32] }).collect();
            json!(engeom::common::indices::chained_indices(&pairs))
        }
        #[cfg(not(feature = "hooks"))]
        "identify_edges" => json!({"hooks_unavailable": true}),
        #[cfg(feature = "hooks")]
        "identify_edges" => {
            let fs = faces(&a["faces"]);
            match engeom::verif_hooks::edges::verif_identify_edges(&fs) {
                Err(_) => json!({"err": true}),
                Ok((edges, face_edges, loops)) => json!({"edges": edges, "face_edges": face_edges, "loops": loops}),
            }
        }
        "patch_indices" => {
            let fs = faces(&a["faces"]);
            json!(dummy_mesh(&fs).get_patches())
        }
        "clusters" => {
            let set: HashSet<(i32, i32, i32)> = a["voxels"].as_array().unwrap().iter().map(|p| { let q = p.as_array().unwrap(); (q[0].as_i64().unwrap() as i32, q[1].as_i64().unwrap() as i32, q[2].as_i64().unwrap() as i32) }).collect();
            let r = engeom::raster3::clusters_from_sparse(set);
            json!(r.iter().map(|c| c.iter().map(|v| vec![v.0, v.1, v.2]).collect::<Vec<_>>()).collect::<Vec<_>>())
        }
        #[cfg(not(feature = "hooks"))]
        "box_geom" => json!({"hooks_unavailable": true}),
        #[cfg(feature = "hooks")]
        "box_geom" => {
            let (v, fcs) = engeom::verif_hooks::box_geom(f(&a["w"]), f(&a["h"]), f(&a["d"]));
            json!({"vertices": v.iter().map(|p| vec![p.x, p.y, p.z]).collect::<Vec<_>>(), "faces": fcs})
        }
        "cylinder" => {
            let m = Mesh::create_cylinder(f(&a["r"]), f(&a["h"]), a["steps"].as_u64().unwrap() as usize);
            json!({"vertices": m.vertices().iter().map(|p| vec![p.x, p.y, p.z]).collect::<Vec<_>>(), "faces": m.faces()})
        }
        _ => return None,
    })
}
