//! Replay of solver models (and translation-validation vectors) against the real engeom build.
//! usage: engeom-replay <kernel>  < args.json  > result.json      (a panic = non-zero exit, message on stderr)
#![allow(clippy::all, unused)]
use serde_json::{json, Value};
use std::io::Read;

mod k2d;
mod kmisc;
mod kmesh;
mod kseries;
mod kcurve;
mod kframe;
mod kxform;
mod kalign;
mod kline;
mod kselect;
mod ksearch;

pub fn f(v: &Value) -> f64 {
    match v {
        Value::Number(n) => n.as_f64().unwrap(),
        Value::String(s) => match s.as_str() {
            "nan" | "NaN" => f64::NAN,
            "inf" => f64::INFINITY,
            "-inf" => f64::NEG_INFINITY,
            o => o.parse().unwrap(),
        },
        Value::Bool(b) => if *b { 1.0 } else { 0.0 },
        _ => panic!("not a number: {v}"),
    }
}

pub fn fo(x: f64) -> Value {
    if x.is_finite() { json!(x) } else if x.is_nan() { json!("nan") } else if x > 0.0 { json!("inf") } else { json!("-inf") }
}

pub fn fv(v: &Value) -> Vec<f64> {
    v.as_array().unwrap().iter().map(f).collect()
}

fn main() {
    let kernel = std::env::args().nth(1).expect("kernel name");
    let mut s = String::new();
    std::io::stdin().read_to_string(&mut s).unwrap();
    let a: Value = serde_json::from_str(&s).expect("json args");
    let out = if let Some(v) = k2d::run(&kernel, &a) {
        v
    } else if let Some(v) = k2d::run2(&kernel, &a) {
        v
    } else if let Some(v) = k2d::run3(&kernel, &a) {
        v
    } else if let Some(v) = k2d::run4(&kernel, &a) {
        v
    } else if let Some(v) = kmesh::run(&kernel, &a) {
        v
    } else if let Some(v) = kseries::run(&kernel, &a) {
        v
    } else if let Some(v) = kcurve::run(&kernel, &a) {
        v
    } else if let Some(v) = ksearch::run(&kernel, &a) {
        v
    } else if let Some(v) = kselect::run(&kernel, &a) {
        v
    } else if let Some(v) = kline::run(&kernel, &a) {
        v
    } else if let Some(v) = kalign::run(&kernel, &a) {
        v
    } else if let Some(v) = kxform::run(&kernel, &a) {
        v
    } else if let Some(v) = kframe::run(&kernel, &a) {
        v
    } else if let Some(v) = kmisc::run(&kernel, &a) {
        v
    } else {
        panic!("unknown kernel {kernel}")
    };
    println!("{}", out);
}
