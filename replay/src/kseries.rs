use crate::{f, fo, fv};
use engeom::Series1;
use serde_json::{json, Value};

fn so(s: &Series1) -> Value {
    json!({"x": s.x.values().iter().map(|v| fo(*v)).collect::<Vec<_>>(), "y": s.y.iter().map(|v| fo(*v)).collect::<Vec<_>>()})
}

pub fn run(k: &str, a: &Value) -> Option<Value> {
    if !k.starts_with("series_") {
        return None;
    }
    let s = Series1::try_new(fv(&a["xs"]), fv(&a["ys"])).expect("valid series");
    Some(match k {
        "series_between" => so(&s.between(f(&a["a"]), f(&a["b"]))),
        "series_interpolate" => fo(s.interpolate(f(&a["x"]))),
        "series_split" => {
            let (l, r) = s.split_at_x(f(&a["x"]));
            json!({"left": l.as_ref().map(so), "right": r.as_ref().map(so), "area": fo(s.area_under()),
                   "area_left": l.as_ref().map(|p| fo(p.area_under())), "area_right": r.as_ref().map(|p| fo(p.area_under()))})
        }
        "series_crossings" => json!(s.y_crossings(f(&a["level"])).iter().map(|v| fo(*v)).collect::<Vec<_>>()),
        "series_resampled_n" => so(&s.resampled_n(a["n"].as_u64().unwrap() as usize)),
        "series_scaled" => so(&s.scaled_by(f(&a["sx"]), f(&a["sy"]))),
        "series_shifted" => so(&s.shift_by(f(&a["dx"]), f(&a["dy"]))),
        "series_remove_nan" => so(&s.remove_nan()),
        "series_best_fit_line" => { let l = s.best_fit_line(); json!({"m": fo(l.c[1]), "b": fo(l.c[0])}) }
        _ => return None,
    })
}
