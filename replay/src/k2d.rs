use crate::{f, fo, fv};
use engeom::geom2::{Arc2, Circle2, Point2, Vector2};
use serde_json::{json, Value};

pub fn p2(v: &Value) -> Point2 {
    let c = fv(v);
    Point2::new(c[0], c[1])
}
pub fn v2(v: &Value) -> Vector2 {
    let c = fv(v);
    Vector2::new(c[0], c[1])
}
pub fn po(p: &Point2) -> Value {
    json!([fo(p.x), fo(p.y)])
}
pub fn circle(v: &Value) -> Circle2 {
    let c = fv(v);
    Circle2::new(c[0], c[1], c[2])
}

pub fn run(k: &str, a: &Value) -> Option<Value> {
    Some(match k {
        "circle_intersections" => {
            let r = circle(&a["c0"]).intersections_with(&circle(&a["c1"]));
            json!(r.iter().map(po).collect::<Vec<_>>())
        }
        "tangent_points" => match circle(&a["c"]).tangent_points_to(&p2(&a["p"])) {
            None => Value::Null,
            Some((x, y)) => json!([po(&x), po(&y)]),
        },
        "outer_tangents" => match circle(&a["c0"]).outer_tangents_to(&circle(&a["c1"])) {
            None => Value::Null,
            Some((s0, s1)) => json!([[po(&s0.a), po(&s0.b)], [po(&s1.a), po(&s1.b)]]),
        },
        _ => return None,
    })
}

pub fn run2(k: &str, a: &Value) -> Option<Value> {
    use engeom::geom2::{Curve2, UnitVec2};
    use engeom::metrology::line_profiles::point_curve2_deviation;
    use engeom::metrology::{Distance2, Distance3, Measurement};
    Some(match k {
        "curve_deviation" => {
            // a two-vertex curve through p with the given unit direction: the station at p is its first vertex
            let p = p2(&a["p"]);
            let d = v2(&a["dir"]);
            let c = Curve2::from_points(&[p, p + d * 10.0], 1e-9, false).unwrap();
            let st = c.at_front();
            let dev = point_curve2_deviation(&st, &p2(&a["q"]));
            json!({"value": fo(dev.deviation), "point": po(&dev.surface.point), "normal": [fo(dev.surface.normal.x), fo(dev.surface.normal.y)]})
        }
        "distance" => {
            let av = fv(&a["a"]);
            let bv = fv(&a["b"]);
            let dv = fv(&a["d"]);
            if av.len() == 2 {
                let d = Distance2::new(Point2::new(av[0], av[1]), Point2::new(bv[0], bv[1]), Some(UnitVec2::new_unchecked(Vector2::new(dv[0], dv[1]))));
                json!({"value": fo(d.value()), "reversed_value": fo(d.reversed().value())})
            } else {
                use engeom::{Point3, UnitVec3, Vector3};
                let d = Distance3::new(Point3::new(av[0], av[1], av[2]), Point3::new(bv[0], bv[1], bv[2]), Some(UnitVec3::new_unchecked(Vector3::new(dv[0], dv[1], dv[2]))));
                json!({"value": fo(d.value()), "reversed_value": fo(d.reversed().value())})
            }
        }
        _ => return None,
    })
}

pub fn run3(k: &str, a: &Value) -> Option<Value> {
    use engeom::common::BestFit;
    use engeom::func1::Polynomial;
    Some(match k {
        "from_3_points" => match Circle2::from_3_points(p2(&a["p0"]), p2(&a["p1"]), p2(&a["p2"])) {
            Ok(c) => json!([fo(c.x()), fo(c.y()), fo(c.r())]),
            Err(_) => Value::Null,
        },
        "poly_fit" => {
            let xs = fv(&a["xs"]);
            let ys = fv(&a["ys"]);
            let w: Option<Vec<f64>> = if a["w"].is_null() { None } else { Some(fv(&a["w"])) };
            let kk = a["K"].as_u64().unwrap();
            let c: Vec<f64> = match kk {
                2 => Polynomial::<2>::least_squares(&xs, &ys, w.as_deref()).c.to_vec(),
                3 => Polynomial::<3>::least_squares(&xs, &ys, w.as_deref()).c.to_vec(),
                4 => Polynomial::<4>::least_squares(&xs, &ys, w.as_deref()).c.to_vec(),
                _ => panic!("K"),
            };
            json!(c.iter().map(|v| fo(*v)).collect::<Vec<_>>())
        }
        #[cfg(not(feature = "hooks"))]
        "circle_fit_eval" => json!({"hooks_unavailable": true}),
        #[cfg(feature = "hooks")]
        "circle_fit_eval" => {
            let pts: Vec<Point2> = a["pts"].as_array().unwrap().iter().map(p2).collect();
            let mode = if a["sigma"].is_null() { BestFit::All } else { BestFit::Gaussian(f(&a["sigma"])) };
            let x = if a["x"].is_null() { None } else { let v = fv(&a["x"]); Some([v[0], v[1], v[2]]) };
            let (r, j, w) = engeom::verif_hooks::circle_fit_eval(&pts, &circle(&a["initial"]), mode, x);
            json!({"residuals": r.iter().map(|v| fo(*v)).collect::<Vec<_>>(), "jacobian": j.iter().map(|row| row.iter().map(|v| fo(*v)).collect::<Vec<_>>()).collect::<Vec<_>>(),
                   "weights": w.iter().map(|v| fo(*v)).collect::<Vec<_>>()})
        }
        _ => return None,
    })
}

pub fn run4(k: &str, a: &Value) -> Option<Value> {
    use engeom::common::Intersection;
    use engeom::geom2::{HasBounds2, Segment2};
    fn bb(b: &engeom::geom2::Aabb2) -> Value {
        json!({"mins": [fo(b.mins.x), fo(b.mins.y)], "maxs": [fo(b.maxs.x), fo(b.maxs.y)]})
    }
    Some(match k {
        #[cfg(not(feature = "hooks"))]
        "line_circle" => json!({"hooks_unavailable": true}),
        #[cfg(feature = "hooks")]
        "line_circle" => {
            let c = circle(&a["c"]);
            if a["kind"].as_str().unwrap() == "ray" {
                let r = parry2d_f64::query::Ray::new(p2(&a["o"]), v2(&a["d"]));
                json!({"ts": engeom::verif_hooks::intersection_line_circle(&r, &c).iter().map(|v| fo(*v)).collect::<Vec<_>>()})
            } else {
                let s = Segment2::try_new(p2(&a["o"]), p2(&a["b"])).unwrap();
                let pts = c.intersection(&s);
                json!({"ts": engeom::verif_hooks::intersection_line_circle(&s, &c).iter().map(|v| fo(*v)).collect::<Vec<_>>(), "points": pts.iter().map(po).collect::<Vec<_>>()})
            }
        }
        "arc3" => {
            let arc = Arc2::three_points(p2(&a["p0"]), p2(&a["p1"]), p2(&a["p2"]));
            json!({"center": po(&arc.center()), "r": fo(arc.radius()), "angle0": fo(arc.angle0), "angle": fo(arc.angle), "start": po(&arc.start()), "end": po(&arc.end()),
                   "length": fo(arc.length()), "mid": po(&arc.point_at_fraction(0.5)), "aabb": bb(arc.aabb())})
        }
        "arc_aabb" => {
            let cc = fv(&a["c"]);
            let arc = Arc2::circle_angles(Point2::new(cc[0], cc[1]), cc[2], f(&a["angle0"]), f(&a["angle"]));
            json!({"aabb": bb(arc.aabb()), "start": po(&arc.start()), "end": po(&arc.end()), "length": fo(arc.length()),
                   "at_half_length": po(&arc.point_at_length(arc.length() * 0.5)), "at_half_fraction": po(&arc.point_at_fraction(0.5)), "circle_aabb": bb(circle(&a["c"]).aabb())})
        }
        _ => return None,
    })
}
