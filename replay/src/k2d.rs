use crate::{f, fo, fv};
use engeom::geom2::{Arc2, Circle2, Point2, Vector2};
use serde_json::{json, Value};

pub fn p2(v: &Value) -> Point2 {
    let c = fv(v);
    Point2::new(c[0], c[1])
}
pub fn v2(v: &Value) -> Vector2 {
    let c = fv(v);
    Vector2::new(c[0], c[1])
}
pub fn po(p: &Point2) -> Value {
    json!([fo(p.x), fo(p.y)])
}
pub fn circle(v: &Value) -> Circle2 {
    let c = fv(v);
    Circle2::new(c[0], c[1], c[2])
}

pub fn run(k: &str, a: &Value) -> Option<Value> {
    Some(match k {
        "circle_intersections" => {
            let r = circle(&a["c0"]).intersections_with(&circle(&a["c1"]));
            json!(r.iter().map(po).collect::<Vec<_>>())
        }
        "tangent_points" => match circle(&a["c"]).tangent_points_to(&p2(&a["p"])) {
            None => Value::Null,
            Some((x, y)) => json!([po(&x), po(&y)]),
        },
        "outer_tangents" => match circle(&a["c0"]).outer_tangents_to(&circle(&a["c1"])) {
            None => Value::Null,
            Some((s0, s1)) => json!([[po(&s0.a), po(&s0.b)], [po(&s1.a), po(&s1.b)]]),
        },
        _ => return None,
    })
}
