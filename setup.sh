#!/bin/bash
# Builds the verification machinery from files on disk only (offline).
set -e
cd "$(dirname "$0")"
export CARGO_NET_OFFLINE=true
mkdir -p build evidence
echo "[setup] tool versions"
cargo kani --version
z3 --version
python3-vt -c "import z3; print('z3py', z3.get_version_string())"
echo "[setup] building the Kani harness crate against /repo (codegen only)"
(cd kani && cargo kani -Z unstable-options --ignore-global-asm --target-dir ../build/kani-target --only-codegen > ../build/setup-kani.log 2>&1) || { tail -30 build/setup-kani.log; exit 1; }
echo "[setup] building the replay crate against /repo (dev + release)"
(cd replay && CARGO_TARGET_DIR=../build/replay-target cargo build --offline -q && CARGO_TARGET_DIR=../build/replay-target cargo build --offline -q --release) > build/setup-replay.log 2>&1 || { tail -30 build/setup-replay.log; exit 1; }
echo "[setup] generating the MIR dump of /repo (nightly)"
python3-vt -c "import sys; sys.path.insert(0, '.'); from mirsym import mir; m = mir.load('build'); print('functions in the dump:', len(m.fns))"
echo "[setup] done"
