"""Contract summaries of functions outside the crate (std, nalgebra, parry, simba ...).  Each summary is part of
the trusted base of engine M and is listed in evidence when used."""
import re
import z3
from .vals import *
from . import vals
from .mir import strip_generics, split_top

USED = set()          # names of the summaries exercised in this process (for evidence)


def unref(x):
    return x.get() if isinstance(x, Ref) else x


def items_of(x):
    x = unref(x)
    if isinstance(x, (VecV, SliceV)):
        return x.items
    if isinstance(x, list):
        return x
    raise Unsupported('not a sequence: ' + type(x).__name__)


def pt(v):
    return Struct('OPoint', [list(v)])


def is_point(x):
    return isinstance(x, list) and len(x) == 1 and isinstance(x[0], list) and not isinstance(x, Mat) and (not isinstance(x, Struct) or x.name in ('OPoint', 'Unit', 'Translation'))


def vec_of(x):
    """coordinates of a point / unit / vector value"""
    x = unref(x)
    if isinstance(x, Mat):
        raise Unsupported('matrix where a vector was expected')
    if isinstance(x, list) and len(x) == 1 and isinstance(x[0], list):
        return vec_of(x[0])
    return x


class Mat:
    """dense small matrix, row major"""

    def __init__(self, rows):
        self.rows = [list(r) for r in rows]

    @property
    def n(self):
        return len(self.rows)

    @property
    def m(self):
        return len(self.rows[0])

    def mul(self, o):
        if isinstance(o, Mat):
            return Mat([[sum((self.rows[i][k] * o.rows[k][j] for k in range(1, self.m)), self.rows[i][0] * o.rows[0][j]) for j in range(o.m)] for i in range(self.n)])
        v = vec_of(o)
        if any(isinstance(c, Poison) for c in v) or any(isinstance(c, Poison) for r in self.rows for c in r):
            return [vdot(self.rows[i], v) for i in range(self.n)]
        return [sum((self.rows[i][k] * v[k] for k in range(1, self.m)), self.rows[i][0] * v[0]) for i in range(self.n)]

    def t(self):
        return Mat([[self.rows[j][i] for j in range(self.n)] for i in range(self.m)])

    def copy(self):
        return Mat(self.rows)


def vadd(a, b):
    return [f_add(x, y) for x, y in zip(a, b)]


def vsub(a, b):
    return [f_sub(x, y) for x, y in zip(a, b)]


def vscale(a, k):
    return [f_mul(x, k) for x in a]


def vdot(a, b):
    r = None
    for x, y in zip(a, b):
        t = f_mul(num(x), num(y))
        r = t if r is None else f_add(r, t)
    return r


def vcross(a, b):
    if any(isinstance(c, Poison) for c in list(a) + list(b)):
        m = lambda x, y: f_mul(x, y)
        return [f_sub(m(a[1], b[2]), m(a[2], b[1])), f_sub(m(a[2], b[0]), m(a[0], b[2])), f_sub(m(a[0], b[1]), m(a[1], b[0]))]
    return [a[1] * b[2] - a[2] * b[1], a[2] * b[0] - a[0] * b[2], a[0] * b[1] - a[1] * b[0]]


def any_poison(v):
    return any(isinstance(c, Poison) for c in v)


# ------------------------------------------------------------------------------------------------ rotation models
def rot2(c, s):
    """UnitComplex as Unit<Complex{re, im}>"""
    return Struct('Unit', [Struct('Complex', [c, s])])


def rot2_cs(r):
    r = unref(r)
    return r[0][0], r[0][1]


def iso2(c, s, tx, ty):
    return Struct('Isometry', [rot2(c, s), Struct('Translation', [[tx, ty]])])


def iso_parts(t):
    t = unref(t)
    return t[0], t[1][0]


def rot_apply(rot, v):
    """apply a 2D (UnitComplex) or 3D (rotation matrix model of UnitQuaternion) rotation to a vector"""
    rot = unref(rot)
    if isinstance(rot, Mat):
        return rot.mul(v)
    if isinstance(rot, Struct) and rot.name == 'Quat':
        return rot[0].mul(v)
    c, s = rot2_cs(rot)
    return [f_sub(f_mul(c, v[0]), f_mul(s, v[1])), f_add(f_mul(s, v[0]), f_mul(c, v[1]))]


def rot_inv(rot):
    rot = unref(rot)
    if isinstance(rot, Struct) and rot.name == 'Quat':
        return Struct('Quat', [rot[0].t()])
    c, s = rot2_cs(rot)
    return rot2(c, f_neg(s))


def rot_mul(a, b):
    a, b = unref(a), unref(b)
    if isinstance(a, Struct) and a.name == 'Quat':
        return Struct('Quat', [a[0].mul(b[0])])
    c1, s1 = rot2_cs(a)
    c2, s2 = rot2_cs(b)
    return rot2(c1 * c2 - s1 * s2, s1 * c2 + c1 * s2)


def quat(m):
    return Struct('Quat', [m])


def rot3_axis(axis, ang):
    c, s = f_cos(ang), f_sin(ang)
    o, z = (1.0, 0.0) if MODE[0] == 'conc' else (z3.RealVal(1), z3.RealVal(0))
    if axis == 0:
        return Mat([[o, z, z], [z, c, -s], [z, s, c]])
    if axis == 1:
        return Mat([[c, z, s], [z, o, z], [-s, z, c]])
    return Mat([[c, -s, z], [s, c, z], [z, z, o]])


# ------------------------------------------------------------------------------------------------ dispatch
HANDLERS = []      # (regex, fn(eng, callee, args, m, fn_ctx))


def ext(pattern):
    def deco(f):
        HANDLERS.append((re.compile(pattern, re.S), f))
        return f
    return deco


def call_external(eng, callee, args, fn_ctx=None):
    for rx, h in HANDLERS:
        m = rx.search(callee)
        if m:
            USED.add(h.__name__)
            return h(eng, callee, args, m, fn_ctx)
    raise Unsupported('external: ' + callee[:160])


def closure_of(callee, args):
    for a in reversed(args):
        a = unref(a) if isinstance(a, Ref) and isinstance(a.get(), Closure) else a
        if isinstance(a, Closure):
            return a
    raise Unsupported('no closure argument in ' + callee[:80])


# ------------------------------------------------------------------------------------------------ f64 intrinsics
@ext(r'f64::<impl f64>::(\w+)$|^f64::(\w+)$|<f64 as [\w:]+>::(\w+)$')
def f64_method(eng, callee, a, m, fc):
    name = m.group(1) or m.group(2) or m.group(3)
    x = a[0] if a else None
    if name in ('PI', 'FRAC_PI_2', 'TAU', 'FRAC_PI_4', 'FRAC_PI_3', 'FRAC_PI_6') and not a:
        import math
        tab = {'PI': 1, 'FRAC_PI_2': Fraction(1, 2), 'TAU': 2, 'FRAC_PI_4': Fraction(1, 4), 'FRAC_PI_3': Fraction(1, 3), 'FRAC_PI_6': Fraction(1, 6)}
        return float(tab[name]) * math.pi if MODE[0] == 'conc' else Angle(tab[name])
    if name == 'abs':
        return f_abs(x)
    if name == 'sqrt':
        return f_sqrt(x)
    if name == 'powi':
        return f_powi(x, a[1])
    if name == 'powf':
        f = as_fraction(a[1])
        if f is not None and f.denominator == 1:
            return f_powi(x, int(f))
        if f == Fraction(1, 2):
            return f_sqrt(x)
        raise Unsupported('powf with non-integer exponent')
    if name == 'min':
        return f_min(x, a[1])
    if name == 'max':
        return f_max(x, a[1])
    if name == 'clamp':
        return f_min(f_max(x, a[1]), a[2])
    if name == 'sin':
        return f_sin(x)
    if name == 'cos':
        return f_cos(x)
    if name == 'sin_cos':
        return [f_sin(x), f_cos(x)]
    if name == 'tan':
        return f_div(f_sin(x), f_cos(x))
    if name == 'atan2':
        return f_atan2(x, a[1])
    if name == 'asin':
        return f_asin(x)
    if name == 'acos':
        return f_acos(x)
    if name == 'is_nan':
        if isinstance(x, Poison):
            if x.kind == 'nan':
                return True
            if x.kind == 'inf':
                return False
            raise Unsupported('is_nan of an unclassified non-finite value')
        return (x != x) if isinstance(x, float) else False
    if name == 'is_finite':
        if isinstance(x, Poison):
            return False
        import math
        return math.isfinite(x) if isinstance(x, float) else True
    if name == 'is_infinite':
        if isinstance(x, Poison):
            if x.kind == 'inf':
                return True
            if x.kind == 'nan':
                return False
            raise Unsupported('is_infinite of an unclassified non-finite value')
        import math
        return math.isinf(x) if isinstance(x, float) else False
    if name == 'signum':
        x = num(x)
        if not is_sym(x):
            return 1.0 if x >= 0 else -1.0
        return z3.If(x >= 0, z3.RealVal(1), z3.RealVal(-1))      # signum(+-0) = +-1: sign of zero is not modelled (stated)
    if name in ('floor', 'ceil', 'round', 'trunc'):
        x = num(x)
        if isinstance(x, Poison):
            return x
        if not is_sym(x):
            import math
            return float({'floor': math.floor, 'ceil': math.ceil, 'round': round, 'trunc': math.trunc}[name](x))
        k = ctx().fresh(name, 'int')
        kr = z3.ToReal(k)
        facts = {'floor': [kr <= x, x < kr + 1], 'ceil': [kr >= x, x > kr - 1],
                 'trunc': [z3.Implies(x >= 0, z3.And(kr <= x, x < kr + 1)), z3.Implies(x < 0, z3.And(kr >= x, x > kr - 1))],
                 'round': [z3.Implies(x >= 0, z3.And(kr - z3.RealVal('1/2') <= x, x < kr + z3.RealVal('1/2'))), z3.Implies(x < 0, z3.And(kr + z3.RealVal('1/2') >= x, x > kr - z3.RealVal('1/2')))]}[name]
        ctx().add_def(k, facts)
        return kr
    if name == 'to_radians':
        return f_mul(x, PI_Z / 180)
    if name == 'to_degrees':
        return f_mul(x, 180 / PI_Z)
    if name == 'partial_cmp':
        return partial_cmp(eng, unref(a[0]), unref(a[1]))
    if name in ('add', 'sub', 'mul', 'div', 'neg', 'rem'):
        y = unref(a[1]) if len(a) > 1 else None
        x = unref(x)
        return {'add': lambda: f_add(x, y), 'sub': lambda: f_sub(x, y), 'mul': lambda: f_mul(x, y), 'div': lambda: f_div(x, y), 'neg': lambda: f_neg(x), 'rem': lambda: f_rem(x, y)}[name]()
    if name in ('add_assign', 'sub_assign', 'mul_assign', 'div_assign'):
        r = a[0]
        y = unref(a[1])
        r.set({'add': f_add, 'sub': f_sub, 'mul': f_mul, 'div': f_div}[name[:3]](r.get(), y))
        return ()
    if name in ('eq', 'ne', 'lt', 'le', 'gt', 'ge'):
        return f_cmp(name.capitalize(), unref(a[0]), unref(a[1]))
    if name == 'clone':
        return unref(x)
    if name == 'mul_add':
        return f_add(f_mul(x, a[1]), a[2])
    if name in ('zero', 'default'):
        return 0.0 if MODE[0] == 'conc' else z3.RealVal(0)
    if name == 'one':
        return 1.0 if MODE[0] == 'conc' else z3.RealVal(1)
    if name == 'sum':
        it = drain(eng, a[0])
        r = 0.0 if MODE[0] == 'conc' else z3.RealVal(0)
        for v in it:
            r = f_add(r, unref(v))
        return r
    if name == 'from':
        return a[0]
    raise Unsupported('f64 method ' + name)


def partial_cmp(eng, x, y):
    if isinstance(x, Poison) or isinstance(y, Poison):
        p = x if isinstance(x, Poison) else y
        if p.kind == 'nan':
            return En('None')
        raise Unsupported('partial_cmp with a non-finite value')
    x, y = num(x), num(y)
    if not is_sym(x) and not is_sym(y):
        if x != x or y != y:
            return En('None')
        return En('Some', [En('Less' if x < y else 'Equal' if x == y else 'Greater')])
    return En('Some', [En(eng.choose([(x < y, 'Less'), (x == y, 'Equal'), (x > y, 'Greater')]))])


@ext(r'<(?:&)?f64 as (?:std::ops::|core::ops::)?(Add|Sub|Mul|Div|Neg|Rem)(?:<.*>)?>::(\w+)$')
def f64_ops(eng, callee, a, m, fc):
    op = m.group(1)
    x = unref(a[0])
    y = unref(a[1]) if len(a) > 1 else None
    if y is not None and isinstance(y, (list, Mat)):
        # f64 * vector
        return vec_scalar_mul(y, x)
    return {'Add': lambda: f_add(x, y), 'Sub': lambda: f_sub(x, y), 'Mul': lambda: f_mul(x, y), 'Div': lambda: f_div(x, y), 'Neg': lambda: f_neg(x), 'Rem': lambda: f_rem(x, y)}[op]()


def vec_scalar_mul(v, k):
    v = unref(v)
    if isinstance(v, Mat):
        return Mat([[f_mul(x, k) for x in r] for r in v.rows])
    if is_point(v):
        return pt(vscale(vec_of(v), k))
    return vscale(v, k)


# ------------------------------------------------------------------------------------------------ Option / Result
@ext(r'Option::<.*?>::(\w+)(?:::<.*>)?$|Result::<.*?>::(\w+)(?:::<.*>)?$')
def option_method(eng, callee, a, m, fc):
    name = m.group(1) or m.group(2)
    o = a[0]
    by_ref = isinstance(o, Ref)
    ov = unref(o)
    if name in ('unwrap', 'expect'):
        if ov.v in ('None', 'Err'):
            raise Panic(f'called `{name}` on `{ov.v}` ({" > ".join(strip_generics(c).split("::")[-1] for c in eng.call_stack[-3:])})')
        return ov.f[0]
    if name == 'unwrap_or':
        return ov.f[0] if ov.v in ('Some', 'Ok') else a[1]
    if name == 'unwrap_or_default':
        if ov.v in ('Some', 'Ok'):
            return ov.f[0]
        raise Unsupported('unwrap_or_default')
    if name in ('unwrap_or_else',):
        if ov.v in ('Some', 'Ok'):
            return ov.f[0]
        return eng.call_value(a[1], [] if ov.v == 'None' else [ov.f[0]])
    if name in ('is_some', 'is_ok'):
        return ov.v in ('Some', 'Ok')
    if name in ('is_none', 'is_err'):
        return ov.v in ('None', 'Err')
    if name == 'ok_or':
        return En('Ok', [ov.f[0]]) if ov.v == 'Some' else En('Err', [a[1]])
    if name == 'ok_or_else':
        return En('Ok', [ov.f[0]]) if ov.v == 'Some' else En('Err', [Opaque('err')])
    if name == 'ok':
        return En('Some', [ov.f[0]]) if ov.v == 'Ok' else En('None')
    if name == 'map':
        if ov.v in ('Some', 'Ok'):
            return En(ov.v, [eng.call_value(a[1], [[ov.f[0]]] if False else [ov.f[0]])])
        return ov
    if name == 'map_err':
        return ov if ov.v == 'Ok' else En('Err', [Opaque('err')])
    if name == 'and_then':
        if ov.v in ('Some', 'Ok'):
            return eng.call_value(a[1], [ov.f[0]])
        return ov
    if name == 'as_ref' or name == 'as_mut':
        if ov.v in ('Some', 'Ok'):
            return En(ov.v, [Ref(lambda: ov.f[0], lambda v: ov.f.__setitem__(0, v))])
        return En(ov.v, list(ov.f))
    if name in ('as_deref', 'as_deref_mut'):
        if ov.v == 'Some':
            return En('Some', [Ref(lambda: ov.f[0], lambda v: ov.f.__setitem__(0, v))])
        return En('None')
    if name in ('copied', 'cloned'):
        if ov.v == 'Some':
            return En('Some', [deep_copy(unref(ov.f[0]))])
        return ov
    if name == 'take':
        o.set(En('None'))
        return ov
    if name == 'is_some_and':
        if ov.v != 'Some':
            return False
        return eng.call_value(a[1], [ov.f[0]])
    if name == 'filter':
        if ov.v != 'Some':
            return ov
        keep = eng.call_value(a[1], [Ref.to(ov.f[0])])
        return ov if eng.branch(keep) else En('None')
    if name == 'or':
        return ov if ov.v == 'Some' else a[1]
    if name == 'unzip':
        if ov.v == 'Some':
            return [En('Some', [ov.f[0][0]]), En('Some', [ov.f[0][1]])]
        return [En('None'), En('None')]
    if name == 'zip':
        o2 = unref(a[1])
        if ov.v == 'Some' and o2.v == 'Some':
            return En('Some', [[ov.f[0], o2.f[0]]])
        return En('None')
    raise Unsupported('Option/Result method ' + name)


@ext(r' as (?:std::ops::|core::ops::)?Try>::branch$')
def try_branch(eng, callee, a, m, fc):
    o = a[0]
    return En('Continue', [o.f[0]]) if o.v in ('Some', 'Ok') else En('Break', [o])


@ext(r' as (?:std::ops::|core::ops::)?FromResidual<.*>>::from_residual$')
def from_residual(eng, callee, a, m, fc):
    o = a[0]
    if callee.lstrip('<').startswith(('Option', 'std::option::Option')):
        return En('None')
    return En('Err', [Opaque('error')])


@ext(r'<Box<dyn (?:std::error::)?Error.*> as From<.*>>::from$|<.* as Into<Box<dyn .*Error.*>>>::into$|<Box<dyn .*> as From<.*>>::from$')
def box_err(eng, callee, a, m, fc):
    return Opaque('error')


@ext(r'(?:std|alloc|core)::fmt::format|format::format_inner|Arguments::<.*>::new|Arguments::new|fmt::rt::Argument|std::fmt::Arguments|must_use::<(?:std::string::)?String>|<String as|String::|<str as ToString>|ToString>::to_string')
def fmt_any(eng, callee, a, m, fc):
    return Opaque('fmt')


@ext(r'^(?:core::panicking|std::rt|std::panicking)::|begin_panic|panic_fmt|assert_failed|panic_display|unwrap_failed|expect_failed')
def panics(eng, callee, a, m, fc):
    raise Panic('explicit panic: ' + callee[:60])


@ext(r'<.* as Clone>::clone$|<.* as ToOwned>::to_owned$')
def clone_any(eng, callee, a, m, fc):
    v = unref(a[0])
    return clone_val(v)


def clone_val(v):
    if isinstance(v, VecV):
        return VecV([clone_val(x) for x in v.items])
    if isinstance(v, SliceV):
        return VecV([clone_val(x) for x in v.items])
    if isinstance(v, MapV):
        return MapV([(clone_val(k), clone_val(x)) for k, x in v.entries], v.is_set)
    if isinstance(v, Mat):
        return v.copy()
    if isinstance(v, Struct):
        return Struct(v.name, [clone_val(x) for x in v])
    if isinstance(v, list):
        if type(v) is not list:
            return type(v)([clone_val(x) for x in v])
        return [clone_val(x) for x in v]
    if isinstance(v, En):
        return En(v.v, [clone_val(x) for x in v.f])
    return v


@ext(r'^<.* as (?:Fn|FnMut|FnOnce)<.*>>::(call|call_mut|call_once)$')
def fn_trait_call(eng, callee, a, m, fc):
    args = a[1]
    return eng.call_value(a[0], list(args) if isinstance(args, (list, tuple)) else [args])


@ext(r'^<(?:std::option::)?Option<.*> as PartialEq>::(eq|ne)$')
def option_eq(eng, callee, a, m, fc):
    x, y = unref(a[0]), unref(a[1])
    if x.v != y.v:
        r = False
    elif x.v == 'None':
        r = True
    else:
        u, w = unref(x.f[0]), unref(y.f[0])
        if isinstance(u, (list, En)) or isinstance(w, (list, En)):
            raise Unsupported('Option == on a compound payload')
        r = (u == w)
        if is_sym(r):
            r = eng.branch(r)
    return r if m.group(1) == 'eq' else (not r)


@ext(r'<.* as Default>::default$')
def default_any(eng, callee, a, m, fc):
    if 'Vec<' in callee:
        return VecV()
    if 'HashMap<' in callee or 'HashSet<' in callee:
        return MapV(is_set='HashSet<' in callee)
    raise Unsupported('Default for ' + callee[:80])


@ext(r'^(?:std::|core::)?mem::(swap|replace|take|drop|forget)')
def mem_fns(eng, callee, a, m, fc):
    n = m.group(1)
    if n == 'swap':
        x, y = a[0].get(), a[1].get()
        a[0].set(y)
        a[1].set(x)
        return ()
    if n == 'replace':
        old = a[0].get()
        a[0].set(a[1])
        return old
    if n == 'take':
        old = a[0].get()
        if isinstance(old, VecV):
            a[0].set(VecV())
        elif isinstance(old, MapV):
            a[0].set(MapV(is_set=old.is_set))
        elif isinstance(old, En):
            a[0].set(En('None'))
        else:
            raise Unsupported('mem::take of ' + type(old).__name__)
        return old
    return ()


@ext(r'<bool as (?:std::ops::)?(BitAnd|BitOr|Not)')
def bool_ops(eng, callee, a, m, fc):
    x = unref(a[0])
    if m.group(1) == 'Not':
        return z3.Not(x) if is_sym(x) else (not x)
    y = unref(a[1])
    if not is_sym(x) and not is_sym(y):
        return (x and y) if m.group(1) == 'BitAnd' else (x or y)
    xb = x if is_sym(x) else z3.BoolVal(x)
    yb = y if is_sym(y) else z3.BoolVal(y)
    return z3.And(xb, yb) if m.group(1) == 'BitAnd' else z3.Or(xb, yb)


from . import ext_std      # noqa: E402,F401  (containers and iterators)
from . import ext_na       # noqa: E402,F401  (nalgebra / parry)
from . import ext_simd     # noqa: E402,F401  (simba AutoSimd lanes, parry Qbvh traversal contract)
from . import ext_kiddo    # noqa: E402,F401  (kiddo k-d tree by contract)
