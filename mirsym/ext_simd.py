"""simba AutoSimd<[T; 4]> (4 independent lanes) and parry's Qbvh depth-first traversal (dependency contract).

A SIMD value is `Lanes` = list of 4 lane values; every operation is lane-wise, exactly as AutoSimd implements it.
Qbvh::traverse_depth_first is a dependency: its contract is "starting at the root, call visitor.visit(node boxes, leaf data) and
descend into the children whose mask lane is true; every node box contains the boxes of its subtree; every edge is the data of
exactly one leaf lane".  The summary builds *a* tree with that contract (leaf nodes of 4 consecutive edges, inner nodes of 4
children, unused lanes = parry's invalid box [+MAX, -MAX] with no data) and runs engeom's visitor (from MIR) on it."""
import re
import sys
import z3
from .vals import *
from .ext import ext, unref, pt, vec_of, clone_val

W = 4
FMAX = z3.RealVal(str(int(sys.float_info.max)))


class Lanes(list):
    pass


def _lanes(x):
    x = unref(x)
    if isinstance(x, Lanes):
        return x
    raise Unsupported('SIMD operand that is not a lane vector')


def _b(c):
    return c if is_sym(c) else bool(c)


@ext(r'^<AutoSimd<\[(f64|bool); 4\]> as (?:[\w:]*::)?(\w+)>::(\w+)$')
def autosimd(eng, callee, a, m, fc):
    ty, trait, name = m.groups()
    if name == 'splat':
        return Lanes([a[0]] * W)
    if name == 'extract':
        i = a[1]
        if is_sym(i):
            i = eng.concretize_int(i, 0, W - 1)
        return _lanes(a[0])[i]
    if name == 'select':
        # self.select(cond, other): cond ? self : other
        x, c, y = _lanes(a[0]), _lanes(a[1]), _lanes(a[2])
        out = []
        for xi, ci, yi in zip(x, c, y):
            if not is_sym(ci):
                out.append(xi if ci else yi)
            elif ty == 'bool':
                xi2 = xi if is_sym(xi) else z3.BoolVal(bool(xi))
                yi2 = yi if is_sym(yi) else z3.BoolVal(bool(yi))
                out.append(z3.If(ci, xi2, yi2))
            elif isinstance(xi, Poison) or isinstance(yi, Poison):
                out.append(xi if eng.branch(ci) else yi)
            else:
                out.append(z3.If(ci, num(xi), num(yi)))
        return Lanes(out)
    if name in ('sub', 'mul', 'div', 'add'):
        f = {'sub': f_sub, 'mul': f_mul, 'div': f_div, 'add': f_add}[name]
        return Lanes([f(x, y) for x, y in zip(_lanes(a[0]), _lanes(a[1]))])
    if name == 'neg':
        return Lanes([f_neg(x) for x in _lanes(a[0])])
    if name in ('simd_ne', 'simd_ge', 'simd_le', 'simd_gt', 'simd_lt', 'simd_eq'):
        op = {'simd_ne': 'Ne', 'simd_ge': 'Ge', 'simd_le': 'Le', 'simd_gt': 'Gt', 'simd_lt': 'Lt', 'simd_eq': 'Eq'}[name]
        return Lanes([f_cmp(op, x, y) for x, y in zip(_lanes(a[0]), _lanes(a[1]))])
    if name in ('simd_max', 'simd_min'):
        f = f_max if name == 'simd_max' else f_min
        return Lanes([f(x, y) for x, y in zip(_lanes(a[0]), _lanes(a[1]))])
    if name == 'bitand':
        out = []
        for x, y in zip(_lanes(a[0]), _lanes(a[1])):
            if not is_sym(x):
                out.append(y if x else False)
            elif not is_sym(y):
                out.append(x if y else False)
            else:
                out.append(z3.And(x, y))
        return Lanes(out)
    if name == 'bitor':
        out = []
        for x, y in zip(_lanes(a[0]), _lanes(a[1])):
            if not is_sym(x):
                out.append(True if x else y)
            elif not is_sym(y):
                out.append(True if y else x)
            else:
                out.append(z3.Or(x, y))
        return Lanes(out)
    if name == 'not':
        return Lanes([(z3.Not(x) if is_sym(x) else (not x)) for x in _lanes(a[0])])
    if name in ('any', 'all', 'none'):
        ls = [x if is_sym(x) else z3.BoolVal(bool(x)) for x in _lanes(a[0])]
        c = z3.Or(ls) if name == 'any' else z3.And(ls) if name == 'all' else z3.Not(z3.Or(ls))
        return eng.branch(z3.simplify(c))
    if name == 'clone':
        return Lanes(list(_lanes(a[0])))
    raise Unsupported('AutoSimd::' + name)


@ext(r'(?:^|::)SimdRay::(\w+)$')
def simd_ray(eng, callee, a, m, fc):
    name = m.group(1)
    if name == 'splat':
        r = unref(a[0])
        o, d = vec_of(r[0]), vec_of(r[1])
        return Struct('SimdRay', [pt([Lanes([c] * W) for c in o]), [Lanes([c] * W) for c in d]])
    raise Unsupported('SimdRay::' + name)


def simd_aabb(boxes):
    """boxes: list of 4 (mins, maxs) coordinate pairs -> SimdAabb value"""
    dim = len(boxes[0][0])
    return Struct('SimdAabb', [pt([Lanes([b[0][k] for b in boxes]) for k in range(dim)]), pt([Lanes([b[1][k] for b in boxes]) for k in range(dim)])])


def invalid_box(dim=2):
    return ([FMAX] * dim, [-FMAX] * dim)


def merge_boxes(bs):
    mins = list(bs[0][0])
    maxs = list(bs[0][1])
    for b in bs[1:]:
        mins = [f_min(x, y) for x, y in zip(mins, b[0])]
        maxs = [f_max(x, y) for x, y in zip(maxs, b[1])]
    return (mins, maxs)


@ext(r'^<(?:[\w:]*::)?Polyline as (?:[\w:]*::)?SimdCompositeShape>::qbvh$')
def polyline_qbvh(eng, callee, a, m, fc):
    pl = unref(a[0])
    q = Struct('Qbvh', [pl])
    return Ref(lambda: q)


@ext(r'(?:^|::)Qbvh<u32>>::traverse_depth_first::<(\w+)>$')
def qbvh_traverse(eng, callee, a, m, fc):
    q = unref(a[0])
    vis = a[1]
    verts = [vec_of(p) for p in q[0][0].items]
    ne = len(verts) - 1
    dim = len(verts[0])
    leaves = []
    for i in range(ne):
        p, r = verts[i], verts[i + 1]
        leaves.append(([f_min(p[k], r[k]) for k in range(dim)], [f_max(p[k], r[k]) for k in range(dim)]))
    ob = eng.observers.get('qbvh_nodes')
    # level 0: leaf nodes of 4 consecutive edges
    nodes = []
    for g in range(0, ne, W):
        idx = list(range(g, min(g + W, ne)))
        nodes.append({'boxes': [leaves[i] for i in idx], 'data': idx, 'children': None})
    while len(nodes) > 1:
        up = []
        for g in range(0, len(nodes), W):
            ch = nodes[g:g + W]
            up.append({'boxes': [merge_boxes(c['boxes']) for c in ch], 'data': None, 'children': ch})
        nodes = up
    visit_name = f'<{m.group(1)} as SimdVisitor<u32, SimdAabb>>::visit'

    def walk(node):
        boxes = list(node['boxes']) + [invalid_box(dim)] * (W - len(node['boxes']))
        bv = simd_aabb(boxes)
        if node['data'] is not None:
            data = En('Some', [[En('Some', [Ref.to(i)]) for i in node['data']] + [En('None')] * (W - len(node['data']))])
        else:
            data = En('None')
        if ob:
            ob(eng, bv, node)
        st = eng.call(visit_name, [vis, Ref.to(bv), data])
        st = unref(st)
        if st.v == 'ExitEarly':
            return False
        if st.v == 'Continue':
            mask = [True] * W
        else:
            mask = list(_lanes(st.f[0]))
        if node['children']:
            for k, ch in enumerate(node['children']):
                mk = mask[k]
                if is_sym(mk):
                    mk = eng.branch(mk)
                if mk:
                    if walk(ch) is False:
                        return False
        return True

    walk(nodes[0])
    return ()
