"""kiddo ImmutableKdTree by contract: the tree is the list of its entries, and a query returns *the exhaustive answer*
(nearest_one: an item at minimal squared distance; nearest_n: the n nearest, ascending; within: exactly the items whose squared
distance is <= the squared radius argument, ascending).  The search inside kiddo is a dependency and is not decided."""
import z3
from .vals import *
from .ext import ext, unref, vec_of, pt, items_of


def _sq(entries, q):
    out = []
    for e in entries:
        d = None
        for a, b in zip(e, q):
            t = f_mul(f_sub(a, b), f_sub(a, b))
            d = t if d is None else f_add(d, t)
        out.append(d)
    return out


def _sort_idx(eng, ds):
    """indices ordered by ascending distance (ties: either order, forked)"""
    order = []
    for i in range(len(ds)):
        k = len(order)
        while k > 0 and eng.branch(f_cmp('Lt', ds[i], ds[order[k - 1]])):
            k -= 1
        order.insert(k, i)
    return order


@ext(r'ImmutableKdTree(?:::<.*>|<.*>>)::(new_from_slice|size|nearest_one|nearest_n|within|within_unsorted)(?:::<.*>)?$')
def kiddo_tree(eng, callee, a, m, fc):
    name = m.group(1)
    if name == 'new_from_slice':
        ents = [list(vec_of(e)) for e in items_of(unref(a[0]))]
        return Struct('ImmutableKdTree', [ents])
    t = unref(a[0])
    ents = t[0]
    if name == 'size':
        return len(ents)
    q = list(vec_of(a[1]))
    ds = _sq(ents, q)
    nn = lambda i: Struct('NearestNeighbour', [ds[i], i])
    if name == 'nearest_one':
        if not ents:
            raise Panic('nearest_one on an empty tree')
        order = _sort_idx(eng, ds)
        return nn(order[0])
    if name == 'nearest_n':
        cnt = a[2]
        cnt = cnt[0] if isinstance(cnt, list) else cnt
        if is_sym(cnt):
            cnt = eng.concretize_int(cnt, 1, len(ents) + 1)
        order = _sort_idx(eng, ds)
        return VecV([nn(i) for i in order[:int(cnt)]])
    if name in ('within', 'within_unsorted'):
        r2 = a[2]
        keep = [i for i in range(len(ents)) if eng.branch(f_cmp('Le', ds[i], r2))]
        if name == 'within':
            order = _sort_idx(eng, [ds[i] for i in keep])
            keep = [keep[k] for k in order]
        return VecV([nn(i) for i in keep])
    raise Unsupported('kiddo ' + name)
