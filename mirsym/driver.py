"""Driver framework of engine M: units (one entry function + symbolic pre-state + post-conditions), obligation
discharge (exact query, then tolerance query), model extraction, parallel execution, replay on the real build."""
import json, math, os, re, subprocess, sys, time, traceback, multiprocessing, hashlib
from fractions import Fraction
import z3
from . import mir as mirmod, execm, ext, vals
from .vals import *
from .ext import pt, unref, vec_of, Mat

VERIF = os.path.dirname(os.path.dirname(os.path.abspath(__file__)))
BUILD = os.path.join(VERIF, 'build')
DELTA = Fraction(1, 10**6)       # numeric slack separating "violated" from "rounding" (DESIGN 1)

_MIR = [None]


def get_mir():
    if _MIR[0] is None:
        _MIR[0] = mirmod.load(BUILD)
    return _MIR[0]


# ------------------------------------------------------------------------------------------------ obligations
class Obl:
    def __init__(self, name, kind, a, b=None, scale=1, note=''):
        self.name, self.kind, self.a, self.b, self.scale, self.note = name, kind, a, b, scale, note


def holds(name, cond):
    """discrete post-condition (no tolerance)"""
    return Obl(name, 'holds', cond)


def eq(name, lhs, rhs, scale=1):
    """lhs == rhs exactly; tolerance query |lhs - rhs| > DELTA*scale"""
    return Obl(name, 'eq', lhs, rhs, scale)


def le(name, lhs, rhs, scale=1):
    return Obl(name, 'le', lhs, rhs, scale)


def finite(name, vals_):
    """no non-finite (poison) value among vals_"""
    return Obl(name, 'finite', list(vals_))


def model_value(model, term):
    """python float of a z3 term under a model (algebraic numbers approximated)"""
    v = model.eval(term, model_completion=True)
    if z3.is_rational_value(v):
        return float(Fraction(v.numerator_as_long(), v.denominator_as_long()))
    if z3.is_int_value(v):
        return v.as_long()
    if z3.is_algebraic_value(v):
        a = v.approx(20)
        return float(Fraction(a.numerator_as_long(), a.denominator_as_long()))
    if z3.is_true(v):
        return True
    if z3.is_false(v):
        return False
    try:
        return float(v.as_decimal(17).rstrip('?'))
    except Exception:
        return str(v)


def poisoned(x):
    if isinstance(x, Poison):
        return True
    if isinstance(x, (list, tuple)):
        return any(poisoned(y) for y in x)
    if isinstance(x, En):
        return any(poisoned(y) for y in x.f)
    if isinstance(x, (VecV, SliceV)):
        return any(poisoned(y) for y in x.items)
    if isinstance(x, Mat):
        return any(poisoned(r) for r in x.rows)
    if isinstance(x, Ref):
        return poisoned(x.get())
    return False


class Unit:
    """one exploration: entry function, state builder, post-condition generator"""

    def __init__(self, name, entry, make, post, base=None, inputs=None, replay=None, loop_budget=64, loop_budgets=None, timeout_ms=20000,
                 max_paths=4000, observers=None, panics='violation', panic_ok=None, budget='violation', bounds=None, assumptions=None,
                 known_pos=None, canary=None, judge=None, allow_unsupported_paths=False, path_filter=None, tol_margin=None, int_only=False, lin_inc=False, const_generics=None):
        self.const_generics = const_generics or {}
        self.int_only = int_only
        self.lin_inc = lin_inc
        self.name, self.entry, self.make, self.post = name, entry, make, post
        self.base = base or []
        self.inputs = inputs or {}          # name -> z3 term: reported in models / replay
        self.replay = replay                # (kernel, fn(model_floats) -> args json)
        self.loop_budget, self.loop_budgets = loop_budget, loop_budgets or {}
        self.timeout_ms, self.max_paths = timeout_ms, max_paths
        self.observers = observers or {}
        self.panics = panics                # 'violation' | 'ignore' | callable(panic, eng) -> 'violation'|'ok'
        self.panic_ok = panic_ok
        self.budget = budget
        self.bounds = bounds or {}
        self.assumptions = assumptions or []
        self.known_pos = known_pos or []
        self.canary = canary
        self.judge = judge
        self.allow_unsupported_paths = allow_unsupported_paths
        self.path_filter = path_filter
        self.tol_margin = tol_margin


def run_unit(unit, seed=0):
    """Executes one unit in this process.  Returns a plain-data result dict."""
    t0 = time.time()
    M = get_mir()
    eng = execm.Engine(M, timeout_ms=unit.timeout_ms, seed=seed, loop_budget=unit.loop_budget, max_paths=unit.max_paths, observers=unit.observers)
    eng.externals = ext.call_external
    eng.loop_budgets = dict(unit.loop_budgets)
    eng.int_mode = unit.int_only
    eng.const_generics = dict(unit.const_generics)
    eng.lin_inc = unit.lin_inc
    eng.base = list(unit.base)
    res = {'name': unit.name, 'obligations': [], 'paths': 0, 'blocks': 0, 'queries': 0, 'solver_s': 0.0, 'unsupported': [], 'panic_paths': 0,
           'budget_paths': 0, 'functions': {}, 'bounds': unit.bounds, 'assumptions': list(unit.assumptions), 'events': [], 'canary': None,
           'error': None, 'samples': []}
    f = M.resolve(unit.entry) if isinstance(unit.entry, str) else unit.entry
    if f is None and isinstance(unit.entry, str):
        f = M.fns.get(unit.entry)
    composite = callable(unit.entry) and not hasattr(unit.entry, 'blocks')
    if f is None:
        res['error'] = f'entry function {unit.entry} not found in the MIR dump'
        return res
    state = {}

    def model_inputs(model):
        out = {}
        for k, t in unit.inputs.items():
            try:
                out[k] = model_value(model, t) if is_sym(t) else (float(t) if not isinstance(t, (bool, int)) else t)
            except Exception as e:
                out[k] = str(e)
        return out

    def record(name, status, model=None, detail='', replay_args=None):
        o = {'name': name, 'status': status, 'detail': detail, 'path': res['paths']}
        if model is not None:
            o['model'] = model_inputs(model)
            if unit.replay and replay_args is None:
                try:
                    o['replay'] = {'kernel': unit.replay[0], 'args': unit.replay[1](o['model'])}
                except Exception as e:
                    o['replay_error'] = str(e)
        if replay_args is not None:
            o['replay'] = replay_args
        res['obligations'].append(o)

    def discharge(ob):
        if ob.kind == 'finite':
            if poisoned(ob.a):
                r, mdl = eng.check([])
                if r == z3.sat:
                    record(ob.name, 'viol', mdl, 'non-finite value reaches the result: ' + '; '.join(sorted(set(ctx().events)))[:200])
                elif r == z3.unsat:
                    record(ob.name, 'unsat')
                else:
                    record(ob.name, 'unknown', detail='path feasibility unknown')
            else:
                record(ob.name, 'unsat')
            return
        if ob.kind == 'holds':
            c = ob.a
            if not is_sym(c):
                if bool(c):
                    record(ob.name, 'unsat')
                else:
                    r, mdl = eng.check([])
                    record(ob.name, 'viol' if r == z3.sat else ('unsat' if r == z3.unsat else 'unknown'), mdl, 'post-condition false on this path')
                return
            r, mdl = eng.check([z3.Not(c)])
            if r == z3.unsat:
                record(ob.name, 'unsat')
            elif r == z3.sat:
                record(ob.name, 'viol', mdl, 'discrete post-condition violated')
            else:
                record(ob.name, 'unknown', detail='solver timeout/unknown')
            return
        a, b = num(ob.a), num(ob.b)
        if isinstance(a, Poison) or isinstance(b, Poison):
            r, mdl = eng.check([])
            record(ob.name, 'viol' if r == z3.sat else 'unsat', mdl, 'non-finite value in a compared quantity')
            return
        q1 = (a != b) if ob.kind == 'eq' else (a > b)
        if not is_sym(q1):
            if not q1:
                record(ob.name, 'unsat')
                return
            q1 = z3.BoolVal(True)
        r, mdl = eng.check([q1])
        if r == z3.unsat:
            record(ob.name, 'unsat')
            return
        d = z3.RealVal(str(DELTA)) * ob.scale
        q2 = z3.Or(a - b > d, b - a > d) if ob.kind == 'eq' else (a - b > d)
        extra = unit.tol_margin(eng) if unit.tol_margin else []
        r2, mdl2 = eng.check([q2] + extra, min(unit.timeout_ms, 6000))
        if r2 == z3.unsat:
            record(ob.name, 'tol', detail='violated only below delta (rounding-level guards)')
        elif r2 == z3.sat:
            record(ob.name, 'viol', mdl2, 'violated by more than delta')
        else:
            record(ob.name, 'unknown', detail=f'exact query {r}, tolerance query unknown')

    def on_path(ret):
        res['paths'] += 1
        if unit.path_filter and not unit.path_filter(eng, state.get('ctx'), ret):
            return
        try:
            obls = unit.post(eng, state.get('ctx'), ret)
        except Unsupported as u:
            res['unsupported'].append('post: ' + str(u)[:200])
            return
        if len(res['samples']) < 2:
            res['samples'].append({'path_condition': [str(z3.simplify(c))[:160] for c in eng.pc[:6]], 'obligations': [o.name for o in obls][:12]})
        for ob in obls:
            try:
                discharge(ob)
            except Unsupported as u:
                res['unsupported'].append(f'obligation {ob.name}: ' + str(u)[:200])
        res['events'] = sorted(set(res['events']) | set(ctx().events))

    def on_panic(p):
        res['paths'] += 1
        res['panic_paths'] += 1
        verdict = unit.panics(p, eng) if callable(unit.panics) else unit.panics
        if verdict == 'violation':
            r, mdl = eng.check([])
            if r == z3.sat:
                record('no panic', 'viol', mdl, 'panic path: ' + str(p)[:200])
            elif r == z3.unknown:
                record('no panic', 'unknown', detail='panic path feasibility unknown: ' + str(p)[:120])
        # 'ok'/'ignore': an expected/documented panic

    def on_budget(b):
        res['paths'] += 1
        res['budget_paths'] += 1
        if unit.budget == 'violation':
            r, mdl = eng.check([])
            if r == z3.sat:
                record('terminates within the loop budget', 'viol', mdl, 'loop budget exhausted on a feasible path: ' + str(b)[:160])
            elif r == z3.unknown:
                record('terminates within the loop budget', 'unknown', detail=str(b)[:160])

    def run_one():
        for kp in unit.known_pos:
            ctx().known_pos.append(kp)
        args, c = unit.make(eng)
        state['ctx'] = c
        try:
            if composite:
                return f(eng, args)
            return eng.run_fn(f, args)
        except Unsupported as u:
            res['unsupported'].append(str(u)[:300])
            raise Abort('unsupported')

    try:
        eng.explore(run_one, on_path, on_panic, on_budget, unit.name)
    except Unsupported as u:
        res['unsupported'].append(str(u)[:300])
    except Exception as e:
        res['error'] = f'{type(e).__name__}: {e}\n' + traceback.format_exc()[-1500:]
    res['blocks'] = eng.stats.blocks
    res['queries'] = eng.stats.queries
    res['solver_s'] = round(eng.stats.solver_s, 3)
    res['pruned'] = eng.stats.pruned
    res['by_solver'] = dict(eng.stats.by_solver)
    import shutil
    shutil.rmtree(eng.tmpdir, ignore_errors=True)
    res['functions'] = dict(eng.touched)
    res['summaries'] = sorted(ext.USED)
    res['wall_s'] = round(time.time() - t0, 2)
    return res


# ------------------------------------------------------------------------------------------------ parallel execution
def _worker(job):
    modname, fname, kwargs, seed = job
    try:
        import importlib
        mod = importlib.import_module(modname)
        units = getattr(mod, fname)(**kwargs)
        if isinstance(units, Unit):
            units = [units]
        out = []
        for u in units:
            out.append(run_unit(u, seed))
        return out
    except Exception as e:
        return [{'name': f'{fname}{kwargs}', 'error': f'{type(e).__name__}: {e}\n' + traceback.format_exc()[-1500:], 'obligations': [], 'paths': 0,
                 'blocks': 0, 'queries': 0, 'solver_s': 0, 'unsupported': [], 'functions': {}, 'bounds': {}, 'assumptions': [], 'samples': []}]


def run_jobs(jobs, seed=0, procs=14, timeout_s=1500):
    """jobs: [(module name, unit-factory name, kwargs)] -> flat list of unit results"""
    get_mir()       # make sure the dump exists before forking
    jobs = [(m, f, k, seed) for (m, f, k) in jobs]
    if not jobs:
        return []
    if procs <= 1 or len(jobs) == 1:
        out = []
        for j in jobs:
            out.extend(_worker(j))
        return out
    ctxm = multiprocessing.get_context('fork')
    out = []
    with ctxm.Pool(min(procs, len(jobs))) as pool:
        asyncs = [(j, pool.apply_async(_worker, (j,))) for j in jobs]
        deadline = time.time() + timeout_s
        for j, a in asyncs:
            try:
                out.extend(a.get(timeout=max(1, deadline - time.time())))
            except multiprocessing.TimeoutError:
                out.append({'name': f'{j[1]}{j[2]}', 'error': None, 'timeout': True, 'obligations': [], 'paths': 0, 'blocks': 0, 'queries': 0,
                            'solver_s': 0, 'unsupported': [f'unit exceeded the tier cap of {timeout_s}s'], 'functions': {}, 'bounds': {}, 'assumptions': [], 'samples': []})
        pool.terminate()
    return out


# ------------------------------------------------------------------------------------------------ replay on the real build
REPLAY_DIR = os.path.join(VERIF, 'replay')


def build_replay():
    import fcntl
    lock = open(os.path.join(BUILD, 'replay.lock'), 'w')
    fcntl.flock(lock, fcntl.LOCK_EX)
    try:
        env = dict(os.environ)
        env.update({'CARGO_NET_OFFLINE': 'true', 'CARGO_TARGET_DIR': os.path.join(BUILD, 'replay-target')})
        for prof in ([], ['--release']):
            p = subprocess.run(['cargo', 'build', '--offline', '-q'] + prof, cwd=REPLAY_DIR, env=env, stdout=subprocess.PIPE, stderr=subprocess.STDOUT, text=True)
            if p.returncode != 0:
                # kernels that reach into private state through guarded hooks are optional: a source change that breaks only them
                # must not take every replay with it
                p = subprocess.run(['cargo', 'build', '--offline', '-q', '--no-default-features'] + prof, cwd=REPLAY_DIR, env=env, stdout=subprocess.PIPE, stderr=subprocess.STDOUT, text=True)
            if p.returncode != 0:
                raise RuntimeError('replay crate failed to build against /repo:\n' + p.stdout[-2000:])
    finally:
        fcntl.flock(lock, fcntl.LOCK_UN)
        lock.close()


def replay_call(kernel, args, profile='debug', timeout=6):
    """runs the real engeom code on concrete inputs.  returns dict: {'ok': result} | {'panic': msg} | {'timeout': True}"""
    exe = os.path.join(BUILD, 'replay-target', profile, 'engeom-replay')
    try:
        def _lim():
            import resource
            resource.setrlimit(resource.RLIMIT_AS, (3 << 30, 3 << 30))      # a runaway loop that keeps allocating must not exhaust the sandbox
        p = subprocess.run([exe, kernel], input=json.dumps(args), stdout=subprocess.PIPE, stderr=subprocess.PIPE, text=True, timeout=timeout, preexec_fn=_lim)
    except subprocess.TimeoutExpired:
        return {'timeout': True}
    if p.returncode != 0:
        msg = [l for l in p.stderr.split('\n') if 'panicked' in l or l.strip()]
        if 'memory allocation' in p.stderr or p.returncode in (-6, -9, 134):
            return {'timeout': True, 'note': 'aborted: memory limit reached (runaway allocation) ' + ' | '.join(msg[:2])[:200]}
        return {'panic': ' | '.join(msg[:3])[:400]}
    try:
        r = json.loads(p.stdout)
        if isinstance(r, dict) and r.get('hooks_unavailable'):
            return {'unavailable': 'this kernel needs the guarded hooks, which do not compile on the current tree'}
        return {'ok': r}
    except Exception:
        return {'panic': 'unparseable replay output: ' + p.stdout[:200]}


def fold_results(v, results, judges, pid):
    """fold unit results into the Verdict; replay violation candidates through the real build"""
    need_replay = any(o['status'] == 'viol' for r in results for o in r['obligations'])
    if need_replay:
        try:
            build_replay()
        except Exception as e:
            v.engine_errors.append(str(e)[:600])
            need_replay = False
    for r in results:
        unit = {'engine': 'M', 'unit': r['name'], 'paths': r.get('paths', 0), 'blocks': r.get('blocks', 0), 'queries': r.get('queries', 0),
                'solver_s': r.get('solver_s', 0), 'wall_s': r.get('wall_s'), 'panic_paths': r.get('panic_paths', 0), 'budget_paths': r.get('budget_paths', 0),
                'bounds': r.get('bounds', {}), 'answered_by': r.get('by_solver', {})}
        v.states += r.get('paths', 0)
        v.transitions += r.get('blocks', 0)
        v.add_time('z3', r.get('solver_s', 0))
        for k, h in r.get('functions', {}).items():
            v.functions[k] = h
        for a in r.get('assumptions', []):
            v.assume('M ' + a)
        for sname in r.get('summaries', []):
            v.assume('M contract summary used: ' + sname)
        for e in r.get('events', []):
            v.assume('M path event observed: ' + e)
        if r.get('error'):
            v.engine_errors.append(f"unit {r['name']}: {r['error'][:500]}")
            unit['error'] = r['error'][:300]
        for u in r.get('unsupported', []):
            v.undecided.append({'unit': r['name'], 'why': u})
        unit['unsupported'] = r.get('unsupported', [])[:5]
        if r.get('paths', 0) == 0 and r.get('unsupported') and not r.get('timeout') and not r['obligations']:
            v.engine_errors.append(f"unit {r['name']}: every path hit a construct outside the executor's subset ({r['unsupported'][0][:120]}) - nothing decided")
        if r.get('paths', 0) == 0 and not r.get('unsupported') and not r.get('error') and not r.get('timeout'):
            v.engine_errors.append(f"unit {r['name']}: no feasible path reached the post-condition (vacuous pre-state)")
        counts = {'unsat': 0, 'tol': 0, 'viol': 0, 'unknown': 0}
        seen_viol = set()
        for o in r['obligations']:
            v.obligations += 1
            counts[o['status']] += 1
            if o['status'] == 'unsat':
                v.discharged += 1
            elif o['status'] == 'tol':
                v.discharged += 1
                if len(v.tolerance_only) < 40:
                    v.tolerance_only.append({'unit': r['name'], 'obligation': o['name']})
            elif o['status'] == 'unknown':
                v.undecided.append({'unit': r['name'], 'obligation': o['name'], 'why': o.get('detail', '')})
            else:
                key_role = (r['name'], o['name'])
                judge = judges.get(r['name'].split('[')[0]) or judges.get('*')
                rep = o.get('replay')
                path = None
                reproduced = None
                role = o['name']
                if key_role in seen_viol:
                    continue          # the same obligation of the same unit already reproduced on the real build once
                replays_done = unit.get('replays', 0)
                if replays_done >= 4:
                    v.undecided.append({'unit': r['name'], 'obligation': o['name'], 'why': 'further violation candidates of this unit not replayed (cap of 4 per unit)'})
                    continue
                unit['replays'] = replays_done + 1
                if rep and need_replay and judge:
                    outs = {prof: replay_call(rep['kernel'], rep['args'], prof) for prof in ('debug', 'release')}
                    v.traces += 2
                    if any('unavailable' in x for x in outs.values()):
                        v.undecided.append({'unit': r['name'], 'obligation': o['name'], 'why': 'violation candidate cannot be replayed: ' + str(next(x['unavailable'] for x in outs.values() if 'unavailable' in x))})
                        continue
                    try:
                        verdicts = {prof: judge(o, rep, outs[prof]) for prof in outs}
                    except Exception as e:
                        verdicts = {'debug': None}
                        v.engine_errors.append(f'judge failed for {r["name"]}/{o["name"]}: {e}')
                    reproduced = any(bool(x) for x in verdicts.values())
                    if not reproduced and 'hash iteration order' in json.dumps(r.get('bounds', {})):
                        # the violation may need a particular hash iteration order: every new process draws new RandomState seeds
                        for _attempt in range(16):
                            out_k = replay_call(rep['kernel'], rep['args'], 'debug')
                            v.traces += 1
                            try:
                                vk = judge(o, rep, out_k)
                            except Exception:
                                vk = None
                            if vk:
                                outs['debug_retry'] = out_k
                                verdicts['debug_retry'] = vk
                                reproduced = True
                                break
                    # a judge may refine the role of the failing input (used as the known-findings key)
                    for x in verdicts.values():
                        if isinstance(x, str):
                            role = x
                    rdir = os.path.join(VERIF, 'evidence', 'replays', pid)
                    os.makedirs(rdir, exist_ok=True)
                    h = hashlib.sha256(json.dumps([r['name'], o['name'], rep], sort_keys=True, default=str).encode()).hexdigest()[:10]
                    path = os.path.join(rdir, re.sub(r'[^\w.-]+', '_', r['name'])[:60] + '-' + h + '.json')
                    with open(path, 'w') as fjs:
                        json.dump({'property': pid, 'unit': r['name'], 'obligation': o['name'], 'detail': o.get('detail'), 'model': o.get('model'), 'replay': rep,
                                   'real_build_output': outs, 'reproduced': reproduced,
                                   'how_to_replay': f'echo <replay.args json> | {BUILD}/replay-target/debug/engeom-replay {rep["kernel"]}'}, fjs, indent=1, default=str)
                if reproduced:
                    seen_viol.add(key_role)
                    key = f'M:{r["name"].split("[")[0]}:{role}'
                    what = f'{o["name"]}: {o.get("detail", "")} [unit {r["name"]}] model {json.dumps(o.get("model"), default=str)[:300]}'
                    v.violation(key, what, path)
                    v.sample({'engine': 'M', 'unit': r['name'], 'violation': o['name'], 'model': o.get('model')})
                elif reproduced is False:
                    # model did not reproduce on the real build: rounding-level or an encoding problem -> not a violation, undecided
                    v.undecided.append({'unit': r['name'], 'obligation': o['name'], 'why': 'solver model did not reproduce on the real build (kept as ' + str(path) + ')'})
                    unit.setdefault('not_reproduced', 0)
                    unit['not_reproduced'] += 1
                else:
                    v.undecided.append({'unit': r['name'], 'obligation': o['name'], 'why': 'violation candidate without replay: ' + o.get('detail', '')[:200] + ' model ' + json.dumps(o.get('model'), default=str)[:200]})
        unit['obligations'] = counts
        for smp in r.get('samples', [])[:1]:
            v.sample({'engine': 'M', 'unit': r['name'], **smp})
        v.units.append(unit)
