"""Value model of engine M: scalars (python numbers or z3 terms), aggregates, containers, references,
defining constraints for / sqrt, the algebraic angle abstraction, non-finite poison."""
import math, re
from fractions import Fraction
import z3


class Unsupported(Exception):
    pass


class Panic(Exception):
    """a panic path of the analysed code"""
    pass


class Budget(Exception):
    """loop budget exhausted on a feasible path"""
    pass


class Abort(Exception):
    """path abandoned (infeasible)"""
    pass


# ---------------------------------------------------------------------------------- structure
class Ref:
    __slots__ = ('get', 'set', 'tag')

    def __init__(self, get, set_=None, tag=None):
        self.get, self.set, self.tag = get, set_, tag

    @staticmethod
    def to(v):
        box = [v]
        return Ref(lambda: box[0], lambda x: box.__setitem__(0, x))


class VecV:
    """Vec / slice / array-by-reference with concrete length.  A Vec collected from an unordered source (hash container)
    stays an unordered bag until its order is observed; then the order is forked symbolically (HOOKS['permute'])."""
    __slots__ = ('_items', 'unordered')

    def __init__(self, items=None, unordered=False):
        self._items = list(items or [])
        self.unordered = unordered and len(self._items) > 1

    @property
    def items(self):
        if self.unordered:
            self.unordered = False
            self._items[:] = HOOKS['permute'](self._items)
        return self._items

    @items.setter
    def items(self, v):
        self._items = v
        self.unordered = False

    def __repr__(self):
        return 'Vec' + repr(self._items)


class SliceV:
    """a sub-slice view"""
    __slots__ = ('base', 'lo', 'hi')

    def __init__(self, base, lo, hi):
        self.base, self.lo, self.hi = base, lo, hi

    @property
    def items(self):
        return self.base.items[self.lo:self.hi]


class MapV:
    """HashMap / HashSet: unordered entries; iteration order is a symbolic permutation drawn at iteration time"""
    __slots__ = ('entries', 'is_set')

    def __init__(self, entries=None, is_set=False):
        self.entries = list(entries or [])   # [(key, value)]
        self.is_set = is_set


class En:
    """enum value (ty = name of the enum when known; needed where two enums share a variant name)"""
    __slots__ = ('v', 'f', 'ty')

    def __init__(self, variant, fields=(), ty=None):
        self.v, self.f, self.ty = variant, list(fields), ty

    def __repr__(self):
        return f'{self.v}{self.f}'


class Struct(list):
    """named struct (fields by position); `name` only for diagnostics/dispatch"""

    def __init__(self, name, fields):
        super().__init__(fields)
        self.name = name


class Closure:
    __slots__ = ('span', 'captures')

    def __init__(self, span, captures):
        self.span, self.captures = span, captures


class RangeV:
    __slots__ = ('a', 'b', 'incl', 'done')

    def __init__(self, a, b, incl=False):
        self.a, self.b, self.incl, self.done = a, b, incl, False


class BoxCell:
    __slots__ = ('payload',)

    def __init__(self):
        self.payload = None


class IterV:
    """a materialised iterator: list of items still to be yielded (items may be lazily produced by thunks)"""
    __slots__ = ('items', 'pos', 'kind')

    def __init__(self, items, kind='iter'):
        self.items, self.pos, self.kind = list(items), 0, kind


class DynV:
    """trait object: concrete type name recorded at the unsizing cast"""
    __slots__ = ('ty', 'val')

    def __init__(self, ty, val):
        self.ty, self.val = ty, val


class PyFn:
    """driver-supplied callable standing for a closure / fn value (e.g. an abstract per-item predicate)"""
    __slots__ = ('fn',)

    def __init__(self, fn):
        self.fn = fn


class Opaque:
    """value whose content is irrelevant (formatted strings, errors)"""
    __slots__ = ('what',)

    def __init__(self, what=''):
        self.what = what

    def __repr__(self):
        return f'<opaque {self.what}>'


class Poison:
    """non-finite f64: kind in nan | inf | nonfinite"""
    __slots__ = ('kind', 'why')

    def __init__(self, kind, why):
        self.kind, self.why = kind, why

    def __repr__(self):
        return f'<{self.kind}: {self.why}>'


def deep_copy(v):
    if isinstance(v, Struct):
        return Struct(v.name, [deep_copy(x) for x in v])
    if isinstance(v, list):
        if type(v) is not list:
            return type(v)([deep_copy(x) for x in v])      # list subclasses without extra state (SIMD lanes)
        return [deep_copy(x) for x in v]
    if isinstance(v, En):
        return En(v.v, [deep_copy(x) for x in v.f], v.ty)
    return v


# ---------------------------------------------------------------------------------- scalars
MODE = ['sym']       # 'sym' | 'conc'


def is_sym(x):
    return isinstance(x, z3.ExprRef)


def fconst(text):
    """f64 literal from MIR text"""
    if MODE[0] == 'conc':
        return float(text)
    if text in ('inf', '+inf'):
        return Poison('inf', 'literal inf')
    if text == '-inf':
        return Poison('inf', 'literal -inf')
    if text.lower() == 'nan':
        return Poison('nan', 'literal NaN')
    return z3.RealVal(str(Fraction(float(text)))) if USE_EXACT_LITERALS else z3.RealVal(text)


USE_EXACT_LITERALS = False   # decimal literals are read as written (1.0E-10 = 10^-10)


def zsimp(x):
    return z3.simplify(x) if is_sym(x) else x


def as_fraction(x):
    """concrete rational value of x or None"""
    if isinstance(x, bool):
        return None
    if isinstance(x, (int, Fraction)):
        return Fraction(x)
    if isinstance(x, float):
        return Fraction(x) if math.isfinite(x) else None
    if is_sym(x):
        x = z3.simplify(x)
        if z3.is_rational_value(x):
            return Fraction(x.numerator_as_long(), x.denominator_as_long())
        if z3.is_int_value(x):
            return Fraction(x.as_long())
    return None


def is_zero(x):
    f = as_fraction(x)
    return f is not None and f == 0


class Ctx:
    """per-path symbolic context: defining constraints, known-positive facts, fresh names"""

    def __init__(self):
        self.defn = {}        # fresh var name -> [constraints]
        self.known_pos = []   # z3 terms declared > 0 by the driver
        self.counter = 0
        self.angle_atoms = {}
        self.events = []      # taint / idealisation events on this path
        self.sqrt_args = {}   # sqrt var name -> radicand
        self._nm = {}
        self._keep = []

    def fresh(self, prefix, sort='real'):
        self.counter += 1
        n = f'{prefix}!{self.counter}'
        return z3.Real(n) if sort == 'real' else z3.Int(n) if sort == 'int' else z3.Bool(n)

    def add_def(self, v, cs):
        self.defn[str(v)] = cs

    def _names(self, e):
        """names of defined (fresh) variables occurring in e; tokenised from the s-expression (fast), cached per term"""
        k = e.get_id()
        r = self._nm.get(k)
        if r is None:
            toks = set(_TOKEN.findall(e.sexpr()))
            r = [t for t in toks if t in self.defn]
            self._nm[k] = r
            self._keep.append(e)
        return r

    def cone(self, exprs):
        """defining constraints transitively relevant to exprs"""
        if not self.defn:
            return []
        seen = set()
        out = []
        todo = [e for e in exprs if is_sym(e)]
        while todo:
            e = todo.pop()
            for v in self._names(e):
                if v not in seen:
                    seen.add(v)
                    out += self.defn[v]
                    todo += self.defn[v]
        return out


_TOKEN = re.compile(r'[A-Za-z_][A-Za-z0-9_.!:|-]*')


CTX = [Ctx()]


def ctx():
    return CTX[0]


def known_pos(x):
    f = as_fraction(x)
    if f is not None:
        return f > 0
    if not is_sym(x):
        return False
    xs = zsimp(x)
    return any(z3.eq(xs, k) for k in ctx().known_pos)


def f_abs(x):
    if isinstance(x, Poison):
        return x
    if isinstance(x, Angle):
        x = x.shadow
    if not is_sym(x):
        return abs(x)
    if known_pos(x):
        return zsimp(x)
    if known_pos(zsimp(-x)):
        return zsimp(-x)
    return z3.If(x >= 0, x, -x)


def num(x):
    """scalar view of a value (angles collapse to their radian shadow)"""
    if isinstance(x, Angle):
        return x.shadow
    return x


# the executor installs these hooks (they need path forking)
HOOKS = {'branch': None, 'choose': None, 'permute': None}


def branch(c):
    return HOOKS['branch'](c)


def _factors(t):
    t = z3.simplify(t)
    if z3.is_app(t) and t.decl().kind() == z3.Z3_OP_MUL:
        out = []
        for ch in t.children():
            out += _factors(ch)
        return out
    return [t]


def _cancel(a, b):
    """a / b when every factor of b occurs among the factors of a (b is known non-zero here): exact cancellation"""
    if not (is_sym(a) and is_sym(b)):
        return None
    fa, fb = _factors(a), _factors(b)
    rest = list(fa)
    for f in fb:
        hit = None
        for i, g in enumerate(rest):
            if z3.eq(f, g):
                hit = i
                break
        if hit is None:
            return None
        rest.pop(hit)
    if not rest:
        return z3.RealVal(1)
    r = rest[0]
    for g in rest[1:]:
        r = r * g
    return zsimp(r)


def f_div(a, b):
    a, b = num(a), num(b)
    if isinstance(a, Poison) or isinstance(b, Poison):
        return Poison('nonfinite', 'division with non-finite operand')
    if MODE[0] == 'conc':
        try:
            return a / b
        except ZeroDivisionError:
            return float('nan') if a == 0 else math.copysign(float('inf'), a) * (1 if math.copysign(1, b) > 0 else -1)
    fa, fb = as_fraction(a), as_fraction(b)
    if fb is not None and fb == 0:
        return Poison('nan' if (fa is not None and fa == 0) else 'nonfinite', 'division by zero')
    if fa is not None and fb is not None:
        return z3.RealVal(str(fa / fb))
    if is_sym(b) and not (known_pos(b) or known_pos(zsimp(-b))) and branch(sqrt_aware_eq0(b)):
        ctx().events.append('division by zero')
        if fa is not None and fa != 0:
            return Poison('inf', 'division by zero')
        if fa is not None and fa == 0:
            return Poison('nan', '0/0')
        if is_sym(a) and branch(a == 0):
            return Poison('nan', '0/0')
        return Poison('inf', 'division by zero')
    if fa is not None and fa == 0:
        return z3.RealVal(0)
    a, b = zsimp(a), zsimp(b)
    if is_sym(a) and is_sym(b) and z3.eq(a, b):
        return z3.RealVal(1)
    if is_sym(a) and is_sym(b) and z3.eq(zsimp(-a), b):
        return z3.RealVal(-1)
    if fb is not None:
        return a * z3.RealVal(str(1 / fb))
    c = _cancel(a, b)
    if c is not None:
        return c
    q = ctx().fresh('q')
    ctx().add_def(q, [q * b == a])
    return q


def sqrt_aware_eq0(b):
    """b == 0, posed on the radicand when b is a square-root variable"""
    if is_sym(b) and z3.is_const(b) and str(b) in ctx().sqrt_args:
        return ctx().sqrt_args[str(b)] == 0
    return b == 0


def _sqrt_side(a, b):
    """if a is a sqrt variable and b a non-negative constant return (radicand, b*b)"""
    if is_sym(a) and z3.is_const(a) and str(a) in ctx().sqrt_args:
        fb = as_fraction(b)
        if fb is not None and fb >= 0:
            return ctx().sqrt_args[str(a)], z3.RealVal(str(fb * fb))
        if fb is None and is_sym(b) and known_pos(b):
            return ctx().sqrt_args[str(a)], b * b
        # two square roots: compare the radicands (both sides are >= 0)
        if fb is None and is_sym(b) and z3.is_const(b) and str(b) in ctx().sqrt_args:
            return ctx().sqrt_args[str(a)], ctx().sqrt_args[str(b)]
    return None


def perfect_square_root(x):
    """sqrt of a single monomial c*v1^2*v2^2.. with c a rational square: sqrt(c)*|v1|*|v2|..  (exact)"""
    if not is_sym(x):
        return None
    xs = z3.simplify(x, som=True)
    if z3.is_const(xs) and xs.decl().kind() == z3.Z3_OP_UNINTERPRETED:
        return None
    if not (z3.is_app(xs) and xs.decl().kind() == z3.Z3_OP_MUL):
        return None
    coeff = Fraction(1)
    counts = {}
    terms = {}
    for ch in xs.children():
        f = as_fraction(ch)
        if f is not None:
            coeff *= f
        elif z3.is_const(ch) and ch.decl().kind() == z3.Z3_OP_UNINTERPRETED:
            counts[str(ch)] = counts.get(str(ch), 0) + 1
            terms[str(ch)] = ch
        else:
            return None
    if coeff <= 0 or any(c % 2 for c in counts.values()):
        return None
    rn, rd = math.isqrt(coeff.numerator), math.isqrt(coeff.denominator)
    if rn * rn != coeff.numerator or rd * rd != coeff.denominator:
        if not counts:
            return None
        # irrational constant factor: one algebraic constant rt > 0 with rt*rt = coeff (shared per context), times the monomial
        roots = ctx().__dict__.setdefault('root_consts', {})
        r = roots.get(coeff)
        if r is None:
            r = ctx().fresh('rt')
            ctx().add_def(r, [r > 0, r * r == z3.RealVal(str(coeff))])
            roots[coeff] = r
    else:
        r = z3.RealVal(str(Fraction(rn, rd)))
    for n, c in counts.items():
        for _ in range(c // 2):
            r = r * f_abs(terms[n])
    return zsimp(r)


def f_sqrt(x, nonneg=False):
    x = num(x)
    if isinstance(x, Poison):
        return x
    if MODE[0] == 'conc':
        return math.sqrt(x) if x >= 0 else float('nan')
    f = as_fraction(x)
    if f is not None:
        if f < 0:
            return Poison('nan', 'sqrt of negative')
        r = Fraction(math.isqrt(f.numerator), 1) / Fraction(math.isqrt(f.denominator), 1)
        if r * r == f:
            return z3.RealVal(str(r))
    r = perfect_square_root(x)
    if r is not None:
        return r
    if not nonneg and branch(x < 0):
        ctx().events.append('sqrt of negative')
        return Poison('nan', 'sqrt of a negative value')
    s = ctx().fresh('sq')
    ctx().add_def(s, [s >= 0, s * s == x])
    ctx().sqrt_args[str(s)] = x
    return s


def f_powi(x, n):
    x = num(x)
    if isinstance(x, Poison):
        return x
    n = int(as_fraction(n))
    if n == 0:
        return 1.0 if MODE[0] == 'conc' else z3.RealVal(1)
    r = x
    for _ in range(abs(n) - 1):
        r = r * x
    if n < 0:
        return f_div(1.0 if MODE[0] == 'conc' else z3.RealVal(1), r)
    return r


def norm_of(v):
    v = [num(c) for c in v]
    if any(isinstance(c, Poison) for c in v):
        return Poison('nan' if any(isinstance(c, Poison) and c.kind == 'nan' for c in v) else 'nonfinite', 'norm of non-finite vector')
    nz = [c for c in v if not is_zero(c)]
    if len(nz) == 0:
        return 0.0 if MODE[0] == 'conc' else z3.RealVal(0)
    if len(nz) == 1:
        return f_abs(nz[0])
    return f_sqrt(sum((c * c for c in nz[1:]), nz[0] * nz[0]), nonneg=True)


def f_min(a, b):
    a, b = num(a), num(b)
    if isinstance(a, Poison) or isinstance(b, Poison):
        # f64::min ignores NaN; conservative: unsupported unless the other is fine and poison is nan
        if isinstance(a, Poison) and a.kind == 'nan' and not isinstance(b, Poison):
            return b
        if isinstance(b, Poison) and b.kind == 'nan' and not isinstance(a, Poison):
            return a
        raise Unsupported('min with non-finite value')
    if not is_sym(a) and not is_sym(b):
        return min(a, b)
    return z3.If(a <= b, a, b)


def f_max(a, b):
    a, b = num(a), num(b)
    if isinstance(a, Poison) or isinstance(b, Poison):
        if isinstance(a, Poison) and a.kind == 'nan' and not isinstance(b, Poison):
            return b
        if isinstance(b, Poison) and b.kind == 'nan' and not isinstance(a, Poison):
            return a
        raise Unsupported('max with non-finite value')
    if not is_sym(a) and not is_sym(b):
        return max(a, b)
    return z3.If(a >= b, a, b)


# ---------------------------------------------------------------------------------- angles
PI_F = Fraction(math.pi)                      # the f64 constant PI, identified with pi (idealisation, stated in evidence)
PI_Z = z3.RealVal(str(PI_F))


class Atom:
    """base angle theta with (c, s) = (cos theta, sin theta) and a radian shadow"""
    __slots__ = ('name', 'c', 's', 'shadow')

    def __init__(self, name, c, s, shadow):
        self.name, self.c, self.s, self.shadow = name, c, s, shadow


class Angle:
    """formal angle: pi_coeff*pi + sum k_i*atom_i  (+ whole turns that trigonometry ignores); shadow = radian value as a real term"""
    __slots__ = ('pi', 'terms', 'shadow')

    def __init__(self, pi=Fraction(0), terms=None, shadow=None):
        self.pi = Fraction(pi)
        self.terms = dict(terms or {})     # atom name -> (Atom, integer coefficient)
        self.shadow = shadow if shadow is not None else z3.RealVal(str(self.pi * PI_F))

    def __repr__(self):
        return f'Angle({self.pi}pi + ' + ' + '.join(f'{k}*{n}' for n, (a, k) in self.terms.items()) + ')'

    @staticmethod
    def of_pi(frac):
        return Angle(frac)

    @staticmethod
    def free(name, lo=None, hi=None):
        """a free angle parameter (any real), with its cos/sin pair on the unit circle"""
        c, s, th = z3.Real(name + '.cos'), z3.Real(name + '.sin'), z3.Real(name)
        facts = [c * c + s * s == 1]
        if lo is not None and hi is not None:
            # sign of cos/sin per quadrant of the radian value, and exact values on the axes (ties the shadow to the pair)
            half = PI_F / 2
            k0, k1 = math.floor(Fraction(lo) / half) - 1, math.ceil(Fraction(hi) / half) + 1
            sg = [(1, 1), (-1, 1), (-1, -1), (1, -1)]
            ax = [(1, 0), (0, 1), (-1, 0), (0, -1)]
            for k in range(k0, k1 + 1):
                a_, b_ = z3.RealVal(str(k * half)), z3.RealVal(str((k + 1) * half))
                sc, ss = sg[k % 4]
                facts.append(z3.Implies(z3.And(th > a_, th < b_), z3.And(c * sc > 0, s * ss > 0)))
                xc, xs = ax[k % 4]
                facts.append(z3.Implies(th == a_, z3.And(c == xc, s == xs)))
        ctx().add_def(c, facts)
        ctx().add_def(s, facts)
        ctx().add_def(th, facts)
        a = Atom(name, c, s, th)
        ctx().angle_atoms[name] = a
        return Angle(0, {name: (a, 1)}, th)

    def add(self, o, sign=1):
        t = dict(self.terms)
        for n, (a, k) in o.terms.items():
            k2 = t.get(n, (a, 0))[1] + sign * k
            if k2 == 0:
                t.pop(n, None)
            else:
                t[n] = (a, k2)
        sh = zsimp(self.shadow + o.shadow) if sign == 1 else zsimp(self.shadow - o.shadow)
        return Angle(self.pi + sign * o.pi, t, sh)

    def neg(self):
        return Angle(-self.pi, {n: (a, -k) for n, (a, k) in self.terms.items()}, zsimp(-self.shadow))

    def scale(self, q):
        q = Fraction(q)
        if any((k * q).denominator != 1 for (_a, k) in self.terms.values()):
            return None
        return Angle(self.pi * q, {n: (a, int(k * q)) for n, (a, k) in self.terms.items()}, zsimp(self.shadow * z3.RealVal(str(q))))

    def with_turns(self, kint):
        """add kint whole turns (kint: z3 Int term or int); trigonometry is unchanged"""
        a = Angle(self.pi, self.terms, zsimp(self.shadow + z3.ToReal(kint) * z3.RealVal(str(2 * PI_F))) if is_sym(kint) else zsimp(self.shadow + z3.RealVal(str(2 * PI_F * kint))))
        return a

    def cos_sin(self):
        C, S = pi_cos_sin(self.pi)
        for n, (a, k) in sorted(self.terms.items()):
            ck, sk = multiple_angle(a.c, a.s, k)
            C, S = zsimp(C * ck - S * sk), zsimp(S * ck + C * sk)
        return C, S


def pi_cos_sin(fr):
    """exact cos/sin of fr*pi for multiples of pi/2 (pi/4 via an algebraic sqrt(1/2))"""
    fr = Fraction(fr) % 2
    q = fr * 2
    if q.denominator == 1:
        k = int(q) % 4
        return [(z3.RealVal(1), z3.RealVal(0)), (z3.RealVal(0), z3.RealVal(1)), (z3.RealVal(-1), z3.RealVal(0)), (z3.RealVal(0), z3.RealVal(-1))][k]
    q4 = fr * 4
    if q4.denominator == 1:
        h = ctx().fresh('rt2h')
        ctx().add_def(h, [h > 0, 2 * h * h == 1])
        k = int(q4) % 8
        return {1: (h, h), 3: (-h, h), 5: (-h, -h), 7: (h, -h)}[k]
    # generic constant angle: an atom tied to its numeric value
    name = f'const{fr}'
    if name not in ctx().angle_atoms:
        c, s = ctx().fresh('cc'), ctx().fresh('cs')
        ctx().add_def(c, [c * c + s * s == 1])
        ctx().add_def(s, [c * c + s * s == 1])
        ctx().angle_atoms[name] = Atom(name, c, s, z3.RealVal(str(fr * PI_F)))
    a = ctx().angle_atoms[name]
    return a.c, a.s


def multiple_angle(c, s, k):
    if k == 0:
        return z3.RealVal(1), z3.RealVal(0)
    if k < 0:
        ck, sk = multiple_angle(c, s, -k)
        return ck, -sk
    C, S = c, s
    for _ in range(k - 1):
        C, S = C * c - S * s, S * c + C * s
    return C, S


def to_angle(x):
    """coerce a scalar to an Angle"""
    if isinstance(x, Angle):
        return x
    if isinstance(x, Poison):
        raise Unsupported('angle from non-finite value')
    f = as_fraction(x)
    if f is not None:
        r = f / PI_F
        if r.denominator <= 8:
            return Angle(r)
        # a numeric constant close to a simple multiple of pi written as a decimal literal
        for den in (1, 2, 4):
            k = round(float(f) / math.pi * den)
            if abs(float(f) - k * math.pi / den) < 1e-12 * max(1.0, abs(float(f))):
                return Angle(Fraction(k, den), None, z3.RealVal(str(f)))
        name = f'k{f}'
        if name not in ctx().angle_atoms:
            c, s = ctx().fresh('kc'), ctx().fresh('ks')
            ctx().add_def(c, [c * c + s * s == 1])
            ctx().add_def(s, [c * c + s * s == 1])
            ctx().angle_atoms[name] = Atom(name, c, s, z3.RealVal(str(f)))
        a = ctx().angle_atoms[name]
        return Angle(0, {name: (a, 1)}, a.shadow)
    # arbitrary symbolic real used as an angle: one atom per distinct term
    xs = zsimp(x)
    name = 'expr:' + xs.sexpr()
    if name not in ctx().angle_atoms:
        c, s = ctx().fresh('ec'), ctx().fresh('es')
        ctx().add_def(c, [c * c + s * s == 1])
        ctx().add_def(s, [c * c + s * s == 1])
        ctx().angle_atoms[name] = Atom(name, c, s, xs)
    a = ctx().angle_atoms[name]
    return Angle(0, {name: (a, 1)}, xs)


def new_inverse_trig_atom(kind, c, s, lo, hi, extra):
    """atom produced by atan2/asin/acos: (c, s) given as terms, shadow theta in [lo, hi] with quadrant facts"""
    th = ctx().fresh(kind)
    cv, sv = ctx().fresh(kind + 'c'), ctx().fresh(kind + 's')
    half = z3.RealVal(str(PI_F / 2))
    facts = [cv == c, sv == s, cv * cv + sv * sv == 1, th >= lo, th <= hi,
             # quadrant facts linking the shadow to (cos, sin)
             (th > 0) == z3.Or(sv > 0, z3.And(sv == 0, cv < 0, hi >= PI_Z)) if kind == 'atan2' else z3.BoolVal(True),
             (th == 0) == z3.And(sv == 0, cv > 0) if kind != 'acos' else (th == 0) == (cv == 1),
             z3.Implies(cv > 0, z3.And(th > -half, th < half)),
             z3.Implies(cv < 0, z3.Or(th > half, th < -half)),
             z3.Implies(cv == 0, z3.Or(th == half, th == -half)),
             z3.Implies(sv > 0, th > 0), z3.Implies(sv < 0, th < 0),
             ] + extra(th, cv, sv)
    for v in (th, cv, sv):
        ctx().add_def(v, facts)
    name = str(th)
    a = Atom(name, cv, sv, th)
    ctx().angle_atoms[name] = a
    return Angle(0, {name: (a, 1)}, th)


def f_atan2(y, x):
    y, x = num(y), num(x)
    if isinstance(y, Poison) or isinstance(x, Poison):
        return Poison('nan', 'atan2 of non-finite')
    if MODE[0] == 'conc':
        return math.atan2(y, x)
    fy, fx = as_fraction(y), as_fraction(x)
    if fy is not None and fx is not None:
        if fy == 0 and fx >= 0:
            return Angle(0)
        if fy == 0:
            return Angle(1)
        if fx == 0:
            return Angle(Fraction(1, 2) if fy > 0 else Fraction(-1, 2))
    if branch(z3.And(x == 0, y == 0)):
        return Angle(0)
    # atan2 is a function: the same arguments give the same angle (one atom per distinct argument pair on a path)
    key = 'atan2:' + zsimp(y).sexpr() + '|' + zsimp(x).sexpr() if is_sym(y) or is_sym(x) else None
    if key and key in ctx().angle_atoms:
        a = ctx().angle_atoms[key]
        return Angle(0, {a.name: (a, 1)}, a.shadow)
    r = norm_of([x, y])
    if is_sym(r):
        ctx().known_pos.append(zsimp(r))
    c, s = f_div(x, r), f_div(y, r)
    ang = new_inverse_trig_atom('atan2', c, s, -PI_Z, PI_Z, lambda th, cv, sv: [th > -PI_Z])
    if key:
        ctx().angle_atoms[key] = list(ang.terms.values())[0][0]
    return ang


def f_asin(q):
    q = num(q)
    if isinstance(q, Poison):
        return q
    if MODE[0] == 'conc':
        return math.asin(q) if -1 <= q <= 1 else float('nan')
    fq = as_fraction(q)
    if fq is not None and fq in (1, 0, -1):
        return Angle({1: Fraction(1, 2), 0: Fraction(0), -1: Fraction(-1, 2)}[int(fq)])
    if branch(z3.Or(q > 1, q < -1)):
        ctx().events.append('asin out of range')
        return Poison('nan', 'asin outside [-1, 1]')
    c = f_sqrt(1 - q * q)
    half = z3.RealVal(str(PI_F / 2))
    return new_inverse_trig_atom('asin', c, q, -half, half, lambda th, cv, sv: [])


def f_acos(q):
    q = num(q)
    if isinstance(q, Poison):
        return q
    if MODE[0] == 'conc':
        return math.acos(q) if -1 <= q <= 1 else float('nan')
    fq = as_fraction(q)
    if fq is not None and fq in (1, 0, -1):
        return Angle({1: Fraction(0), 0: Fraction(1, 2), -1: Fraction(1)}[int(fq)])
    if branch(z3.Or(q > 1, q < -1)):
        ctx().events.append('acos out of range')
        return Poison('nan', 'acos outside [-1, 1]')
    s = f_sqrt(1 - q * q)
    return new_inverse_trig_atom('acos', q, s, z3.RealVal(0), PI_Z, lambda th, cv, sv: [])


def f_cos(a):
    if isinstance(a, Poison):
        return Poison('nan', 'cos of non-finite')
    if MODE[0] == 'conc':
        return math.cos(a)
    return to_angle(a).cos_sin()[0]


def f_sin(a):
    if isinstance(a, Poison):
        return Poison('nan', 'sin of non-finite')
    if MODE[0] == 'conc':
        return math.sin(a)
    return to_angle(a).cos_sin()[1]


def f_rem(a, m):
    """IEEE fmod (truncated quotient): a = k*m + r, |r| < |m|, sign(r) = sign(a)"""
    if isinstance(a, Poison) or isinstance(m, Poison):
        return Poison('nan', 'fmod of non-finite')
    if MODE[0] == 'conc':
        return math.fmod(a, m)
    av, mv = num(a), num(m)
    fm = as_fraction(mv)
    if fm is not None and fm == 0:
        return Poison('nan', 'fmod by zero')
    if fm is None:
        # symbolic modulus: a = k*m + r with an integer quotient (non-linear, but the quotient is small in the kernels in scope)
        if not (known_pos(mv)):
            if branch(mv == 0):
                return Poison('nan', 'fmod by zero')
        k = ctx().fresh('k', 'int')
        r = ctx().fresh('rem')
        am = f_abs(mv)
        facts = [av == z3.ToReal(k) * am + r, z3.Implies(av >= 0, z3.And(r >= 0, r < am)), z3.Implies(av < 0, z3.And(r <= 0, r > -am)), k >= -64, k <= 64]
        ctx().add_def(r, facts)
        ctx().add_def(k, facts)
        ctx().events.append('fmod by a symbolic modulus: quotient assumed within [-64, 64]')
        return r
    fa = as_fraction(av)
    if fa is not None:
        k = int(fa / fm)
        r = fa - k * fm
        if isinstance(a, Angle) or isinstance(m, Angle):
            return to_angle(a).with_turns(-k) if fm == 2 * PI_F else to_angle(z3.RealVal(str(r)))
        return z3.RealVal(str(r))
    # fmod is a function: one (k, r) pair per distinct (argument, modulus) on a path
    mkey = 'fmod:' + zsimp(av).sexpr() + '|' + str(fm)
    if mkey in ctx().angle_atoms:
        r = ctx().angle_atoms[mkey]
    else:
        k = ctx().fresh('k', 'int')
        mz = z3.RealVal(str(abs(fm)))
        r = ctx().fresh('rem')
        facts = [av == z3.ToReal(k) * mz + r, z3.Implies(av >= 0, z3.And(r >= 0, r < mz)), z3.Implies(av < 0, z3.And(r <= 0, r > -mz))]
        ctx().add_def(r, facts)
        ctx().add_def(k, facts)
        ctx().angle_atoms[mkey] = r
    if (isinstance(a, Angle) or isinstance(m, Angle)) and abs(fm) == 2 * PI_F:
        ang = to_angle(a)
        return Angle(ang.pi, ang.terms, r)       # same direction, shadow reduced by whole turns
    return r


# ---------------------------------------------------------------------------------- generic arithmetic on f64-like values
def f_add(a, b):
    if isinstance(a, Poison) or isinstance(b, Poison):
        return Poison('nonfinite', 'arithmetic on non-finite value')
    if isinstance(a, Angle) or isinstance(b, Angle):
        return to_angle(a).add(to_angle(b), 1)
    return a + b


def f_sub(a, b):
    if isinstance(a, Poison) or isinstance(b, Poison):
        return Poison('nonfinite', 'arithmetic on non-finite value')
    if isinstance(a, Angle) or isinstance(b, Angle):
        return to_angle(a).add(to_angle(b), -1)
    return a - b


def f_neg(a):
    if isinstance(a, Poison):
        return a
    if isinstance(a, Angle):
        return a.neg()
    return -a


def f_mul(a, b):
    if isinstance(a, Poison) or isinstance(b, Poison):
        return Poison('nonfinite', 'arithmetic on non-finite value')
    if isinstance(a, Angle) or isinstance(b, Angle):
        ang, k = (a, b) if isinstance(a, Angle) else (b, a)
        if isinstance(k, Angle):
            return ang.shadow * k.shadow
        fk = as_fraction(k)
        if fk is not None:
            r = ang.scale(fk)
            if r is not None:
                return r
        return ang.shadow * k
    return a * b


def f_cmp(op, a, b):
    """comparison with IEEE semantics for NaN poison"""
    if isinstance(a, Poison) or isinstance(b, Poison):
        p = a if isinstance(a, Poison) else b
        if p.kind == 'nan':
            return op == 'Ne'
        raise Unsupported(f'comparison with a non-finite value ({p.why})')
    a, b = num(a), num(b)
    if MODE[0] == 'sym':
        sa = _sqrt_side(a, b)
        if sa is not None:
            a, b = sa
        else:
            sb = _sqrt_side(b, a)
            if sb is not None:
                b, a = sb
    if op == 'Lt':
        return a < b
    if op == 'Le':
        return a <= b
    if op == 'Gt':
        return a > b
    if op == 'Ge':
        return a >= b
    if op == 'Eq':
        return a == b
    if op == 'Ne':
        return a != b
    raise Unsupported('cmp ' + op)
