"""MIR dump generation, parsing and name resolution for engine M.

The dump is produced by `cargo +nightly rustc -- -Zunpretty=mir` on /repo's working tree on every run
(cached by the SHA-256 of the sources it was generated from)."""
import hashlib, os, re, subprocess, sys, time

REPO = os.environ.get('VERIF_REPO', '/repo')


def strip_generics(n):
    out = ''
    d = 0
    for i, ch in enumerate(n):
        if ch == '<':
            d += 1
        elif ch == '>' and (i == 0 or n[i - 1] != '-'):
            d -= 1
        elif d == 0:
            out += ch
    return out


def split_top(s, sep=','):
    """split on sep at bracket depth 0"""
    out, d, cur = [], 0, ''
    i = 0
    n = len(s)
    while i < n:
        ch = s[i]
        if ch in '(<[{':
            d += 1
        elif ch in ')]}':
            d -= 1
        elif ch == '>' and (i == 0 or s[i - 1] not in '-='):
            d -= 1
        if ch == sep and d == 0:
            out.append(cur.strip())
            cur = ''
        else:
            cur += ch
        i += 1
    if cur.strip():
        out.append(cur.strip())
    return out


_ALIASES = {'Point3': 'OPoint', 'Point2': 'OPoint', 'Point': 'OPoint', 'UnitVec3': 'Unit', 'UnitVec2': 'Unit', 'Vector3': 'Matrix', 'Vector2': 'Matrix', 'SVector': 'Matrix',
            'SurfacePoint3': 'SurfacePoint', 'SurfacePoint2': 'SurfacePoint', 'Iso3': 'Isometry', 'Iso2': 'Isometry'}

_REV_ALIASES = {'Isometry': ['Iso3', 'Iso2'], 'OPoint': ['Point3', 'Point2'], 'Unit': ['UnitVec3', 'UnitVec2'], 'Matrix': ['Vector3', 'Vector2'], 'SurfacePoint': ['SurfacePoint3', 'SurfacePoint2']}


class MirFn:
    def __init__(self, name, sig, ret, body, line):
        self.name, self.sig, self.ret, self.body, self.line = name, sig, ret, body, line
        self.params = []          # [(local, type)]
        for p in split_top(sig):
            m = re.match(r'(?:mut )?(_\d+): (.*)', p, re.S)
            if m:
                self.params.append((m.group(1), m.group(2).strip()))
        self._blocks = None
        self._locals = None
        self.sha = hashlib.sha256(body.encode()).hexdigest()[:16]

    @property
    def locals(self):
        if self._locals is None:
            self._locals = {}
            for m in re.finditer(r'^\s*let (?:mut )?(_\d+): (.*);$', self.body, re.M):
                self._locals[m.group(1)] = m.group(2)
            for l, t in self.params:
                self._locals[l] = t
        return self._locals

    @property
    def blocks(self):
        if self._blocks is None:
            self._blocks = {}
            for b in re.finditer(r'^    (bb\d+)(?: \(cleanup\))?: \{\n(.*?)^    \}', self.body, re.S | re.M):
                stmts = []
                cur = ''
                for line in b.group(2).split('\n'):
                    line = line.strip()
                    if not line:
                        continue
                    cur = (cur + ' ' + line) if cur else line
                    if cur.endswith(';'):
                        stmts.append(cur[:-1])
                        cur = ''
                if cur:
                    stmts.append(cur)
                self._blocks[b.group(1)] = stmts
        return self._blocks


class Mir:
    def __init__(self, text, repo=REPO):
        self.repo = repo
        self.text = text
        self.sha = hashlib.sha256(text.encode()).hexdigest()
        self.fns = {}
        self.order = []
        self.consts = {}          # short name -> [(fullname, type, valuetext|None, bodyfn|None, prev_fn_short)]
        self.promoted = {}        # 'fnname::promoted[k]' -> MirFn-like body
        self._src = {}
        self._parse()
        self._index()

    # ------------------------------------------------------------ parsing
    def _parse(self):
        text = self.text
        prev_fn = None
        pos = 0
        item_re = re.compile(r'^(fn|const|static) (.*?)$', re.M)
        lines_before = 0
        for m in item_re.finditer(text):
            kind = m.group(1)
            head = m.group(2)
            if kind == 'fn':
                hm = re.match(r'(.*?)\((.*)\) -> (.*?) \{$', head, re.S)
                if not hm:
                    continue
                end = text.find('\n}\n', m.end())
                body = text[m.end() + 1:end + 1]
                name = hm.group(1).strip()
                f = MirFn(name, hm.group(2), hm.group(3), body, 0)
                self.fns[name] = f
                self.order.append(name)
                prev_fn = name
            else:
                # const NAME: TYPE = const VALUE;    or   const NAME: TYPE = {  body }
                # split "NAME: TYPE = RHS" at the first ': ' outside angle brackets (impl spans contain ': ')
                depth = 0
                cut = None
                for ci, ch in enumerate(head):
                    if ch == '<':
                        depth += 1
                    elif ch == '>' and head[ci - 1] != '-':
                        depth -= 1
                    elif ch == ':' and depth == 0 and head[ci:ci + 2] == ': ' and head[ci - 1] != ':':
                        cut = ci
                        break
                if cut is None or ' = ' not in head[cut:]:
                    continue
                full = head[:cut].strip()
                rest = head[cut + 2:]
                eqi = rest.rindex(' = ')
                typ, rhs = rest[:eqi].strip(), rest[eqi + 3:].strip()
                if rhs == '{':
                    end = text.find('\n}\n', m.end())
                    body = text[m.end() + 1:end + 1]
                    f = MirFn(full, '', typ, body, 0)
                    val = None
                else:
                    f = None
                    val = rhs.rstrip(';')
                if 'promoted[' in full:
                    self.promoted[full] = (typ, val, f)
                else:
                    short = full.split('::')[-1]
                    self.consts.setdefault(short, []).append((full, typ, val, f, prev_fn))

    def src_lines(self, path):
        if path not in self._src:
            self._src[path] = open(os.path.join(self.repo, path)).read().split('\n')
        return self._src[path]

    def impl_header(self, path, line):
        L = self.src_lines(path)
        h = L[line - 1]
        k = line
        while '{' not in h and k < len(L):
            h += ' ' + L[k].strip()
            k += 1
        return h

    def _index(self):
        self.defs = {}        # (selfbase|None, method) -> [(fullname, trait|None, module)]
        self.closures = {}    # span -> fullname
        self.free_mod = {}    # fullname -> module (last segment) for free functions
        # free functions in the sources: name -> [(module, nparams)]
        src_free = {}
        for root, _d, files in os.walk(os.path.join(self.repo, 'src')):
            for fn in files:
                if not fn.endswith('.rs'):
                    continue
                rel = os.path.relpath(os.path.join(root, fn), self.repo)
                mod = fn[:-3]
                txt = '\n'.join(self.src_lines(rel))
                for m in re.finditer(r'^(?:pub(?:\([a-z]+\))? )?fn (\w+)\s*(?:<[^(]*>)?\s*\(', txt, re.M):
                    # count params up to matching paren
                    i = m.end()
                    d = 1
                    j = i
                    while d and j < len(txt):
                        if txt[j] in '([{<':
                            d += 1 if txt[j] != '<' else 0
                        if txt[j] in ')]}':
                            d -= 1
                        j += 1
                    params = [p for p in split_top(txt[i:j - 1]) if p.strip()]
                    src_free.setdefault(m.group(1), []).append((mod, len(params)))
        for n, f in self.fns.items():
            if '{closure#' in n:
                sp = re.search(r'\{closure@([^}]*)\}', f.sig)
                if sp:
                    self.closures[sp.group(1)] = n
                continue
            m = re.search(r'<impl at (src/[^:]+):(\d+):\d+: \d+:\d+>::(.*)$', n)
            if m:
                h = self.impl_header(m.group(1), int(m.group(2)))
                hm = re.match(r'\s*(?:unsafe )?impl\s*(?:<[^>]*>)?\s+(?:(.*?)\s+for\s+)?(.*?)\s*(?:where.*)?\{', h)
                trait, selft = (hm.group(1), hm.group(2)) if hm else (None, h)
                selfbase = re.sub(r'<.*', '', selft.strip().lstrip('&')).strip().split('::')[-1]
                selfbase = selfbase.replace("'_ ", '').replace('mut ', '').strip()
                if selft.strip().startswith('&['):
                    selfbase = '&[' + selft.strip()[2:].rstrip(']').split('::')[-1] + ']'
                tbase = strip_generics(trait).strip().split('::')[-1] if trait else None
                mod = os.path.basename(m.group(1))[:-3]
                self.defs.setdefault((selfbase, strip_generics(m.group(3))), []).append((n, tbase, mod, selft.strip()))
            else:
                parts = [p for p in strip_generics(n).split('::') if p]
                short = parts[-1]
                if len(parts) >= 2 and parts[-2][:1].isupper():
                    # trait default method: Trait::method
                    self.defs.setdefault((parts[-2], short), []).append((n, parts[-2], None, None))
                    continue
                cands = src_free.get(short, [])
                mod = None
                if len(cands) == 1:
                    mod = cands[0][0]
                elif len(cands) > 1:
                    same = [c for c in cands if c[1] == len(f.params)] or cands
                    mods = [c[0] for c in same]
                    # the dump follows source order: the nearest definitions that carry an `impl at src/..` span tell the file
                    pos = self.order.index(n)
                    mod = None
                    for delta in range(1, len(self.order)):
                        for q in (pos - delta, pos + delta):
                            if 0 <= q < len(self.order):
                                mm = re.search(r'<impl at (src/[^:]+):', self.order[q])
                                if mm and os.path.basename(mm.group(1))[:-3] in mods:
                                    mod = os.path.basename(mm.group(1))[:-3]
                                    break
                        if mod:
                            break
                    if mod is None:
                        already = [x[2] for x in self.defs.get((None, short), [])]
                        rest = [c for c in mods if c not in already] or mods
                        mod = rest[0]
                self.defs.setdefault((None, short), []).append((n, None, mod, None))

    # ------------------------------------------------------------ resolution
    def resolve(self, callee, dyn_type=None):
        """callee string from a call site -> MirFn of this crate or None (external)."""
        c = callee.strip()
        m = re.match(r'<(.*) as (.*?)>::(\w+)(?:::<.*>)?$', c, re.S)
        if m:
            selft = m.group(1).strip()
            if selft.startswith('dyn ') and dyn_type:
                selft = dyn_type
            sb = strip_generics(selft).strip().lstrip('&').replace("'_ ", '').replace('mut ', '').strip()
            if sb.startswith('['):
                sb = '&[' + sb[1:].rstrip(']').split('::')[-1] + ']'
            else:
                sb = sb.split('::')[-1]
            tb = strip_generics(m.group(2)).strip().split('::')[-1]
            r = self.defs.get((sb, m.group(3)))
            if not r and sb in _REV_ALIASES:
                # impls written against the crate's type aliases (impl .. for &Iso3): pick the alias of the right dimension
                dm = re.search(r'Const<(\d)>', selft) or re.search(r',\s*(\d)>\s*$', selft.strip())
                dim = dm.group(1) if dm else ''
                for al in _REV_ALIASES[sb]:
                    if al.endswith(dim) and self.defs.get((al, m.group(3))):
                        # strict: nalgebra's own impls for the same type (Isometry * Point ..) stay external
                        strict = [x for x in self.defs.get((al, m.group(3))) if x[1] == tb and (self._impl_matches(x, m.group(2), m.group(1)) if '<' in m.group(2) else not self._impl_trait_generic(x))]
                        if strict:
                            return self.fns[strict[0][0]]
                        break
            if r:
                hit = [x for x in r if x[1] == tb]
                if len(hit) > 1:
                    # several impls of the same trait for one base type: disambiguate on trait/self generics (e.g. Intersection<&Circle2, ..>)
                    targ = m.group(2)
                    best = [x for x in hit if self._impl_matches(x, targ, m.group(1))]
                    hit = best or hit
                if hit:
                    return self.fns[hit[0][0]]
            # trait default method
            r = self.defs.get((tb, m.group(3)))
            if r:
                return self.fns[r[0][0]]
            return None
        s = strip_generics(c)
        parts = [p for p in s.split('::') if p]
        if not parts:
            return None
        if '<impl ' in c and len(parts) >= 2:
            # module::<impl Type>::method  (inherent impl named through a type alias): unique method of that module
            cands = [x for (sb, meth), lst in self.defs.items() if meth == parts[-1] and sb is not None for x in lst if x[2] == parts[0]]
            if len(cands) == 1:
                return self.fns[cands[0][0]]
        if len(parts) >= 2:
            r = self.defs.get((parts[-2], parts[-1]))
            if r:
                inherent = [x for x in r if not x[1] or x[1] == parts[-2]]
                pick = inherent or r
                return self.fns[pick[0][0]]
        r = self.defs.get((None, parts[-1]))
        if r:
            if len(parts) == 1:
                return self.fns[r[0][0]] if len(r) == 1 else None
            mod = parts[-2]
            hit = [x for x in r if x[2] == mod]
            if hit:
                return self.fns[hit[0][0]]
            if parts[0] in ('std', 'core', 'alloc'):
                return None
            if len(r) == 1 and r[0][2] is not None and mod in ('crate', 'common', 'geom2', 'geom3', 'func1', 'metrology', 'mesh', 'engeom'):
                return self.fns[r[0][0]]
        return None

    def _impl_trait_generic(self, entry):
        m = re.search(r'<impl at (src/[^:]+):(\d+)', entry[0])
        if not m:
            return False
        h = self.impl_header(m.group(1), int(m.group(2)))
        return bool(re.search(r'impl\s*(?:<[^>]*>)?\s+[\w:]+<', h))

    def _impl_matches(self, entry, trait_args, selft):
        """entry = (fullname, tbase, mod, selft_src); compare the first generic argument of the trait textually"""
        n = entry[0]
        m = re.search(r'<impl at (src/[^:]+):(\d+)', n)
        if not m:
            return False
        h = self.impl_header(m.group(1), int(m.group(2)))
        want = re.sub(r'\s+', '', strip_generics(re.sub(r'^[^<]*<', '', trait_args, count=1)).split(',')[0]).replace("'_", '').split('::')[-1]
        hm = re.search(r'impl\s*(?:<[^>]*>)?\s+[\w:]+<([^,>]*)', h)
        if not hm:
            return False
        have = re.sub(r'\s+', '', hm.group(1)).replace("'_", '').split('::')[-1]
        if have.lstrip('&') == want.lstrip('&') and have.startswith('&') == want.startswith('&'):
            return True
        # tuple arguments / type aliases: compare the whole first generic argument after alias normalisation
        def norm(t):
            t = re.sub(r"\s+|'_|'\w+\b", '', strip_generics(t))
            t = re.sub(r'(\w+::)+', '', t)
            for a, b in _ALIASES.items():
                t = re.sub(r'\b' + a + r'\b', b, t)
            return t
        full_want = re.sub(r'^[^<]*<', '', trait_args, count=1)
        full_want = full_want[:full_want.rfind('>')] if full_want.rstrip().endswith('>') else full_want
        hm2 = re.search(r'impl\s*(?:<[^>]*>)?\s+[\w:]+<(.*)>\s+for\s', h)
        if hm2 and norm(hm2.group(1)) == norm(full_want):
            return True
        return False

    def closure_body(self, span):
        n = self.closures.get(span)
        return self.fns[n] if n else None

    def const_item(self, path):
        short = path.split('::')[-1]
        c = self.consts.get(short)
        if not c:
            return None
        if len(c) == 1:
            return c[0]
        parts = path.split('::')
        if len(parts) >= 2:
            owner = parts[-2]
            hit = [x for x in c if x[4] and strip_generics(x[4]).split('::')[-1] == owner]
            if hit:
                return hit[0]
            hit = [x for x in c if owner in x[0]]
            if hit:
                return hit[0]
        vals = set((x[2]) for x in c)
        if len(vals) == 1 and None not in vals:
            return c[0]
        return None

    def promoted_item(self, ref, fn_name):
        """ref like 'geom2::curve2::<impl Curve2>::at_length::promoted[0]' used inside fn_name"""
        k = re.search(r'promoted\[(\d+)\]', ref).group(0)
        key = fn_name + '::' + k
        if key in self.promoted:
            return self.promoted[key]
        # fall back: suffix match on the function's short name
        short = strip_generics(fn_name).split('::')[-1]
        cands = [p for p in self.promoted if p.endswith('::' + k) and strip_generics(p).split('::')[-2] == short]
        if len(cands) == 1:
            return self.promoted[cands[0]]
        return None


def source_hash(repo=REPO):
    h = hashlib.sha256()
    files = ['Cargo.toml', 'Cargo.lock']
    for root, _dirs, fs in os.walk(os.path.join(repo, 'src')):
        for f in fs:
            if f.endswith('.rs'):
                files.append(os.path.relpath(os.path.join(root, f), repo))
    for f in sorted(files):
        h.update(f.encode())
        with open(os.path.join(repo, f), 'rb') as fh:
            h.update(fh.read())
    return h.hexdigest()


def dump(build_dir, repo=REPO, log=print):
    """(Re)generate the MIR dump for the current working tree. Returns (path, seconds, cached)."""
    import fcntl
    os.makedirs(build_dir, exist_ok=True)
    sh = source_hash(repo)
    out = os.path.join(build_dir, f'engeom-{sh[:16]}.mir')
    lock = open(os.path.join(build_dir, 'mir.lock'), 'w')
    fcntl.flock(lock, fcntl.LOCK_EX)
    try:
        if os.path.exists(out) and os.path.getsize(out) > 1000:
            return out, 0.0, True
        t0 = time.time()
        env = dict(os.environ)
        env.update({'CARGO_NET_OFFLINE': 'true', 'CARGO_TARGET_DIR': os.path.join(build_dir, 'mir-target')})
        # the cfg makes the rustc invocation unique per source state so cargo never serves a stale (empty) re-run
        cmd = ['cargo', '+nightly', 'rustc', '--offline', '--lib', '--features', 'verif', '--', '-Zunpretty=mir',
               '-C', 'debug-assertions=off', '-C', 'overflow-checks=on', '--cfg', f'verif_mir_{sh[:12]}']
        p = subprocess.run(cmd, cwd=repo, env=env, stdout=subprocess.PIPE, stderr=subprocess.PIPE, text=True)
        if p.returncode != 0 or len(p.stdout) < 1000:
            # engine M reads private functions straight from the dump and needs none of the `verif` re-exports: if a source change
            # breaks only the guarded hook code, dump without the feature rather than losing every unit
            cmd2 = [c for c in cmd if c not in ('--features', 'verif')]
            p2 = subprocess.run(cmd2, cwd=repo, env=env, stdout=subprocess.PIPE, stderr=subprocess.PIPE, text=True)
            if p2.returncode == 0 and len(p2.stdout) >= 1000:
                log('[mir] the tree does not compile with feature `verif` (hook code broken by a source change?); dumped without it')
                p = p2
        if p.returncode != 0 or len(p.stdout) < 1000:
            with open(os.path.join(build_dir, 'mir.err'), 'w') as f:
                f.write(p.stderr)
            raise RuntimeError('MIR dump failed (see build/mir.err): ' + p.stderr[-800:])
        tmp = out + '.tmp'
        with open(tmp, 'w') as f:
            f.write(p.stdout)
        os.replace(tmp, out)
        # drop older dumps
        for f in os.listdir(build_dir):
            if f.startswith('engeom-') and f.endswith('.mir') and os.path.join(build_dir, f) != out:
                try:
                    os.remove(os.path.join(build_dir, f))
                except OSError:
                    pass
        return out, time.time() - t0, False
    finally:
        fcntl.flock(lock, fcntl.LOCK_UN)
        lock.close()


_CACHE = {}


def load(build_dir, repo=REPO):
    path, secs, cached = dump(build_dir, repo)
    if path not in _CACHE:
        _CACHE[path] = Mir(open(path).read(), repo)
    m = _CACHE[path]
    m.dump_seconds = secs
    m.path = path
    return m
