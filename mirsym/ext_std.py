"""std containers, slices and iterator adaptors by contract."""
import re
import z3
from .vals import *
from .ext import ext, unref, items_of, closure_of, clone_val, partial_cmp, Mat
from .mir import strip_generics


# ------------------------------------------------------------------------------------------------ iterators
def drain(eng, it):
    """materialise an iterator value into a python list of items"""
    it = unref(it)
    if isinstance(it, IterV):
        r = it.items[it.pos:]
        it.pos = len(it.items)
        return r
    if isinstance(it, RangeV):
        a, b = it.a, it.b
        if is_sym(a) or is_sym(b):
            a = eng.concretize_int(a, 0, 64, 'range start')
            b = eng.concretize_int(b, 0, 64, 'range end')
        r = list(range(a, b + (1 if it.incl else 0)))
        it.a = b
        return r
    if isinstance(it, (VecV, SliceV)):
        return list(it.items)
    if isinstance(it, MapV):
        return map_order(eng, it)
    if isinstance(it, En) and it.v in ('Some', 'None'):
        return list(it.f)
    if isinstance(it, list):
        return list(it)
    raise Unsupported('iterate over ' + type(it).__name__)


from . import ext as _ext
_ext.drain = drain


class PermIter:
    """iterator over an unordered container: each next() forks over which remaining element comes first"""

    def __init__(self, items):
        self.rest = list(items)


def map_entries(mv, refs=True):
    if mv.is_set:
        return [Ref.to(k) if refs else k for k, _ in mv.entries]
    return [[Ref.to(k), Ref.to(v)] if refs else [k, v] for k, v in mv.entries]


UNORDERED_SINK = [0]     # >0 while draining into an order-insensitive consumer (collect into a hash container, sum, count)


def map_order(eng, mv):
    """a symbolic iteration order of an unordered container: fork over permutations (element by element)"""
    rest = list(mv.entries)
    out = []
    while rest:
        if len(rest) == 1:
            k = 0
        else:
            k = eng.choose([(z3.BoolVal(True), i) for i in range(len(rest))]) if True else 0
        out.append(rest.pop(k))
    if mv.is_set:
        return [k for k, _ in out]
    return [[k, v] for k, v in out]


def elem_refs(seq):
    """iter(): references to the slots of a Vec/slice"""
    seq = unref(seq)
    if isinstance(seq, SliceV):
        base, lo = seq.base, seq.lo
        return [Ref((lambda i: lambda: base.items[lo + i])(i), (lambda i: lambda v: base.items.__setitem__(lo + i, v))(i)) for i in range(seq.hi - seq.lo)]
    items = seq.items if isinstance(seq, VecV) else seq
    return [Ref((lambda i: lambda: items[i])(i), (lambda i: lambda v: items.__setitem__(i, v))(i)) for i in range(len(items))]


@ext(r'<\[.*\]>::iter(_mut)?$|<impl \[.*\]>::iter(_mut)?$|slice::<impl \[.*?\]>::iter(_mut)?$|Vec::<.*>::iter(_mut)?$')
def slice_iter(eng, callee, a, m, fc):
    return IterV(elem_refs(a[0]))


@ext(r' as IntoIterator>::into_iter$')
def into_iter(eng, callee, a, m, fc):
    v = a[0]
    if isinstance(v, Ref):
        tgt = v.get()
        if isinstance(tgt, (VecV, SliceV)) or (isinstance(tgt, list) and not isinstance(tgt, Struct)):
            return IterV(elem_refs(tgt))
        if isinstance(tgt, MapV):
            return PermIter(map_entries(tgt, True))
        if isinstance(tgt, En):
            return IterV([Ref.to(x) for x in tgt.f] if tgt.v == 'Some' else [])
        return v
    if isinstance(v, (IterV, RangeV, LazyIter, PermIter)):
        return v
    if isinstance(v, VecV):
        return IterV(list(v.items))
    if isinstance(v, MapV):
        return PermIter(map_entries(v, False))
    if isinstance(v, En):
        return IterV(list(v.f) if v.v == 'Some' else [])
    if isinstance(v, list):
        return IterV(list(v))
    raise Unsupported('into_iter of ' + type(v).__name__)


class LazyIter:
    """adaptor chain evaluated on demand (next() one element at a time), so side effects interleave like in Rust"""

    def __init__(self, src, stages=None):
        self.src = src            # IterV / RangeV / LazyIter
        self.stages = stages or []
        self.index = 0
        self.buf = []

    def with_stage(self, st):
        return LazyIter(self, [st])


def it_next(eng, it):
    it = unref(it)
    if isinstance(it, IterV):
        if it.pos < len(it.items):
            it.pos += 1
            return En('Some', [it.items[it.pos - 1]])
        return En('None')
    if isinstance(it, PermIter):
        if not it.rest:
            return En('None')
        if len(it.rest) == 1 or UNORDERED_SINK[0]:
            return En('Some', [it.rest.pop(0)])
        k = eng.choose([(z3.BoolVal(True), i) for i in range(len(it.rest))])
        return En('Some', [it.rest.pop(k)])
    if isinstance(it, RangeV):
        a, b = it.a, it.b
        if is_sym(a) or is_sym(b):
            more = eng.branch((a <= b) if it.incl else (a < b))
        else:
            more = (a <= b) if it.incl else (a < b)
        if it.incl and it.done:
            more = False
        if more:
            if it.incl and not is_sym(a) and not is_sym(b) and a == b:
                it.done = True
            else:
                it.a = a + 1
            return En('Some', [a])
        return En('None')
    if isinstance(it, LazyIter):
        if it.buf:
            return En('Some', [it.buf.pop(0)])
        while True:
            n = it_next(eng, it.src)
            if n.v == 'None':
                return n
            v = n.f[0]
            keep = True
            for st in it.stages:
                kind = st[0]
                if kind == 'map':
                    v = eng.call_value(st[1], [v])
                elif kind == 'enumerate':
                    v = [it.index, v]
                    it.index += 1
                elif kind == 'filter':
                    if not eng.branch(eng.call_value(st[1], [Ref.to(v)])):
                        keep = False
                        break
                elif kind == 'filter_map':
                    r = eng.call_value(st[1], [v])
                    if r.v == 'None':
                        keep = False
                        break
                    v = r.f[0]
                elif kind == 'copied':
                    v = deep_copy(unref(v))
                elif kind == 'skip':
                    if it.index < st[1]:
                        it.index += 1
                        keep = False
                        break
                elif kind == 'take':
                    if it.index >= st[1]:
                        return En('None')
                    it.index += 1
                elif kind == 'zip':
                    o = it_next(eng, st[1])
                    if o.v == 'None':
                        return En('None')
                    v = [v, o.f[0]]
                elif kind == 'take_while':
                    if not eng.branch(eng.call_value(st[1], [Ref.to(v)])):
                        return En('None')
                elif kind == 'skip_while':
                    if not st[2][0]:
                        if eng.branch(eng.call_value(st[1], [Ref.to(v)])):
                            keep = False
                            break
                        st[2][0] = True
                elif kind == 'inspect':
                    eng.call_value(st[1], [Ref.to(v)])
                elif kind == 'flat_map':
                    sub = all_items(eng, eng.call_value(st[1], [v]))
                    if not sub:
                        keep = False
                        break
                    v = sub[0]
                    it.buf.extend(sub[1:])
                elif kind == 'flatten':
                    sub = all_items(eng, v)
                    if not sub:
                        keep = False
                        break
                    v = sub[0]
                    it.buf.extend(sub[1:])
                else:
                    raise Unsupported('iterator stage ' + kind)
            if keep:
                return En('Some', [v])
    if isinstance(it, En):
        # Option as iterator
        if it.v == 'Some':
            v = it.f[0]
            it.v, it.f = 'None', []
            return En('Some', [v])
        return En('None')
    raise Unsupported('next() on ' + type(it).__name__)


def source_unordered(it):
    """does this iterator chain start at an unordered container (and pass only order-preserving element-wise stages)?"""
    it = unref(it)
    if isinstance(it, PermIter):
        return len(it.rest) > 1
    if isinstance(it, LazyIter):
        if any(st[0] in ('enumerate', 'skip', 'take', 'zip', 'take_while', 'skip_while') for st in it.stages):
            return False
        return source_unordered(it.src)
    if isinstance(it, VecV):
        return it.unordered
    if isinstance(it, MapV):
        return len(it.entries) > 1
    return False


def all_items(eng, it, unordered_ok=False):
    it = unref(it)
    if unordered_ok and source_unordered(it):
        UNORDERED_SINK[0] += 1
        try:
            return all_items(eng, it)
        finally:
            UNORDERED_SINK[0] -= 1
    if isinstance(it, VecV):
        return list(it._items) if UNORDERED_SINK[0] else list(it.items)
    if isinstance(it, SliceV):
        return list(it.items)
    if isinstance(it, MapV):
        return map_entries(it, False) if UNORDERED_SINK[0] else map_order(eng, it)
    if isinstance(it, list) and not isinstance(it, Struct):
        return list(it)
    out = []
    while True:
        n = it_next(eng, it)
        if n.v == 'None':
            return out
        out.append(n.f[0])


_ext.all_items = all_items
_ext.it_next = it_next

ADAPT1 = {'map', 'filter', 'filter_map', 'take_while', 'skip_while', 'inspect', 'flat_map'}


@ext(r' as (?:Iterator|DoubleEndedIterator|ExactSizeIterator|Itertools)>::(\w+)(?:::<.*>)?$|(?:^|::)Iterator::(\w+)(?:::<.*>)?$|^itertools::Itertools::(\w+)')
def iterator_method(eng, callee, a, m, fc):
    name = m.group(1) or m.group(2) or m.group(3)
    it = a[0]
    if name == 'next':
        return it_next(eng, it)
    if name in ADAPT1:
        st = [name, a[1]] + ([[False]] if name == 'skip_while' else [])
        return LazyIter(unref(it) if not isinstance(it, Ref) else it, [st])
    if name in ('enumerate', 'copied', 'cloned', 'flatten', 'by_ref', 'fuse', 'peekable'):
        if name in ('by_ref',):
            return it
        if name in ('fuse', 'peekable'):
            return unref(it)
        return LazyIter(it, [['copied' if name == 'cloned' else name]])
    if name in ('skip', 'take'):
        n = a[1]
        if is_sym(n):
            n = eng.concretize_int(n, 0, 64, name)
        return LazyIter(it, [[name, n]])
    if name == 'step_by':
        items = all_items(eng, it)
        return IterV(items[::a[1]])
    if name == 'zip':
        other = a[1]
        o = unref(other)
        if isinstance(o, (VecV, SliceV)) or (isinstance(o, list) and not isinstance(o, Struct)):
            other = IterV(elem_refs(o) if isinstance(other, Ref) else list(items_of(o)))
        return LazyIter(it, [['zip', other]])
    if name == 'chain':
        return IterV(all_items(eng, it) + all_items(eng, a[1]))
    if name == 'rev':
        return IterV(list(reversed(all_items(eng, it))))
    if name in ('collect', 'collect_vec', 'to_vec'):
        ty = (fc[1] if fc else '') or ''
        tgt = callee
        to_hash = ('HashSet<' in ty or 'HashMap<' in ty or re.search(r'collect::<(?:std::collections::)?Hash(?:Set|Map)', tgt) is not None)
        src_unord = source_unordered(it)
        items = all_items(eng, it, unordered_ok=True)
        if src_unord and not to_hash and not (re.search(r'collect::<(?:std::result::)?Result<', tgt) or re.search(r'collect::<(?:std::option::)?Option<', tgt)):
            return VecV(items, unordered=True)
        if 'HashSet<' in ty or 'HashSet<' in tgt.split(' as ')[-1] or re.search(r'collect::<(?:std::collections::)?HashSet', tgt):
            mv = MapV(is_set=True)
            for x in items:
                set_insert(eng, mv, x, None)
            return mv
        if 'HashMap<' in ty or re.search(r'collect::<(?:std::collections::)?HashMap', tgt):
            mv = MapV()
            for kv in items:
                set_insert(eng, mv, kv[0], kv[1])
            return mv
        if re.search(r'collect::<(?:std::result::)?Result<', tgt) or ty.startswith('std::result::Result<'):
            out = []
            for x in items:
                if x.v == 'Err':
                    return En('Err', [x.f[0]])
                out.append(x.f[0])
            return En('Ok', [VecV(out)])
        if re.search(r'collect::<(?:std::option::)?Option<', tgt) or ty.startswith('std::option::Option<'):
            out = []
            for x in items:
                if x.v == 'None':
                    return En('None')
                out.append(x.f[0])
            return En('Some', [VecV(out)])
        return VecV(items)
    if name == 'count':
        return len(all_items(eng, it, unordered_ok=True))
    if name == 'last':
        items = all_items(eng, it)
        return En('Some', [items[-1]]) if items else En('None')
    if name == 'nth':
        items = all_items(eng, it)
        n = a[1]
        return En('Some', [items[n]]) if n < len(items) else En('None')
    if name in ('sum', 'product'):
        items = all_items(eng, it, unordered_ok=True)
        isint = items and all(isinstance(unref(x), int) and not isinstance(unref(x), bool) for x in items)
        if not items and ('usize' in callee or 'u32' in callee or 'i32' in callee):
            isint = True
        r = (0 if name == 'sum' else 1) if isint else ((0.0 if name == 'sum' else 1.0) if MODE[0] == 'conc' else z3.RealVal(0 if name == 'sum' else 1))
        for x in items:
            r = f_add(r, unref(x)) if name == 'sum' else f_mul(r, unref(x))
        return r
    if name in ('any', 'all'):
        while True:
            n = it_next(eng, it)
            if n.v == 'None':
                return name == 'all'
            r = eng.branch(eng.call_value(a[1], [n.f[0]]))
            if name == 'any' and r:
                return True
            if name == 'all' and not r:
                return False
    if name in ('find', 'position', 'find_map'):
        idx = 0
        while True:
            n = it_next(eng, it)
            if n.v == 'None':
                return En('None')
            if name == 'find_map':
                r = eng.call_value(a[1], [n.f[0]])
                if r.v == 'Some':
                    return r
            elif name == 'find':
                if eng.branch(eng.call_value(a[1], [Ref.to(n.f[0])])):
                    return En('Some', [n.f[0]])
            else:
                if eng.branch(eng.call_value(a[1], [n.f[0]])):
                    return En('Some', [idx])
            idx += 1
    if name in ('for_each',):
        for x in all_items(eng, it):
            eng.call_value(a[1], [x])
        return ()
    if name in ('fold',):
        acc = a[1]
        for x in all_items(eng, it):
            acc = eng.call_value(a[2], [acc, x])
        return acc
    if name in ('max_by', 'min_by'):
        # std: max_by returns the LAST maximal element, min_by the FIRST minimal one
        items = all_items(eng, it)
        if not items:
            return En('None')
        best = items[0]
        for x in items[1:]:
            o = eng.call_value(a[1], [Ref.to(best), Ref.to(x)])
            if name == 'max_by':
                if o.v != 'Greater':
                    best = x
            else:
                if o.v == 'Greater':
                    best = x
        return En('Some', [best])
    if name in ('max', 'min'):
        items = all_items(eng, it)
        if not items:
            return En('None')
        best = items[0]
        for x in items[1:]:
            bx, xx = unref(best), unref(x)
            c = (xx >= bx) if name == 'max' else (xx < bx)
            if eng.branch(c):
                best = x
        return En('Some', [best])
    if name in ('max_by_key', 'min_by_key'):
        items = all_items(eng, it)
        if not items:
            return En('None')
        best, bk = items[0], eng.call_value(a[1], [Ref.to(items[0])])
        for x in items[1:]:
            k = eng.call_value(a[1], [Ref.to(x)])
            c = (k >= bk) if name == 'max_by_key' else (k < bk)
            if eng.branch(c):
                best, bk = x, k
        return En('Some', [best])
    if name == 'unzip':
        items = all_items(eng, it)
        return [VecV([x[0] for x in items]), VecV([x[1] for x in items])]
    if name == 'size_hint':
        return [0, En('None')]
    if name == 'len':
        return len(all_items(eng, it)) if False else _peek_len(eng, it)
    if name == 'sorted_by':
        items = all_items(eng, it)
        v = VecV(items)
        sort_by(eng, v, a[1])
        return IterV(v.items)
    if name == 'tuple_windows':
        items = all_items(eng, it)
        return IterV([[items[i], items[i + 1]] for i in range(len(items) - 1)])
    if name == 'dedup':
        items = all_items(eng, it)
        out = []
        for x in items:
            if out and eng.branch(unref(out[-1]) == unref(x)):
                continue
            out.append(x)
        return IterV(out)
    raise Unsupported('Iterator::' + name)


def _peek_len(eng, it):
    it = unref(it)
    if isinstance(it, IterV):
        return len(it.items) - it.pos
    if isinstance(it, RangeV):
        return it.b - it.a
    raise Unsupported('len of lazy iterator')


# ------------------------------------------------------------------------------------------------ Vec / slices
def sort_by(eng, vec, cmpf, key=None):
    """specification-level sort: insertion sort driven by the comparator (forks over feasible orders); stable"""
    if isinstance(vec, VecV) and vec.unordered:
        # sorting a bag under a total order gives one result whatever the incoming order was
        vec.unordered = False
        items = vec._items
    else:
        items = vec.items if isinstance(vec, VecV) else vec
    out = []
    for x in items:
        pos = len(out)
        # find insertion point scanning from the end (stable)
        while pos > 0:
            if cmpf is None:
                xa, xb = unref(out[pos - 1]), unref(x)
                o = _ord(eng, xa, xb)
            else:
                o = eng.call_value(cmpf, [Ref.to(out[pos - 1]), Ref.to(x)])
                o = o.v
            if o == 'Greater':
                pos -= 1
            else:
                break
        out.insert(pos, x)
    if isinstance(vec, SliceV):
        for i, x in enumerate(out):
            vec.base.items[vec.lo + i] = x
    else:
        items[:] = out


def _ord(eng, a, b):
    """total order on ints / lists of ints / tuples (lexicographic)"""
    if isinstance(a, list) and isinstance(b, list):
        for x, y in zip(a, b):
            o = _ord(eng, unref(x), unref(y))
            if o != 'Equal':
                return o
        return 'Equal' if len(a) == len(b) else ('Less' if len(a) < len(b) else 'Greater')
    if isinstance(a, En) and isinstance(b, En):
        from .execm import DISCR
        return _ord(eng, DISCR.get(a.v, 0), DISCR.get(b.v, 0))
    a, b = num(a), num(b)
    if not is_sym(a) and not is_sym(b):
        return 'Less' if a < b else 'Equal' if a == b else 'Greater'
    return eng.choose([(a < b, 'Less'), (a == b, 'Equal'), (a > b, 'Greater')])


_ext._ord = _ord


def val_eq(eng, a, b):
    """structural equality, forking on symbolic scalars"""
    a, b = unref(a), unref(b)
    if isinstance(a, (list, VecV)) and isinstance(b, (list, VecV)):
        ia, ib = items_of(a), items_of(b)
        if len(ia) != len(ib):
            return False
        for x, y in zip(ia, ib):
            if not val_eq(eng, x, y):
                return False
        return True
    if isinstance(a, En) and isinstance(b, En):
        if a.v != b.v:
            return False
        return all(val_eq(eng, x, y) for x, y in zip(a.f, b.f))
    if isinstance(a, Poison) or isinstance(b, Poison):
        return False
    a, b = num(a), num(b)
    if not is_sym(a) and not is_sym(b):
        return a == b
    return eng.branch(a == b)


_ext.val_eq = val_eq


def set_find(eng, mv, key):
    for i, (k, _v) in enumerate(mv.entries):
        if val_eq(eng, k, key):
            return i
    return None


def set_insert(eng, mv, key, val):
    i = set_find(eng, mv, key)
    if i is None:
        mv.entries.append((key, val))
        return None
    old = mv.entries[i][1]
    mv.entries[i] = (mv.entries[i][0], val)
    return (old,)


@ext(r'^(?:std::vec::|alloc::vec::)?Vec::<.*>::(\w+)(?:::<.*>)?$|^Vec::(\w+)$|^<Vec<.*>>::(\w+)$')
def vec_method(eng, callee, a, m, fc):
    name = m.group(1) or m.group(2) or m.group(3)
    if name == 'new':
        return VecV()
    if name == 'with_capacity':
        return VecV()
    v = unref(a[0])
    if name == 'push':
        v.items.append(a[1])
        return ()
    if name == 'pop':
        return En('Some', [v.items.pop()]) if v.items else En('None')
    if name == 'len':
        return len(v._items)
    if name == 'is_empty':
        return len(v._items) == 0
    if name == 'clear':
        v._items.clear()
        v.unordered = False
        return ()
    if name == 'insert':
        i = a[1]
        if is_sym(i):
            i = eng.concretize_int(i, 0, len(v.items))
        if i > len(v.items):
            raise Panic('Vec::insert index out of bounds')
        v.items.insert(i, a[2])
        return ()
    if name == 'remove':
        i = a[1]
        if is_sym(i):
            i = eng.concretize_int(i, 0, len(v.items) - 1)
        if i >= len(v.items):
            raise Panic('Vec::remove index out of bounds')
        return v.items.pop(i)
    if name == 'swap_remove':
        i = a[1]
        if i >= len(v.items):
            raise Panic('swap_remove index out of bounds')
        x = v.items[i]
        last = v.items.pop()
        if i < len(v.items):
            v.items[i] = last
        return x
    if name == 'truncate':
        del v.items[a[1]:]
        return ()
    if name in ('extend', 'extend_from_slice', 'append'):
        src = a[1]
        new = [deep_copy(unref(x)) if name == 'extend_from_slice' else x for x in _ext.all_items(eng, src)]
        if name == 'append':
            unref(src).items.clear()
        v.items.extend(new)
        return ()
    if name == 'dedup_by':
        out = []
        for itx in v.items:
            if out:
                same = eng.call_value(a[1], [Ref.to(itx), Ref.to(out[-1])])
                if eng.branch(same):
                    continue
            out.append(itx)
        v.items[:] = out
        return ()
    if name == 'dedup':
        out = []
        for itx in v.items:
            if out and val_eq(eng, out[-1], itx):
                continue
            out.append(itx)
        v.items[:] = out
        return ()
    if name == 'retain':
        out = []
        for itx in v.items:
            if eng.branch(eng.call_value(a[1], [Ref.to(itx)])):
                out.append(itx)
        v.items[:] = out
        return ()
    if name in ('as_slice', 'as_mut_slice', 'as_ref', 'deref', 'deref_mut', 'as_ptr', 'as_mut_ptr', 'borrow'):
        return a[0]
    if name == 'into_iter':
        return IterV(list(v.items))
    if name == 'iter' or name == 'iter_mut':
        return IterV(elem_refs(v))
    if name == 'drain':
        r = unref(a[1])
        if isinstance(r, RangeV):
            lo, hi = r.a, r.b
        else:
            lo, hi = 0, len(v.items)
        out = v.items[lo:hi]
        del v.items[lo:hi]
        return IterV(out)
    if name == 'reserve' or name == 'shrink_to_fit':
        return ()
    if name == 'into_boxed_slice':
        return v
    if name == 'capacity':
        return len(v.items)
    if name == 'from_elem' or name == 'resize':
        raise Unsupported('Vec::' + name)
    return slice_method_impl(eng, name, a, callee, fc)


@ext(r'^(?:std::vec::|alloc::vec::)from_elem::<')
def vec_from_elem(eng, callee, a, m, fc):
    n = a[1]
    if is_sym(n):
        n = eng.concretize_int(n, 0, 64, 'vec! length')
    return VecV([deep_copy(a[0]) for _ in range(n)])


@ext(r'^<Vec<.*> as (?:Deref|DerefMut|AsRef<.*>|AsMut<.*>|Borrow<.*>)>::(\w+)$|^<\[.*\] as (?:AsRef|Borrow)<.*>>::\w+$')
def vec_deref(eng, callee, a, m, fc):
    return a[0]


@ext(r'^<Vec<.*> as (?:std::ops::)?(Index|IndexMut)<(.*)>>::index(_mut)?$|^<\[.*\] as (?:std::ops::)?(Index|IndexMut)<(.*)>>::index(_mut)?$|^core::slice::index::<impl (?:std::ops::)?Index(?:Mut)?<(.*)> for \[.*\]>::index(_mut)?$|^<.*ArrayStorage.* as Index')
def vec_index(eng, callee, a, m, fc):
    v = unref(a[0])
    i = a[1]
    if isinstance(i, RangeV) or (isinstance(i, Struct) and i.name.startswith('Range')):
        return subslice(eng, a[0], i)
    items = v.items if isinstance(v, (VecV, SliceV)) else v
    if isinstance(i, Struct) and not i:      # RangeFull
        return a[0]
    if is_sym(i):
        i = eng.concretize_int(i, 0, max(len(items) - 1, 0))
    if isinstance(i, list):
        raise Unsupported('index by ' + str(i))
    if not (0 <= i < len(items)):
        raise Panic(f'index out of bounds: the len is {len(items)} but the index is {i}')
    if isinstance(v, SliceV):
        base, off = v.base, v.lo
        return Ref(lambda: base.items[off + i], lambda x: base.items.__setitem__(off + i, x))
    return Ref(lambda: items[i], lambda x: items.__setitem__(i, x))


def subslice(eng, r, rng):
    v = unref(r)
    n = len(v.items if isinstance(v, (VecV, SliceV)) else v)
    if isinstance(rng, RangeV):
        lo, hi = rng.a, rng.b + (1 if rng.incl else 0)
    else:
        nm = rng.name
        if nm == 'RangeFrom':
            lo, hi = rng[0], n
        elif nm == 'RangeTo':
            lo, hi = 0, rng[0]
        elif nm == 'RangeToInclusive':
            lo, hi = 0, rng[0] + 1
        else:
            lo, hi = 0, n
    if is_sym(lo):
        lo = eng.concretize_int(lo, 0, n)
    if is_sym(hi):
        hi = eng.concretize_int(hi, 0, n)
    if lo > hi or hi > n:
        raise Panic(f'slice index out of range {lo}..{hi} (len {n})')
    if isinstance(v, SliceV):
        s = SliceV(v.base, v.lo + lo, v.lo + hi)
    elif isinstance(v, VecV):
        s = SliceV(v, lo, hi)
    else:
        vv = VecV([])
        vv.items = v
        s = SliceV(vv, lo, hi)
    return Ref(lambda: s)


def slice_method_impl(eng, name, a, callee, fc):
    v = unref(a[0])
    if isinstance(v, VecV) and name in ('len', 'is_empty'):
        return len(v._items) if name == 'len' else len(v._items) == 0
    if isinstance(v, VecV) and v.unordered and name in ('sort_by', 'sort_unstable_by', 'sort', 'sort_unstable'):
        sort_by(eng, v, a[1] if name.endswith('_by') else None)
        return ()
    items = v.items if isinstance(v, (VecV, SliceV)) else v
    if name == 'len':
        return len(items)
    if name == 'is_empty':
        return len(items) == 0
    if name in ('first', 'last'):
        if not items:
            return En('None')
        i = 0 if name == 'first' else len(items) - 1
        return En('Some', [elem_refs(v)[i]])
    if name in ('first_mut', 'last_mut'):
        if not items:
            return En('None')
        return En('Some', [elem_refs(v)[0 if name == 'first_mut' else -1]])
    if name in ('get', 'get_mut'):
        i = a[1]
        if isinstance(i, (RangeV, Struct)):
            raise Unsupported('get(range)')
        if is_sym(i):
            inb = eng.branch(z3.And(i >= 0, i < len(items)))
            if not inb:
                return En('None')
            i = eng.concretize_int(i, 0, len(items) - 1)
        if 0 <= i < len(items):
            return En('Some', [elem_refs(v)[i]])
        return En('None')
    if name == 'to_vec' or name == 'to_owned':
        return VecV([clone_val(x) for x in items])
    if name in ('iter', 'iter_mut'):
        return IterV(elem_refs(v))
    if name == 'reverse':
        r = list(reversed(items))
        if isinstance(v, SliceV):
            for i, x in enumerate(r):
                v.base.items[v.lo + i] = x
        else:
            items[:] = r
        return ()
    if name == 'swap':
        i, j = a[1], a[2]
        refs = elem_refs(v)
        x, y = refs[i].get(), refs[j].get()
        refs[i].set(y)
        refs[j].set(x)
        return ()
    if name == 'contains':
        for x in items:
            if val_eq(eng, x, a[1]):
                return True
        return False
    if name in ('windows', 'chunks', 'chunks_exact'):
        k = a[1]
        base = v if isinstance(v, VecV) else None
        if base is None:
            if isinstance(v, SliceV):
                base, off = v.base, v.lo
            else:
                base = VecV([])
                base.items = v
                off = 0
        else:
            off = 0
        n = len(items)
        out = []
        if name == 'windows':
            for i in range(0, n - k + 1):
                s = SliceV(base, off + i, off + i + k)
                out.append(Ref((lambda s: lambda: s)(s)))
        else:
            for i in range(0, n, k):
                if name == 'chunks_exact' and i + k > n:
                    break
                s = SliceV(base, off + i, min(off + i + k, off + n))
                out.append(Ref((lambda s: lambda: s)(s)))
        return IterV(out)
    if name in ('sort_by', 'sort_unstable_by'):
        sort_by(eng, v, a[1])
        return ()
    if name in ('sort', 'sort_unstable'):
        sort_by(eng, v, None)
        return ()
    if name in ('sort_by_key', 'sort_unstable_by_key', 'sort_by_cached_key'):
        keys = [eng.call_value(a[1], [Ref.to(x)]) for x in items]
        pairs = VecV([[k, x] for k, x in zip(keys, items)])
        sort_by_pairs(eng, pairs)
        r = [p[1] for p in pairs.items]
        if isinstance(v, SliceV):
            for i, x in enumerate(r):
                v.base.items[v.lo + i] = x
        else:
            items[:] = r
        return ()
    if name == 'binary_search_by':
        # specification: position of the probe in a slice sorted consistently with the comparator
        ords = [eng.call_value(a[1], [Ref.to(x)]).v for x in items]
        eqs = [i for i, o in enumerate(ords) if o == 'Equal']
        if eqs:
            if len(eqs) == 1:
                return En('Ok', [eqs[0]])
            # any matching index may be returned (std documents "any one of the matches")
            k = eng.choose([(z3.BoolVal(True), i) for i in eqs])
            return En('Ok', [k])
        k = sum(1 for o in ords if o == 'Less')
        return En('Err', [k])
    if name == 'binary_search':
        ords = [_ord(eng, unref(x), unref(a[1])) for x in items]
        eqs = [i for i, o in enumerate(ords) if o == 'Equal']
        if eqs:
            return En('Ok', [eqs[0] if len(eqs) == 1 else eng.choose([(z3.BoolVal(True), i) for i in eqs])])
        return En('Err', [sum(1 for o in ords if o == 'Less')])
    if name == 'concat':
        out = []
        for x in items:
            out.extend(items_of(x))
        return VecV(out)
    if name == 'split_at':
        k = a[1]
        return [subslice(eng, a[0], RangeV(0, k)), subslice(eng, a[0], RangeV(k, len(items)))]
    if name == 'copy_from_slice' or name == 'clone_from_slice':
        src = items_of(a[1])
        for i, x in enumerate(src):
            elem_refs(v)[i].set(clone_val(x))
        return ()
    if name == 'fill':
        for r in elem_refs(v):
            r.set(deep_copy(a[1]))
        return ()
    if name == 'into_vec':
        return v if isinstance(v, VecV) else VecV(list(items))
    if name in ('index', 'index_mut'):
        return vec_index(eng, callee, a, None, fc)
    if name == 'join':
        raise Unsupported('slice join')
    raise Unsupported('slice/Vec method ' + name)


def sort_by_pairs(eng, pairs):
    out = []
    for x in pairs.items:
        pos = len(out)
        while pos > 0:
            o = _ord(eng, unref(out[pos - 1][0]), unref(x[0]))
            if o == 'Greater':
                pos -= 1
            else:
                break
        out.insert(pos, x)
    pairs.items[:] = out


@ext(r'^(?:core::|std::)?slice::<impl \[.*?\]>::(\w+)(?:::<.*>)?$|^<\[.*?\]>::(\w+)(?:::<.*>)?$|^\[.*?\]::(\w+)$|^<impl \[.*?\]>::(\w+)|^(?:alloc::|std::)?slice::<impl \[.*?\]>::(\w+)')
def slice_method(eng, callee, a, m, fc):
    name = next(g for g in m.groups() if g)
    return slice_method_impl(eng, name, a, callee, fc)


@ext(r'^core::array::<impl .*>::(\w+)|^<\[.*; \d+\] as .*>::(\w+)|^core::array::(\w+)|^array::<impl \[.*\]>::(\w+)')
def array_method(eng, callee, a, m, fc):
    name = next(g for g in m.groups() if g)
    if name in ('index', 'index_mut'):
        return vec_index(eng, callee, a, m, fc)
    if name == 'map':
        return [eng.call_value(a[1], [x]) for x in a[0]]
    if name == 'eq':
        return val_eq(eng, a[0], a[1])
    if name == 'ne':
        return not val_eq(eng, a[0], a[1])
    if name in ('cmp', 'partial_cmp'):
        o = En(_ord(eng, unref(a[0]), unref(a[1])))
        return o if name == 'cmp' else En('Some', [o])
    if name == 'from':
        return a[0]
    return slice_method_impl(eng, name, a, callee, fc)


@ext(r'Box::<\[.*\]>::new_uninit|Box::<.*>::new_uninit')
def box_uninit(eng, callee, a, m, fc):
    return BoxCell()


@ext(r'box_assume_init_into_vec_unsafe|<\[.*\]>::into_vec')
def box_into_vec(eng, callee, a, m, fc):
    v = a[0]
    if isinstance(v, BoxCell):
        return VecV(v.payload)
    return v if isinstance(v, VecV) else VecV(list(items_of(v)))


@ext(r'^Box::<.*>::new$|^std::boxed::Box::<.*>::new$')
def box_new(eng, callee, a, m, fc):
    return a[0]


@ext(r'^<Box<.*> as Deref(?:Mut)?>::deref')
def box_deref(eng, callee, a, m, fc):
    return a[0]


# ------------------------------------------------------------------------------------------------ HashMap / HashSet
@ext(r'HashMap::<.*?>::(\w+)(?:::<.*>)?$|HashSet::<.*?>::(\w+)(?:::<.*>)?$|^<HashMap<.*>>::(\w+)$')
def hash_method(eng, callee, a, m, fc):
    name = next(g for g in m.groups() if g)
    is_set = 'HashSet' in callee.split('::<')[0] or callee.startswith('HashSet') or callee.startswith('std::collections::HashSet')
    if name in ('new', 'with_capacity', 'default'):
        return MapV(is_set=is_set)
    if name == 'index':
        return hash_index(eng, callee, a, m, fc)
    mv = unref(a[0])
    if name == 'insert':
        if mv.is_set:
            r = set_insert(eng, mv, a[1], None)
            return r is None
        r = set_insert(eng, mv, a[1], a[2])
        return En('None') if r is None else En('Some', [r[0]])
    if name == 'remove':
        i = set_find(eng, mv, a[1])
        if i is None:
            return False if mv.is_set else En('None')
        k, v = mv.entries.pop(i)
        return True if mv.is_set else En('Some', [v])
    if name in ('contains', 'contains_key'):
        return set_find(eng, mv, a[1]) is not None
    if name in ('get', 'get_mut'):
        i = set_find(eng, mv, a[1])
        if i is None:
            return En('None')
        ent = mv.entries
        if mv.is_set:
            return En('Some', [Ref((lambda i: lambda: ent[i][0])(i))])
        return En('Some', [Ref((lambda i: lambda: ent[i][1])(i), (lambda i: lambda v: ent.__setitem__(i, (ent[i][0], v)))(i))])
    if name == 'len':
        return len(mv.entries)
    if name == 'is_empty':
        return len(mv.entries) == 0
    if name == 'clear':
        mv.entries.clear()
        return ()
    if name == 'entry':
        return Struct('Entry', [mv, a[1]])
    if name in ('keys', 'into_keys'):
        return PermIter([Ref.to(k) if name == 'keys' else k for k, _ in mv.entries])
    if name in ('values', 'values_mut', 'into_values'):
        ent = mv.entries
        if name == 'into_values':
            return PermIter([v for _, v in ent])
        return PermIter([Ref((lambda i: lambda: ent[i][1])(i), (lambda i: lambda v: ent.__setitem__(i, (ent[i][0], v)))(i)) for i in range(len(ent))])
    if name in ('iter', 'iter_mut'):
        return PermIter(map_entries(mv, True))
    if name == 'drain':
        e = map_entries(mv, False)
        mv.entries.clear()
        return PermIter(e)
    if name == 'retain':
        order = map_order(eng, mv)
        keep = []
        for e in order:
            if mv.is_set:
                if eng.branch(eng.call_value(a[1], [Ref.to(e)])):
                    keep.append((e, None))
            else:
                cell = [e[1]]
                if eng.branch(eng.call_value(a[1], [Ref.to(e[0]), Ref(lambda: cell[0], lambda v: cell.__setitem__(0, v))])):
                    keep.append((e[0], cell[0]))
        mv.entries[:] = keep
        return ()
    if name == 'extend':
        for x in all_items(eng, a[1], unordered_ok=True):
            if mv.is_set:
                set_insert(eng, mv, unref(x) if isinstance(x, Ref) else x, None)
            else:
                set_insert(eng, mv, x[0], x[1])
        return ()
    if name in ('union', 'intersection', 'difference'):
        o = unref(a[1])
        if name == 'union':
            res = list(mv.entries)
            tmp = MapV(res, True)
            for k, _ in o.entries:
                set_insert(eng, tmp, k, None)
            ents = tmp.entries
        elif name == 'intersection':
            ents = [(k, None) for k, _ in mv.entries if set_find(eng, o, k) is not None]
        else:
            ents = [(k, None) for k, _ in mv.entries if set_find(eng, o, k) is None]
        order = map_order(eng, MapV(ents, True))
        return IterV([Ref.to(k) for k in order])
    if name == 'is_subset':
        o = unref(a[1])
        return all(set_find(eng, o, k) is not None for k, _ in mv.entries)
    if name == 'reserve':
        return ()
    raise Unsupported('HashMap/HashSet method ' + name)


@ext(r'Entry::<.*>::(or_insert|or_insert_with|or_default|and_modify)$|hash_map::Entry::<.*>::(\w+)$')
def entry_method(eng, callee, a, m, fc):
    name = m.group(1) or m.group(2)
    e = a[0]
    mv, key = e[0], e[1]
    i = set_find(eng, mv, key)
    if i is None:
        if name == 'or_insert':
            val = a[1]
        elif name == 'or_insert_with':
            val = eng.call_value(a[1], [])
        elif name == 'or_default':
            ty = callee
            val = VecV() if 'Vec<' in ty.split('Entry')[-1] else (0 if re.search(r'(usize|u32|i32|u64)>::or_default', ty) else None)
            if val is None:
                raise Unsupported('or_default of ' + ty[:80])
        else:
            raise Unsupported('Entry::' + name)
        mv.entries.append((key, val))
        i = len(mv.entries) - 1
    ent = mv.entries
    return Ref(lambda: ent[i][1], lambda v: ent.__setitem__(i, (ent[i][0], v)))


@ext(r'^<HashMap<.*> as (?:std::ops::)?Index<.*>>::index$')
def hash_index(eng, callee, a, m, fc):
    mv = unref(a[0])
    i = set_find(eng, mv, a[1])
    if i is None:
        raise Panic('HashMap index: key not found (' + ' > '.join(strip_generics(c).split('::')[-1] for c in eng.call_stack[-2:]) + ')')
    ent = mv.entries
    return Ref(lambda: ent[i][1])


@ext(r'^<(?:HashMap|HashSet)<.*> as (FromIterator|Extend)<.*>>::(\w+)')
def hash_from_iter(eng, callee, a, m, fc):
    is_set = callee.startswith('<HashSet')
    if m.group(1) == 'FromIterator':
        mv = MapV(is_set=is_set)
        src = a[0]
    else:
        mv = unref(a[0])
        src = a[1]
    for x in all_items(eng, src, unordered_ok=True):
        if is_set:
            set_insert(eng, mv, unref(x) if isinstance(x, Ref) else x, None)
        else:
            set_insert(eng, mv, x[0], x[1])
    return mv if m.group(1) == 'FromIterator' else ()


@ext(r'^<Vec<.*> as (FromIterator|Extend)<.*>>::(\w+)')
def vec_from_iter(eng, callee, a, m, fc):
    if m.group(1) == 'FromIterator':
        return VecV(_ext.all_items(eng, a[0]))
    unref(a[0]).items.extend(_ext.all_items(eng, a[1]))
    return ()


@ext(r'^<Vec<.*> as From<.*>>::from$|^<Vec<.*> as Into<.*>>::into$')
def vec_from(eng, callee, a, m, fc):
    v = unref(a[0])
    return VecV([clone_val(x) for x in items_of(v)]) if not isinstance(a[0], VecV) else a[0]


# ------------------------------------------------------------------------------------------------ comparisons on ints / tuples / refs
@ext(r'^<(&?)(?:usize|u32|u64|i32|i64|u8|bool|\(.*\)|\[.*\]|&.*) as (PartialEq|PartialOrd|Ord)(?:<.*>)?>::(\w+)$|^core::cmp::impls::<impl (PartialEq|PartialOrd|Ord)(?:<.*>)? for .*>::(\w+)$|^std::cmp::(min|max)::<|^core::cmp::(min|max)::<|^<(?:usize|u32|i32|u64|i64) as Ord>::(min|max|cmp|clamp)$|^core::cmp::Ord::(min|max|cmp)|^std::cmp::Ord::(min|max|cmp)')
def int_cmp(eng, callee, a, m, fc):
    name = [g for g in m.groups() if g][-1]
    x, y = unref(a[0]), unref(a[1]) if len(a) > 1 else None
    while isinstance(x, Ref):
        x = x.get()
    while isinstance(y, Ref):
        y = y.get()
    if name == 'eq':
        return val_eq(eng, x, y)
    if name == 'ne':
        return not val_eq(eng, x, y)
    if name in ('lt', 'le', 'gt', 'ge'):
        o = _ord(eng, x, y)
        return {'lt': o == 'Less', 'le': o != 'Greater', 'gt': o == 'Greater', 'ge': o != 'Less'}[name]
    if name == 'cmp':
        return En(_ord(eng, x, y))
    if name == 'partial_cmp':
        if isinstance(x, (float, Poison, Angle)) or (is_sym(x) and z3.is_real(x)):
            return partial_cmp(eng, x, y)
        return En('Some', [En(_ord(eng, x, y))])
    if name in ('min', 'max'):
        if isinstance(x, (float, Angle, Poison)) or (is_sym(x) and z3.is_real(x)):
            return f_min(x, y) if name == 'min' else f_max(x, y)
        if not is_sym(x) and not is_sym(y):
            return min(x, y) if name == 'min' else max(x, y)
        return z3.If(x <= y, x, y) if name == 'min' else z3.If(x >= y, x, y)
    if name == 'clamp':
        z = unref(a[2])
        return max(y, min(z, x))
    raise Unsupported('cmp method ' + name)


@ext(r'^<(?:std::ops::|core::ops::)?Range(?:Inclusive)?<.*> as (?:std::ops::)?RangeBounds<.*>>::contains|RangeInclusive::<.*>::contains|Range::<.*>::contains|range::<impl Range.*>::contains')
def range_contains(eng, callee, a, m, fc):
    r = unref(a[0])
    x = unref(a[1])
    lo, hi = num(r.a), num(r.b)
    c1 = f_cmp('Ge', x, lo)
    c2 = f_cmp('Le', x, hi) if r.incl else f_cmp('Lt', x, hi)
    if not is_sym(c1) and not is_sym(c2):
        return bool(c1) and bool(c2)
    return z3.And(c1 if is_sym(c1) else z3.BoolVal(c1), c2 if is_sym(c2) else z3.BoolVal(c2))


@ext(r'RangeInclusive::<.*>::new$')
def range_incl_new(eng, callee, a, m, fc):
    return RangeV(a[0], a[1], True)


@ext(r'^(?:usize|u32|u64|i32|i64|u8|core::num)::<impl (?:usize|u32|u64|i32|i64|u8)>::(\w+)$|^<(?:usize|u32|i32|u64) as \w+>::(\w+)$')
def int_method(eng, callee, a, m, fc):
    name = m.group(1) or m.group(2)
    x = unref(a[0])
    y = unref(a[1]) if len(a) > 1 else None
    if name in ('min', 'max'):
        if not is_sym(x) and not is_sym(y):
            return min(x, y) if name == 'min' else max(x, y)
        return z3.If(x <= y, x, y) if name == 'min' else z3.If(x >= y, x, y)
    if name == 'abs':
        return abs(x) if not is_sym(x) else z3.If(x >= 0, x, -x)
    if name == 'pow':
        return x ** y
    if name == 'saturating_sub':
        if not is_sym(x) and not is_sym(y):
            return max(0, x - y)
        return z3.If(x >= y, x - y, 0)
    if name in ('wrapping_add', 'wrapping_sub'):
        return x + y if name == 'wrapping_add' else x - y
    if name in ('checked_sub',):
        if not is_sym(x) and not is_sym(y):
            return En('Some', [x - y]) if x >= y else En('None')
    if name == 'from' or name == 'into' or name == 'clone':
        return x
    if name == 'default':
        return 0
    if name == 'abs_diff':
        return abs(x - y) if not is_sym(x) and not is_sym(y) else z3.If(x >= y, x - y, y - x)
    if name in ('add', 'sub', 'mul'):
        return {'add': x + y, 'sub': x - y, 'mul': x * y}[name]
    if name in ('add_assign', 'sub_assign'):
        a[0].set(a[0].get() + y if name == 'add_assign' else a[0].get() - y)
        return ()
    if name in ('eq', 'ne'):
        r = val_eq(eng, x, y)
        return r if name == 'eq' else not r
    raise Unsupported('int method ' + name)


@ext(r'^<(?:usize|u32|u64|i32|f64) as (?:From|TryFrom|Into)<.*>>::(from|into|try_from)$')
def int_from(eng, callee, a, m, fc):
    return a[0] if m.group(1) != 'try_from' else En('Ok', [a[0]])


@ext(r'^core::hint::|^std::hint::|intrinsics::(?:assume|unlikely|likely|cold_path)|^std::intrinsics::')
def hints(eng, callee, a, m, fc):
    return a[0] if a else ()
