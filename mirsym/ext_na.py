"""nalgebra / parry / simba summaries.  Values: vector = python list of scalars, point = Struct('OPoint',[vec]),
Unit = Struct('Unit',[inner]), matrix = Mat, 2D rotation = Unit[Complex[re,im]], 3D rotation = Struct('Quat',[Mat 3x3])
(a unit quaternion is modelled by its rotation matrix), Isometry = Struct('Isometry',[rotation, Translation[vec]])."""
import re
import z3
from .vals import *
from .ext import (ext, unref, items_of, Mat, pt, vec_of, vadd, vsub, vscale, vdot, vcross, rot2, rot2_cs, iso2, iso_parts,
                  rot_apply, rot_inv, rot_mul, quat, rot3_axis, any_poison, clone_val)
from . import ext as _ext


def zero():
    return 0.0 if MODE[0] == 'conc' else z3.RealVal(0)


def one():
    return 1.0 if MODE[0] == 'conc' else z3.RealVal(1)


def kind(v):
    v = unref(v)
    if isinstance(v, Mat):
        return 'mat'
    if isinstance(v, Struct):
        if v.name == 'OPoint':
            return 'point'
        if v.name == 'Isometry':
            return 'iso'
        if v.name == 'Quat':
            return 'rot'
        if v.name == 'Translation':
            return 'trans'
        if v.name == 'Unit':
            inner = v[0]
            if isinstance(inner, Struct) and inner.name == 'Complex':
                return 'rot'
            if isinstance(inner, Struct) and inner.name == 'Quat':
                return 'rot'
            return 'unit'
        if v.name == 'Rotation':
            return 'rotmat'
    if isinstance(v, list):
        return 'vec'
    return 'scalar'


def unit(v):
    return Struct('Unit', [list(v)])


def norm_nonzero(eng, v):
    """(norm, is_nonzero): the zero test is posed on the components (linear) and the norm marked positive"""
    v = [num(c) for c in v]
    if any(isinstance(c, Poison) for c in v):
        return Poison('nonfinite', 'norm of non-finite vector'), False
    if MODE[0] == 'conc':
        n = norm_of(v)
        return n, n != 0
    conds = [c == 0 for c in v if not (as_fraction(c) is not None and as_fraction(c) == 0)]
    concrete_nonzero = any(as_fraction(c) is not None and as_fraction(c) != 0 for c in v)
    if not concrete_nonzero:
        if not conds or eng.branch(z3.And(conds)):
            return norm_of(v), False
    n = norm_of(v)
    if is_sym(n):
        ctx().known_pos.append(zsimp(n))
    return n, True


def dims(s):
    """(rows, cols) from a Matrix<..> type fragment"""
    m = re.search(r'Matrix<\w+(?:<.*?>)?, (?:[\w:]*::)?Const<(\w+)>, (?:[\w:]*::)?Const<(\w+)>', s)
    if m:
        try:
            return int(m.group(1)), int(m.group(2))
        except ValueError:
            return None
    return None


def iso_apply_point(t, p):
    rot, tr = iso_parts(t)
    return pt(vadd(rot_apply(rot, vec_of(p)), tr))


def iso_mul(a, b):
    ra, ta = iso_parts(a)
    rb, tb = iso_parts(b)
    return Struct('Isometry', [rot_mul(ra, rb), Struct('Translation', [vadd(rot_apply(ra, tb), ta)])])


def iso_inverse(t):
    r, tr = iso_parts(t)
    ri = rot_inv(r)
    return Struct('Isometry', [ri, Struct('Translation', [[f_neg(x) for x in rot_apply(ri, tr)]])])


def identity_rot(d):
    if d == 2:
        return rot2(one(), zero())
    return quat(Mat([[one() if i == j else zero() for j in range(3)] for i in range(3)]))


def gen_mul(a, b):
    a, b = unref(a), unref(b)
    ka, kb = kind(a), kind(b)
    if ka == 'scalar' and kb == 'scalar':
        return f_mul(a, b)
    if ka == 'scalar':
        return gen_mul(b, a)
    if kb == 'scalar':
        if ka == 'vec':
            return vscale(a, b)
        if ka == 'point':
            return pt(vscale(vec_of(a), b))
        if ka == 'unit':
            return vscale(a[0], b)
        if ka == 'mat':
            return Mat([[f_mul(x, b) for x in r] for r in a.rows])
    if ka == 'iso':
        if kb == 'point':
            return iso_apply_point(a, b)
        if kb == 'vec':
            return rot_apply(iso_parts(a)[0], b)
        if kb == 'unit':
            return unit(rot_apply(iso_parts(a)[0], b[0]))
        if kb == 'iso':
            return iso_mul(a, b)
        if kb == 'rot':
            r, t = iso_parts(a)
            return Struct('Isometry', [rot_mul(r, b), Struct('Translation', [list(t)])])
        if kb == 'trans':
            r, t = iso_parts(a)
            return Struct('Isometry', [r, Struct('Translation', [vadd(rot_apply(r, b[0]), t)])])
    if ka == 'rot':
        if kb == 'vec':
            return rot_apply(a, b)
        if kb == 'point':
            return pt(rot_apply(a, vec_of(b)))
        if kb == 'unit':
            return unit(rot_apply(a, b[0]))
        if kb == 'rot':
            return rot_mul(a, b)
        if kb == 'iso':
            r, t = iso_parts(b)
            return Struct('Isometry', [rot_mul(a, r), Struct('Translation', [rot_apply(a, t)])])
        if kb == 'trans':
            return Struct('Isometry', [a, Struct('Translation', [rot_apply(a, b[0])])])
    if ka == 'trans':
        if kb == 'point':
            return pt(vadd(vec_of(b), a[0]))
        if kb == 'rot':
            return Struct('Isometry', [b, Struct('Translation', [list(a[0])])])
        if kb == 'iso':
            r, t = iso_parts(b)
            return Struct('Isometry', [r, Struct('Translation', [vadd(t, a[0])])])
        if kb == 'trans':
            return Struct('Translation', [vadd(a[0], b[0])])
    if ka == 'mat':
        if kb == 'mat':
            return a.mul(b)
        if kb == 'vec':
            return a.mul(b)
        if kb == 'point':
            return pt(a.mul(vec_of(b)))
        if kb == 'unit':
            return a.mul(b[0])
        if kb == 'rotmat':
            return a.mul(b[0])
    if ka == 'rotmat':
        return gen_mul(a[0], b)
    if ka == 'vec' and kb == 'mat':
        # row vector times matrix is not used by the kernels in scope
        raise Unsupported('vector * matrix')
    raise Unsupported(f'mul of {ka} and {kb}')


def gen_add(a, b, sign=1):
    a, b = unref(a), unref(b)
    ka, kb = kind(a), kind(b)
    op = vadd if sign == 1 else vsub
    if ka == 'scalar' and kb == 'scalar':
        return f_add(a, b) if sign == 1 else f_sub(a, b)
    if ka == 'point' and kb == 'point':
        if sign == -1:
            return vsub(vec_of(a), vec_of(b))
        raise Unsupported('point + point')
    if ka == 'point' and kb in ('vec', 'unit'):
        return pt(op(vec_of(a), vec_of(b) if kb == 'vec' else b[0]))
    if ka in ('vec', 'unit') and kb in ('vec', 'unit'):
        return op(a if ka == 'vec' else a[0], b if kb == 'vec' else b[0])
    if ka == 'mat' and kb == 'mat':
        return Mat([[(f_add(x, y) if sign == 1 else f_sub(x, y)) for x, y in zip(r, s)] for r, s in zip(a.rows, b.rows)])
    raise Unsupported(f'add/sub of {ka} and {kb}')


def gen_neg(a):
    a = unref(a)
    k = kind(a)
    if k == 'scalar':
        return f_neg(a)
    if k == 'vec':
        return [f_neg(x) for x in a]
    if k == 'unit':
        return unit([f_neg(x) for x in a[0]])
    if k == 'point':
        return pt([f_neg(x) for x in vec_of(a)])
    if k == 'mat':
        return Mat([[f_neg(x) for x in r] for r in a.rows])
    raise Unsupported('neg of ' + k)


def gen_div(a, b):
    a, b = unref(a), unref(b)
    k = kind(a)
    if k == 'scalar':
        return f_div(a, b)
    if k == 'vec':
        return [f_div(x, b) for x in a]
    if k == 'point':
        return pt([f_div(x, b) for x in vec_of(a)])
    if k == 'mat':
        return Mat([[f_div(x, b) for x in r] for r in a.rows])
    if k == 'unit':
        return [f_div(x, b) for x in a[0]]
    raise Unsupported('div of ' + k)


NA = r'(?:[\w]+::)*(?:OPoint|Matrix|Unit|Isometry|Translation|Rotation|Quaternion|Complex)'


@ext(r'^<&?(?:\'\w+ )?' + NA + r'<.*> as (?:std::ops::|core::ops::)?(Add|Sub|Mul|Div|Neg)(?:<.*>)?>::(add|sub|mul|div|neg)$')
def na_ops(eng, callee, a, m, fc):
    op = m.group(1)
    if op == 'Add':
        return gen_add(a[0], a[1], 1)
    if op == 'Sub':
        return gen_add(a[0], a[1], -1)
    if op == 'Mul':
        return gen_mul(a[0], a[1])
    if op == 'Div':
        return gen_div(a[0], a[1])
    return gen_neg(a[0])


@ext(r'^<&?(?:\'\w+ )?' + NA + r'<.*> as (?:std::ops::|core::ops::)?(AddAssign|SubAssign|MulAssign|DivAssign)(?:<.*>)?>::\w+$')
def na_assign_ops(eng, callee, a, m, fc):
    op = m.group(1)
    cur = a[0].get()
    r = {'AddAssign': lambda: gen_add(cur, a[1], 1), 'SubAssign': lambda: gen_add(cur, a[1], -1), 'MulAssign': lambda: gen_mul(cur, a[1]), 'DivAssign': lambda: gen_div(cur, a[1])}[op]()
    a[0].set(r)
    return ()


@ext(r'^<(?:\w+::)*OPoint<.*> as Deref(?:Mut)?>::deref(?:_mut)?$')
def point_deref(eng, callee, a, m, fc):
    r = a[0]
    return Ref(lambda: r.get()[0], lambda v: r.get().__setitem__(0, v))


@ext(r'^<(?:\w+::)*Matrix<.*> as Deref(?:Mut)?>::deref(?:_mut)?$')
def matrix_deref(eng, callee, a, m, fc):
    v = unref(a[0])
    if isinstance(v, Mat):
        # M11, M12 ... view: column-major field order
        flat = Struct('MView', [v.rows[i][j] for j in range(v.m) for i in range(v.n)])
        return Ref(lambda: flat)
    return a[0]


@ext(r'^<(?:\w+::)*Unit<.*> as (?:Deref|AsRef<.*>)>::(?:deref|as_ref)$|^Unit::<.*>::as_ref$')
def unit_deref(eng, callee, a, m, fc):
    r = a[0]
    return Ref(lambda: r.get()[0])


@ext(r'(?:^|::)Unit::<.*>::(\w+)$|^base::unit::<impl Unit<.*>>::(\w+)$|^<Unit<.*>>::(\w+)$|(?:^|::)geometry::\w+::<impl (?:[\w:]+::)?Unit<.*>>::(\w+)$')
def unit_method(eng, callee, a, m, fc):
    name = next(g for g in m.groups() if g)
    if name in ('new_normalize', 'new_and_get', 'try_new'):
        v = vec_of(a[0])
        n, nz = norm_nonzero(eng, v)
        if isinstance(n, Poison) or not nz:
            u = unit([Poison('nan', 'normalise of a zero or non-finite vector') for _ in v])
            if not isinstance(n, Poison):
                ctx().events.append('normalisation of a zero vector')
        else:
            u = unit([f_div(x, n) for x in v])
        if name == 'new_and_get':
            return [u, n]
        if name == 'try_new':
            eps = a[1]
            if isinstance(n, Poison):
                return En('None')
            if eng.branch(f_cmp('Gt', n, eps)):
                return En('Some', [u])
            return En('None')
        return u
    if name == 'new_unchecked':
        return Struct('Unit', [a[0]])
    if name == 'into_inner':
        return unref(a[0])[0]
    if name in ('angle',):
        # UnitComplex::angle
        c, s = rot2_cs(a[0])
        return f_atan2(s, c)
    if name in ('inverse', 'conjugate'):
        return rot_inv(a[0])
    if name in ('cos_angle', 're'):
        return rot2_cs(a[0])[0]
    if name in ('sin_angle', 'im'):
        return rot2_cs(a[0])[1]
    if name == 'new':
        # UnitComplex::new(angle)
        return rot2(f_cos(a[0]), f_sin(a[0]))
    if name == 'identity':
        return identity_rot(2 if 'Complex' in callee else 3)
    if name == 'to_rotation_matrix':
        r = unref(a[0])
        if kind(r) == 'rot' and isinstance(r, Struct) and r.name == 'Quat':
            return Struct('Rotation', [r[0].copy()])
        c, s = rot2_cs(r)
        return Struct('Rotation', [Mat([[c, f_neg(s)], [s, c]])])
    if name in ('transform_vector', 'transform_point'):
        return gen_mul(a[0], a[1])
    if name in ('inverse_transform_vector', 'inverse_transform_point'):
        return gen_mul(rot_inv(a[0]), a[1])
    if name == 'from_euler_angles':
        rx, ry, rz = a[0], a[1], a[2]
        return quat(rot3_axis(2, rz).mul(rot3_axis(1, ry)).mul(rot3_axis(0, rx)))
    if name in ('from_matrix', 'from_rotation_matrix', 'from_matrix_unchecked', 'from_basis_unchecked'):
        mm = unref(a[0])
        if isinstance(mm, Struct) and mm.name == 'Rotation':
            mm = mm[0]
        if isinstance(mm, list) and not isinstance(mm, Mat):
            cols = [vec_of(c) for c in mm]
            mm = Mat([[cols[j][i] for j in range(len(cols))] for i in range(len(cols[0]))])
        ob = eng.observers.get('from_matrix_obs')
        if ob:
            ob(eng, callee, [mm])
        return quat(mm)
    if name == 'from_axis_angle':
        ax = vec_of(a[0])
        fx = [as_fraction(c) for c in ax]
        if all(f is not None for f in fx):
            for i in range(3):
                if fx[i] == 1 and all(fx[j] == 0 for j in range(3) if j != i):
                    return quat(rot3_axis(i, a[1]))
        raise Unsupported('from_axis_angle with a general axis')
    if name == 'euler_angles':
        return euler_angles(eng, unref(a[0]))
    if name in ('clone', 'to_owned'):
        return clone_val(unref(a[0]))
    if name == 'scaled_axis' or name == 'axis_angle' or name == 'axis':
        raise Unsupported('quaternion axis-angle extraction')
    if name == 'rotation_to':
        raise Unsupported('rotation_to')
    raise Unsupported('Unit method ' + name)


def euler_angles(eng, q):
    """contract of nalgebra's UnitQuaternion::euler_angles on the regular (non gimbal-lock) branch:
    returns (roll, pitch, yaw) with R = Rz(yaw) Ry(pitch) Rx(roll), pitch in (-pi/2, pi/2)"""
    R = q[0].rows
    # sin(pitch) = -R[2][0]
    sp = f_neg(R[2][0])
    if eng.branch(z3.Or(sp >= 1, sp <= -1)) if is_sym(sp) else (abs(sp) >= 1):
        raise Unsupported('euler_angles at gimbal lock (pitch = +-pi/2): conditioning of the dependency, outside the claim')
    pitch = f_asin(sp)
    roll = f_atan2(R[2][1], R[2][2])
    yaw = f_atan2(R[1][0], R[0][0])
    return [roll, pitch, yaw]


@ext(r'(?:^|::)base::norm::<impl Matrix<.*>>::(\w+)|(?:^|::)Matrix::<.*?>::(\w+)(?:::<.*>)?$|(?:^|::)Matrix::<.*>::(norm|normalize|as_slice|iter|fill|len|sum|dot|norm_squared|magnitude|dot|cross|perp|angle|transpose|try_inverse|determinant|sum|iter|abs|scale|component_mul|min|max|amax|amin|len|nrows|ncols|clone_owned|into_owned|column|row|fixed_rows|xy|xyz|push|as_slice|map|try_normalize|normalize_mut|zip_map|fill|copy_from|lerp)$|(?:^|::)base::(?:blas|ops|matrix|statistics|edition|min_max|swizzle|componentwise|construction|coordinates|conversion|iter|properties)::<impl (?:\w+(?:<.*>)? for )?Matrix<.*>>::(\w+)|(?:^|::)linalg::\w+::<impl Matrix<.*>>::(\w+)|(?:^|::)base::matrix::<impl Matrix<.*>>::(\w+)')
def matrix_method(eng, callee, a, m, fc):
    name = next(g for g in m.groups() if g)
    return matrix_method_impl(eng, name, a, callee, fc)


def matrix_method_impl(eng, name, a, callee, fc):
    v = unref(a[0]) if a else None
    if name in ('norm', 'magnitude'):
        return norm_of(vec_of(v))
    if name in ('norm_squared', 'magnitude_squared'):
        vv = vec_of(v)
        return vdot(vv, vv)
    if name == 'normalize':
        vv = vec_of(v)
        n, nz = norm_nonzero(eng, vv)
        if isinstance(n, Poison) or not nz:
            if not isinstance(n, Poison):
                ctx().events.append('normalisation of a zero vector')
            return [Poison('nan', 'normalize of a zero or non-finite vector') for _ in vv]
        return [f_div(x, n) for x in vv]
    if name == 'try_normalize':
        vv = vec_of(v)
        n = norm_of(vv)
        if isinstance(n, Poison):
            return En('None')
        if eng.branch(f_cmp('Le', n, a[1])):
            return En('None')
        return En('Some', [[f_div(x, n) for x in vv]])
    if name == 'dot':
        return vdot(vec_of(v), vec_of(a[1]))
    if name == 'cross':
        x, y = vec_of(v), vec_of(a[1])
        if len(x) == 2:
            return [f_sub(f_mul(x[0], y[1]), f_mul(x[1], y[0]))]
        return vcross([num(c) for c in x], [num(c) for c in y])
    if name == 'perp':
        x, y = vec_of(v), vec_of(a[1])
        return f_sub(f_mul(x[0], y[1]), f_mul(x[1], y[0]))
    if name == 'angle':
        # angle between two vectors in [0, pi]
        x, y = vec_of(v), vec_of(a[1])
        nx, ny = norm_of(x), norm_of(y)
        if isinstance(nx, Poison) or isinstance(ny, Poison):
            return Poison('nan', 'angle of non-finite vectors')
        prod = f_mul(nx, ny)
        if eng.branch(prod == 0) if is_sym(prod) else (prod == 0):
            return Angle(0)
        cosv = f_div(vdot(x, y), prod)
        # nalgebra clamps the cosine to [-1, 1] before acos
        return f_acos(cosv)
    if name == 'transpose':
        if isinstance(v, Mat):
            return v.t()
        return Mat([list(v)])
    if name == 'new':
        d = dims(callee)
        if d and d[1] == 1:
            return list(a)
        if d:
            r, c = d
            return Mat([[a[i * c + j] for j in range(c)] for i in range(r)])
        return list(a)
    if name in ('zeros', 'zero'):
        d = dims(callee)
        if d:
            r, c = d
            return [zero() for _ in range(r)] if c == 1 else Mat([[zero() for _ in range(c)] for _ in range(r)])
        # dynamic: zeros(n) / zeros(n, m)
        mm = re.search(r'Matrix<f64, Dyn, (?:[\w:]*::)?Const<(\d+)>', callee)
        if mm:
            c = int(mm.group(1))
            n = a[0]
            return [zero() for _ in range(n)] if c == 1 else Mat([[zero() for _ in range(c)] for _ in range(n)])
        if re.search(r'Matrix<f64, Dyn, Dyn', callee):
            return Mat([[zero() for _ in range(a[1])] for _ in range(a[0])])
        raise Unsupported('zeros for ' + callee[:100])
    if name == 'identity':
        d = dims(callee)
        r, c = d
        return Mat([[one() if i == j else zero() for j in range(c)] for i in range(r)])
    if name in ('x', 'y', 'z') and not a:
        d = dims(callee)
        n = d[0] if d else 3
        i = 'xyz'.index(name)
        return [one() if k == i else zero() for k in range(n)]
    if name in ('x_axis', 'y_axis', 'z_axis'):
        d = dims(callee)
        n = d[0] if d else 3
        i = 'xyz'.index(name[0])
        return unit([one() if k == i else zero() for k in range(n)])
    if name == 'repeat' or name == 'from_element':
        d = dims(callee)
        r, c = d
        val = a[-1]
        return [val for _ in range(r)] if c == 1 else Mat([[val for _ in range(c)] for _ in range(r)])
    if name == 'from_columns':
        cols = [vec_of(c) for c in items_of(a[0])]
        return Mat([[cols[j][i] for j in range(len(cols))] for i in range(len(cols[0]))])
    if name == 'from_rows':
        return Mat([vec_of(c) for c in items_of(a[0])])
    if name in ('from_vec', 'from_row_slice', 'from_column_slice', 'from_iterator', 'from_row_iterator'):
        d = dims(callee)
        data = _ext.all_items(eng, a[-1])
        data = [unref(x) for x in data]
        if d is None:
            mm = re.search(r'Matrix<f64, Dyn, (?:[\w:]*::)?Const<(\d+)>', callee)
            if mm and int(mm.group(1)) == 1:
                return list(data)
            if mm:
                c = int(mm.group(1))
                r = a[0]
                if 'row' in name:
                    return Mat([[data[i * c + j] for j in range(c)] for i in range(r)])
                return Mat([[data[j * r + i] for j in range(c)] for i in range(r)])
            raise Unsupported(name + ' for ' + callee[:80])
        r, c = d
        if c == 1:
            return list(data)
        if 'row' in name:
            return Mat([[data[i * c + j] for j in range(c)] for i in range(r)])
        return Mat([[data[j * r + i] for j in range(c)] for i in range(r)])
    if name in ('clone_owned', 'into_owned', 'clone', 'xy', 'xyz'):
        if name == 'xy':
            return list(vec_of(v)[:2])
        if name == 'xyz':
            return list(vec_of(v)[:3])
        return clone_val(v)
    if name == 'push':
        return list(vec_of(v)) + [a[1]]
    if name in ('scale',):
        return gen_mul(v, a[1])
    if name == 'abs':
        return [f_abs(x) for x in vec_of(v)]
    if name == 'component_mul':
        return [f_mul(x, y) for x, y in zip(vec_of(v), vec_of(a[1]))]
    if name == 'sum':
        vv = vec_of(v) if not isinstance(v, Mat) else [x for r in v.rows for x in r]
        r = zero()
        for x in vv:
            r = f_add(r, x)
        return r
    if name in ('nrows', 'len'):
        return v.n if isinstance(v, Mat) else len(v)
    if name == 'ncols':
        return v.m if isinstance(v, Mat) else 1
    if name in ('iter',):
        vv = vec_of(v) if not isinstance(v, Mat) else [v.rows[i][j] for j in range(v.m) for i in range(v.n)]
        return IterV([Ref.to(x) for x in vv])
    if name == 'as_slice':
        vv = vec_of(v) if not isinstance(v, Mat) else [v.rows[i][j] for j in range(v.m) for i in range(v.n)]
        s = VecV(vv)
        return Ref(lambda: s)
    if name == 'determinant':
        R = v.rows
        if v.n == 2:
            return R[0][0] * R[1][1] - R[0][1] * R[1][0]
        if v.n == 3:
            return (R[0][0] * (R[1][1] * R[2][2] - R[1][2] * R[2][1]) - R[0][1] * (R[1][0] * R[2][2] - R[1][2] * R[2][0]) + R[0][2] * (R[1][0] * R[2][1] - R[1][1] * R[2][0]))
        raise Unsupported('determinant n>3')
    if name == 'try_inverse':
        ob = eng.observers.get('try_inverse_obs')
        if ob:
            r = ob(eng, callee, [v])
            if r is not NotImplemented:
                return r
        return try_inverse(eng, v)
    if name == 'column':
        j = a[1]
        col = [v.rows[i][j] for i in range(v.n)]
        return col
    if name == 'row':
        return list(v.rows[a[1]])
    if name == 'map':
        vv = vec_of(v)
        return [eng.call_value(a[1], [x]) for x in vv]
    if name == 'lerp':
        x, y, t = vec_of(v), vec_of(a[1]), a[2]
        return [f_add(f_mul(xi, f_sub(one(), t)), f_mul(yi, t)) for xi, yi in zip(x, y)]
    if name in ('min', 'max', 'amax', 'amin'):
        vv = [num(x) for x in vec_of(v)]
        r = f_abs(vv[0]) if name[0] == 'a' else vv[0]
        for x in vv[1:]:
            x = f_abs(x) if name[0] == 'a' else x
            r = f_min(r, x) if name.endswith('min') else f_max(r, x)
        return r
    if name == 'svd':
        ob = eng.observers.get('svd_obs')
        if ob:
            return ob(eng, callee, [v] + list(a[1:]))
        raise Unsupported('svd (dependency; outside the claim)')
    if name in ('index', 'index_mut'):
        return na_index(eng, callee, a, None, fc)
    if name == 'fill':
        if isinstance(v, Mat):
            for r in v.rows:
                for j in range(len(r)):
                    r[j] = a[1]
        else:
            for j in range(len(v)):
                v[j] = a[1]
        return ()
    if name == 'from':
        return a[0]
    raise Unsupported('Matrix method ' + name + ' :: ' + callee[:80])


def try_inverse(eng, mm):
    """contract: Some(X) with M X = I iff det != 0.  Closed forms for n <= 3, defining constraints beyond."""
    n = mm.n
    R = [[num(x) for x in r] for r in mm.rows]
    if n == 1:
        det = R[0][0]
    elif n == 2:
        det = R[0][0] * R[1][1] - R[0][1] * R[1][0]
    elif n == 3:
        det = (R[0][0] * (R[1][1] * R[2][2] - R[1][2] * R[2][1]) - R[0][1] * (R[1][0] * R[2][2] - R[1][2] * R[2][0]) + R[0][2] * (R[1][0] * R[2][1] - R[1][1] * R[2][0]))
    else:
        det = None
    if MODE[0] == 'conc':
        import numpy as np
        A = np.array(R, dtype=float)
        if abs(np.linalg.det(A)) == 0:
            return En('None')
        return En('Some', [Mat(np.linalg.inv(A).tolist())])
    X = [[ctx().fresh(f'inv{i}{j}') for j in range(n)] for i in range(n)]
    facts = []
    for i in range(n):
        for j in range(n):
            facts.append(sum((R[i][k] * X[k][j] for k in range(1, n)), R[i][0] * X[0][j]) == (1 if i == j else 0))
    if det is not None:
        if eng.branch(det == 0):
            return En('None')
    else:
        ctx().events.append('try_inverse of n>3 matrix assumed non-singular')
    for row in X:
        for x in row:
            ctx().add_def(x, facts)
    return En('Some', [Mat(X)])


@ext(r'^<(?:\w+::)*(?:Matrix|OPoint)<.*> as (?:std::ops::|core::ops::)?Index(?:Mut)?<(.*)>>::index(?:_mut)?$')
def na_index(eng, callee, a, m, fc):
    r = a[0]
    v = unref(r)
    i = a[1]
    if isinstance(v, Struct) and v.name == 'OPoint':
        vv = v[0]
        return Ref(lambda: vv[i], lambda x: vv.__setitem__(i, x))
    if isinstance(v, Mat):
        if isinstance(i, (list, tuple)):
            ri, ci = i[0], i[1]
            if is_sym(ri):
                ri = eng.concretize_int(ri, 0, v.n - 1)
            if is_sym(ci):
                ci = eng.concretize_int(ci, 0, v.m - 1)
            if not (0 <= ri < v.n and 0 <= ci < v.m):
                raise Panic('matrix index out of bounds')
            return Ref(lambda: v.rows[ri][ci], lambda x: v.rows[ri].__setitem__(ci, x))
        # linear (column-major) index
        ri, ci = i % v.n, i // v.n
        return Ref(lambda: v.rows[ri][ci], lambda x: v.rows[ri].__setitem__(ci, x))
    if is_sym(i):
        i = eng.concretize_int(i, 0, len(v) - 1)
    if not (0 <= i < len(v)):
        raise Panic('matrix index out of bounds')
    return Ref(lambda: v[i], lambda x: v.__setitem__(i, x))


@ext(r'^geometry::point_construction::<impl OPoint<.*>>::(\w+)$|^OPoint::<.*>::(\w+)$|^geometry::point::<impl OPoint<.*>>::(\w+)|^<OPoint<.*> as From<.*>>::(from)$|^<Matrix<.*> as Into<(?:[\w:]*::)?OPoint<.*>>>::(into)$|^geometry::point_\w+::<impl \w+(?:<.*>)? for OPoint<.*>>::(\w+)')
def point_method(eng, callee, a, m, fc):
    name = next(g for g in m.groups() if g)
    if name == 'new':
        return pt(a)
    if name == 'origin':
        mm = re.search(r'Const<(\d+)>', callee)
        return pt([zero() for _ in range(int(mm.group(1)))])
    if name in ('from', 'into'):
        return pt(list(vec_of(a[0])))
    if name in ('coords',):
        return list(vec_of(a[0]))
    if name == 'xy':
        return pt(vec_of(a[0])[:2])
    if name == 'iter':
        return IterV([Ref.to(x) for x in vec_of(a[0])])
    if name in ('clone',):
        return clone_val(unref(a[0]))
    if name == 'from_slice':
        return pt([unref(x) for x in items_of(a[0])])
    if name == 'len':
        return len(vec_of(a[0]))
    raise Unsupported('Point method ' + name)


@ext(r'^geometry::isometry\w*::<impl (?:\w+(?:<.*>)? for )?Isometry<.*>>::(\w+)$|^Isometry::<.*>::(\w+)$|^<Isometry<.*>>::(\w+)$')
def iso_method(eng, callee, a, m, fc):
    name = next(g for g in m.groups() if g)
    d = 2 if ('Complex' in callee or ', 2>' in callee) else 3
    if name == 'rotation':
        if d == 2:
            return iso2(f_cos(a[0]), f_sin(a[0]), zero(), zero())
        raise Unsupported('Isometry3::rotation(axisangle)')
    if name == 'translation':
        return Struct('Isometry', [identity_rot(d), Struct('Translation', [list(a)])])
    if name == 'identity':
        return Struct('Isometry', [identity_rot(d), Struct('Translation', [[zero() for _ in range(d)]])])
    if name == 'new':
        if d == 2:
            t = vec_of(a[0])
            return iso2(f_cos(a[1]), f_sin(a[1]), t[0], t[1])
        raise Unsupported('Isometry3::new(axisangle)')
    if name == 'from_parts':
        tr = unref(a[0])
        return Struct('Isometry', [unref(a[1]), Struct('Translation', [list(tr[0])])])
    if name == 'inverse':
        return iso_inverse(a[0])
    if name in ('transform_point',):
        return iso_apply_point(a[0], a[1])
    if name in ('transform_vector',):
        return rot_apply(iso_parts(a[0])[0], vec_of(a[1]))
    if name == 'inverse_transform_point':
        return iso_apply_point(iso_inverse(a[0]), a[1])
    if name == 'inverse_transform_vector':
        return rot_apply(rot_inv(iso_parts(a[0])[0]), vec_of(a[1]))
    if name == 'inv_mul':
        return iso_mul(iso_inverse(a[0]), a[1])
    if name in ('clone',):
        return clone_val(unref(a[0]))
    if name == 'to_homogeneous' or name == 'to_matrix':
        r, t = iso_parts(a[0])
        if d == 2:
            c, s = rot2_cs(r)
            return Mat([[c, f_neg(s), t[0]], [s, c, t[1]], [zero(), zero(), one()]])
        R = r[0].rows
        return Mat([R[0] + [t[0]], R[1] + [t[1]], R[2] + [t[2]], [zero(), zero(), zero(), one()]])
    if name == 'rotation_wrt_point':
        rr = unref(a[0])
        p = vec_of(a[1])
        # T(p) R T(-p)
        return Struct('Isometry', [rr, Struct('Translation', [vsub(p, rot_apply(rr, p))])])
    raise Unsupported('Isometry method ' + name)


@ext(r'^geometry::translation\w*::<impl (?:\w+(?:<.*>)? for )?Translation<.*>>::(\w+)$|^Translation::<.*>::(\w+)$|^<Translation<.*> as From<.*>>::(from)$')
def trans_method(eng, callee, a, m, fc):
    name = next(g for g in m.groups() if g)
    if name == 'new':
        return Struct('Translation', [list(a)])
    if name == 'from':
        return Struct('Translation', [list(vec_of(a[0]))])
    if name == 'inverse':
        return Struct('Translation', [[f_neg(x) for x in unref(a[0])[0]]])
    if name == 'identity':
        mm = re.search(r', (\d)>', callee)
        return Struct('Translation', [[zero() for _ in range(int(mm.group(1)))]])
    if name == 'transform_point':
        return pt(vadd(vec_of(a[1]), unref(a[0])[0]))
    raise Unsupported('Translation method ' + name)


@ext(r'^geometry::(?:unit_complex|quaternion|rotation)\w*::<impl (?:\w+(?:<.*>)? for )?(?:Unit<.*>|Rotation<.*>)>::(\w+)$|^Rotation::<.*>::(\w+)$')
def rotation_method(eng, callee, a, m, fc):
    name = next(g for g in m.groups() if g)
    if 'Rotation<' in callee.split('::')[0] or callee.startswith('Rotation') or 'for Rotation<' in callee or re.search(r'<impl Rotation<', callee):
        if name == 'new':
            c, s = f_cos(a[0]), f_sin(a[0])
            return Struct('Rotation', [Mat([[c, f_neg(s)], [s, c]])])
        if name in ('matrix',):
            r = a[0]
            return Ref(lambda: unref(r)[0])
        if name in ('into_inner',):
            return unref(a[0])[0]
        if name in ('inverse', 'transpose'):
            return Struct('Rotation', [unref(a[0])[0].t()])
        if name == 'from_matrix_unchecked':
            return Struct('Rotation', [unref(a[0])])
        if name == 'identity':
            d = 2 if ', 2>' in callee else 3
            return Struct('Rotation', [Mat([[one() if i == j else zero() for j in range(d)] for i in range(d)])])
        if name == 'euler_angles':
            return euler_angles(eng, quat(unref(a[0])[0]))
        raise Unsupported('Rotation method ' + name)
    syn = 'Unit::<' + ('Complex' if 'Complex' in callee else 'Quaternion') + '>::' + name
    return unit_method(eng, syn, a, re.match(r'^Unit::<.*>::(\w+)$|^(x)$|^(y)$', syn), fc)


@ext(r'^<(?:\w+::)*Rotation<.*> as (?:std::ops::)?Mul<.*>>::mul$')
def rotation_mul(eng, callee, a, m, fc):
    r = gen_mul(unref(a[0])[0], unref(a[1])[0] if kind(a[1]) == 'rotmat' else a[1])
    return Struct('Rotation', [r]) if isinstance(r, Mat) and kind(a[1]) == 'rotmat' else r


@ext(r'^<(?:\w+::)*Unit<.*> as (?:std::ops::)?Neg>::neg$')
def unit_neg(eng, callee, a, m, fc):
    return gen_neg(a[0])


@ext(r'^<(?:\w+::)*(?:OPoint|Matrix|Unit|Isometry)<.*> as (?:PartialEq|approx::\w+)(?:<.*>)?>::(eq|ne)$')
def na_eq(eng, callee, a, m, fc):
    r = _ext.val_eq(eng, a[0], a[1])
    return r if m.group(1) == 'eq' else not r


@ext(r'^<(?:\w+::)*(?:OPoint|Matrix|Unit|Isometry|Translation|Rotation)<.*> as (?:Copy|Clone)>::clone$')
def na_clone(eng, callee, a, m, fc):
    return clone_val(unref(a[0]))


# ------------------------------------------------------------------------------------------------ parry shapes
@ext(r'(?:^|::)Ball::new$')
def ball_new(eng, callee, a, m, fc):
    return Struct('Ball', [a[0]])


@ext(r'(?:^|::)Aabb::(\w+)(?:::<.*>)?$|bounding_volume::aabb::<impl \w+ for Aabb>::(\w+)|<Aabb as \w+>::(\w+)$')
def aabb_method(eng, callee, a, m, fc):
    name = next(g for g in m.groups() if g)
    if name == 'new':
        return Struct('Aabb', [a[0], a[1]])
    if name in ('from_points', 'from_points_ref'):
        pts = [vec_of(unref(p)) for p in _ext.all_items(eng, a[0])]
        if not pts:
            raise Unsupported('Aabb::from_points of nothing')
        mn, mx = list(pts[0]), list(pts[0])
        for p in pts[1:]:
            mn = [f_min(x, y) for x, y in zip(mn, p)]
            mx = [f_max(x, y) for x, y in zip(mx, p)]
        return Struct('Aabb', [pt(mn), pt(mx)])
    b = unref(a[0])
    if name == 'center':
        return pt([f_div(f_add(x, y), 2.0 if MODE[0] == 'conc' else z3.RealVal(2)) for x, y in zip(vec_of(b[0]), vec_of(b[1]))])
    if name == 'extents':
        return vsub(vec_of(b[1]), vec_of(b[0]))
    if name == 'half_extents':
        return [f_div(x, 2.0 if MODE[0] == 'conc' else z3.RealVal(2)) for x in vsub(vec_of(b[1]), vec_of(b[0]))]
    if name == 'merged':
        o = unref(a[1])
        return Struct('Aabb', [pt([f_min(x, y) for x, y in zip(vec_of(b[0]), vec_of(o[0]))]), pt([f_max(x, y) for x, y in zip(vec_of(b[1]), vec_of(o[1]))])])
    if name == 'contains_local_point':
        p = vec_of(a[1])
        conds = []
        for x, lo, hi in zip(p, vec_of(b[0]), vec_of(b[1])):
            conds += [f_cmp('Ge', x, lo), f_cmp('Le', x, hi)]
        if all(not is_sym(c) for c in conds):
            return all(conds)
        return z3.And([c if is_sym(c) else z3.BoolVal(c) for c in conds])
    if name == 'clone':
        return clone_val(b)
    raise Unsupported('Aabb method ' + name)


@ext(r'(?:^|::)Ray::(\w+)$')
def ray_method(eng, callee, a, m, fc):
    name = m.group(1)
    if name == 'new':
        return Struct('Ray', [a[0], a[1]])
    r = unref(a[0])
    if name == 'point_at':
        return pt(vadd(vec_of(r[0]), vscale(vec_of(r[1]), a[1])))
    if name == 'clone':
        return clone_val(r)
    raise Unsupported('Ray method ' + name)


@ext(r'^<parry\dd_f64::query::Ray as Clone>::clone$')
def ray_clone(eng, callee, a, m, fc):
    return clone_val(unref(a[0]))


@ext(r'(?:^|::)Polyline::(\w+)$')
def polyline_method(eng, callee, a, m, fc):
    name = m.group(1)
    if name == 'new':
        verts = a[0]
        idx = unref(a[1]) if len(a) > 1 else En('None')
        return Struct('Polyline', [verts, idx])
    pl = unref(a[0])
    if name == 'vertices':
        return Ref(lambda: pl[0])
    if name == 'num_segments':
        return len(pl[0].items) - 1
    if name == 'segment':
        i = a[1]
        if is_sym(i):
            i = eng.concretize_int(i, 0, len(pl[0].items) - 2)
        if not (0 <= i < len(pl[0].items) - 1):
            raise Panic('Polyline::segment index out of bounds')
        return Struct('Segment', [clone_val(pl[0].items[i]), clone_val(pl[0].items[i + 1])])
    if name == 'indices':
        if isinstance(pl[1], En) and pl[1].v == 'Some':
            stored = unref(pl[1].f[0])
            return Ref(lambda: stored)
        n = len(pl[0].items)
        s = VecV([[i, i + 1] for i in range(n - 1)])
        return Ref(lambda: s)
    if name == 'local_aabb':
        raise Unsupported('Polyline::local_aabb')
    ob = eng.observers.get('polyline_' + name)
    if ob:
        return ob(eng, callee, a)
    raise Unsupported('Polyline method ' + name + ' (parry query; needs a contract observer)')


@ext(r'(?:^|::)TriMesh::(\w+)$')
def trimesh_method(eng, callee, a, m, fc):
    name = m.group(1)
    if name == 'new':
        return En('Ok', [Struct('TriMesh', [a[0], a[1]])])
    tm = unref(a[0])
    if name == 'indices':
        return Ref(lambda: tm[1])
    if name == 'vertices':
        return Ref(lambda: tm[0])
    if name == 'num_triangles':
        return len(tm[1].items)
    if name == 'triangle':
        i = a[1]
        if is_sym(i):
            i = eng.concretize_int(i, 0, len(tm[1].items) - 1)
        f = tm[1].items[i]
        vs = tm[0].items
        idx = [eng.concretize_int(k, 0, len(vs) - 1) if is_sym(k) else int(k) for k in f]
        return Struct('Triangle', [clone_val(vs[idx[0]]), clone_val(vs[idx[1]]), clone_val(vs[idx[2]])])
    ob = eng.observers.get('trimesh_' + name)
    if ob:
        return ob(eng, callee, a)
    if name == 'local_aabb':
        vs = [vec_of(p) for p in tm[0].items]
        mn, mx = list(vs[0]), list(vs[0])
        for v in vs[1:]:
            mn = [f_min(x, y) for x, y in zip(mn, v)]
            mx = [f_max(x, y) for x, y in zip(mx, v)]
        bb = Struct('Aabb', [pt(mn), pt(mx)])
        return Ref(lambda: bb) if 'local_aabb' in callee and False else bb
    raise Unsupported('TriMesh method ' + name + ' (parry; needs a contract observer)')


@ext(r'^<\w+ as (?:[\w:]*::)?AbstractRotation<f64, \d>>::(\w+)$')
def abstract_rotation(eng, callee, a, m, fc):
    name = m.group(1)
    if name in ('transform_point',):
        return pt(rot_apply(a[0], vec_of(a[1])))
    if name in ('transform_vector',):
        return rot_apply(a[0], vec_of(a[1]))
    if name == 'inverse_transform_point':
        return pt(rot_apply(rot_inv(a[0]), vec_of(a[1])))
    if name == 'inverse_transform_vector':
        return rot_apply(rot_inv(a[0]), vec_of(a[1]))
    if name == 'inverse':
        return rot_inv(a[0])
    raise Unsupported('AbstractRotation::' + name)


@ext(r'(?:^|::)Triangle::(\w+)$')
def triangle_method(eng, callee, a, m, fc):
    name = m.group(1)
    t = unref(a[0])
    pa, pb, pc = [vec_of(x) for x in t[:3]]
    if name in ('normal', 'scaled_normal'):
        n = vcross(vsub(pb, pa), vsub(pc, pa))
        if name == 'scaled_normal':
            return n
        nn, nz = norm_nonzero(eng, n)
        if isinstance(nn, Poison) or not nz:
            return En('None')
        # parry: Unit::try_new(scaled_normal, DEFAULT_EPSILON)
        if eng.branch(f_cmp('Gt', nn, fconst('2.220446049250313e-16'))):
            return En('Some', [unit([f_div(x, nn) for x in n])])
        return En('None')
    if name == 'area':
        n = vcross(vsub(pb, pa), vsub(pc, pa))
        return f_div(norm_of(n), 2.0 if MODE[0] == 'conc' else z3.RealVal(2))
    if name == 'center':
        three = 3.0 if MODE[0] == 'conc' else z3.RealVal(3)
        return pt([f_div(f_add(f_add(x, y), z), three) for x, y, z in zip(pa, pb, pc)])
    if name == 'new':
        return Struct('Triangle', [a[0], a[1], a[2]])
    raise Unsupported('Triangle::' + name)


@ext(r'^<Matrix<.*> as Into<\[f64; \w+\]>>::into$|^<\[f64; \w+\] as From<Matrix<.*>>>::from$')
def matrix_into_array(eng, callee, a, m, fc):
    return list(vec_of(a[0]))


@ext(r'(?:^|::)ConvexPolygon::(\w+)$')
def convex_polygon(eng, callee, a, m, fc):
    name = m.group(1)
    cp = unref(a[0])
    if name == 'points':
        return Ref(lambda: cp[0])
    raise Unsupported('ConvexPolygon::' + name)


# ------------------------------------------------------------------------------------------------ parry point queries by contract
def _closest_on_segment(eng, a, b, q):
    """(point, bary0, bary1, vertex id or None): clamped orthogonal projection of q on the segment a-b (parry: OnVertex / OnEdge)"""
    e = vsub(b, a)
    ee = vdot(e, e)
    s = vdot(vsub(q, a), e)                      # s / ee is the edge parameter
    if eng.branch(f_cmp('Le', s, zero())):
        return list(a), one(), zero(), 0
    if eng.branch(f_cmp('Ge', s, ee)):
        return list(b), zero(), one(), 1
    t = f_div(s, ee)
    return vadd(a, vscale(e, t)), f_sub(one(), t), t, None


@ext(r'^<(?:[\w:]*::)?Polyline as (?:[\w:]*::)?PointQueryWithLocation>::project_local_point_and_get_location$')
def polyline_project(eng, callee, a, m, fc):
    """contract: the projection is a point of the polyline at minimal distance from the query, reported with the edge it lies on and
    its location on that edge (ties between edges: either, forked)"""
    pl = unref(a[0])
    q = vec_of(a[1])
    verts = [vec_of(p) for p in pl[0].items]
    best = None
    for i in range(len(verts) - 1):
        p, b0, b1, vid = _closest_on_segment(eng, verts[i], verts[i + 1], q)
        d = vdot(vsub(q, p), vsub(q, p))
        if best is None or eng.branch(f_cmp('Lt', d, best[0])):
            best = (d, p, b0, b1, vid, i)
    d, p, b0, b1, vid, i = best
    loc = En('OnVertex', [vid], 'SegmentPointLocation') if vid is not None else En('OnEdge', [[b0, b1]], 'SegmentPointLocation')
    prj = Struct('PointProjection', [False, pt(p)])
    return [prj, [i, loc]]


@ext(r'(?:^|::)SegmentPointLocation::(\w+)$')
def segment_point_location(eng, callee, a, m, fc):
    name = m.group(1)
    loc = unref(a[0])
    if name == 'barycentric_coordinates':
        if loc.v == 'OnVertex':
            return [one(), zero()] if int(loc.f[0]) == 0 else [zero(), one()]
        return list(loc.f[0])
    raise Unsupported('SegmentPointLocation::' + name)


def _closest_on_triangle(eng, a, b, c, p):
    """Ericson, Real-Time Collision Detection 5.1.5, with the region decisions forked symbolically"""
    ab, ac, ap = vsub(b, a), vsub(c, a), vsub(p, a)
    d1, d2 = vdot(ab, ap), vdot(ac, ap)
    le0 = lambda x: eng.branch(f_cmp('Le', x, zero()))
    ge0 = lambda x: eng.branch(f_cmp('Ge', x, zero()))
    if le0(d1) and le0(d2):
        return list(a)
    bp = vsub(p, b)
    d3, d4 = vdot(ab, bp), vdot(ac, bp)
    if ge0(d3) and eng.branch(f_cmp('Le', d4, d3)):
        return list(b)
    vc = f_sub(f_mul(d1, d4), f_mul(d3, d2))
    if le0(vc) and ge0(d1) and le0(d3):
        return vadd(a, vscale(ab, f_div(d1, f_sub(d1, d3))))
    cp = vsub(p, c)
    d5, d6 = vdot(ab, cp), vdot(ac, cp)
    if ge0(d6) and eng.branch(f_cmp('Le', d5, d6)):
        return list(c)
    vb = f_sub(f_mul(d5, d2), f_mul(d1, d6))
    if le0(vb) and ge0(d2) and le0(d6):
        return vadd(a, vscale(ac, f_div(d2, f_sub(d2, d6))))
    va = f_sub(f_mul(d3, d6), f_mul(d5, d4))
    if le0(va) and ge0(f_sub(d4, d3)) and ge0(f_sub(d5, d6)):
        return vadd(b, vscale(vsub(c, b), f_div(f_sub(d4, d3), f_add(f_sub(d4, d3), f_sub(d5, d6)))))
    den = f_add(f_add(va, vb), vc)
    return vadd(vadd(a, vscale(ab, f_div(vb, den))), vscale(ac, f_div(vc, den)))


def _trimesh_closest(eng, tm, q):
    vs = [vec_of(p) for p in tm[0].items]
    best = None
    for k, f in enumerate(tm[1].items):
        idx = [int(as_fraction(x)) for x in f]
        p = _closest_on_triangle(eng, vs[idx[0]], vs[idx[1]], vs[idx[2]], q)
        d = vdot(vsub(q, p), vsub(q, p))
        if best is None or eng.branch(f_cmp('Lt', d, best[0])):
            best = (d, p, k)
    return best


@ext(r'^<(?:[\w:]*::)?TriMesh as (?:[\w:]*::)?PointQueryWithLocation>::(project_local_point_and_get_location(?:_with_max_dist)?)$|^<(?:[\w:]*::)?TriMesh as (?:[\w:]*::)?PointQuery>::(project_local_point)$')
def trimesh_project(eng, callee, a, m, fc):
    """contract: the nearest point over all triangles with the id of its triangle; with a cap: Some exactly when its distance is below the cap"""
    name = m.group(1) or m.group(2)
    tm = unref(a[0])
    q = vec_of(a[1])
    d, p, k = _trimesh_closest(eng, tm, q)
    prj = Struct('PointProjection', [False, pt(p)])
    if name == 'project_local_point':
        return prj
    res = [prj, [k, Opaque('triangle point location')]]
    if name.endswith('_with_max_dist'):
        cap = a[3]
        if eng.branch(f_cmp('Lt', d, f_mul(cap, cap))):
            return En('Some', [res])
        return En('None')
    return res
