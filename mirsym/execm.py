"""The MIR executor of engine M: decision-prefix DFS over symbolic paths, z3 for feasibility and obligations."""
import re, time, sys, os
import z3
from .vals import *
from . import vals
from .mir import split_top, strip_generics

DISCR = {'None': 0, 'Some': 1, 'Ok': 0, 'Err': 1, 'Continue': 0, 'Break': 1, 'Less': -1, 'Equal': 0, 'Greater': 1}
INT_TYPES = {'usize': (0, 2**64 - 1), 'u64': (0, 2**64 - 1), 'u32': (0, 2**32 - 1), 'u16': (0, 65535), 'u8': (0, 255),
             'isize': (-2**63, 2**63 - 1), 'i64': (-2**63, 2**63 - 1), 'i32': (-2**31, 2**31 - 1), 'i16': (-32768, 32767), 'i8': (-128, 127)}


# ---------------------------------------------------------------------------------- place / operand parsing
_pp = {}


def outer_parens(s):
    s = s.strip()
    while s.startswith('(') and s.endswith(')'):
        d = 0
        ok = True
        for i, ch in enumerate(s):
            if ch == '(':
                d += 1
            elif ch == ')':
                d -= 1
                if d == 0 and i != len(s) - 1:
                    ok = False
                    break
        if not ok:
            break
        s = s[1:-1].strip()
    return s


def parse_place(s):
    r = _pp.get(s)
    if r is not None:
        return r
    o = s
    s = outer_parens(s)
    if re.fullmatch(r'_\d+', s):
        r = ('local', s)
    elif s.startswith('*'):
        r = ('deref', parse_place(s[1:]))
    else:
        d = 0
        cut = None
        as_at = None
        for i, ch in enumerate(s):
            if ch in '(<[':
                d += 1
            elif ch in ')]' or (ch == '>' and s[i - 1] != '-'):
                d -= 1
            elif d == 0 and ch == ':' and s[i:i + 2] != '::' and s[i - 1] != ':':
                cut = i
                break
            elif d == 0 and s[i:i + 4] == ' as ' and as_at is None:
                as_at = i
        if cut is not None:
            core = s[:cut].strip()
            m = re.fullmatch(r'(.*)\.(\d+)', core, re.S)
            if not m:
                raise Unsupported('place ' + o)
            r = ('field', parse_place(m.group(1)), int(m.group(2)))
        elif as_at is not None:
            r = ('downcast', parse_place(s[:as_at]), s[as_at + 4:].strip())
        elif s.endswith(']'):
            k = s.rindex('[')
            idx = s[k + 1:-1]
            m = re.fullmatch(r'(-?\d+) of (\d+)', idx)
            if m:
                r = ('cindex', parse_place(s[:k]), int(m.group(1)))
            elif re.fullmatch(r'_\d+', idx):
                r = ('index', parse_place(s[:k]), idx)
            else:
                m = re.fullmatch(r'(\d+):(-?\d*)', idx)
                if m:
                    r = ('subslice', parse_place(s[:k]), int(m.group(1)), m.group(2))
                else:
                    raise Unsupported('place index ' + o)
        else:
            raise Unsupported('place ' + o)
    _pp[o] = r
    return r


def parse_smt_rational(t):
    from fractions import Fraction
    t = t.strip()
    try:
        m = re.fullmatch(r'\(- (.*)\)', t)
        if m:
            v = parse_smt_rational(m.group(1))
            return -v if v is not None else None
        m = re.fullmatch(r'\(/ (.*?) (.*?)\)', t)
        if m:
            a, b = parse_smt_rational(m.group(1)), parse_smt_rational(m.group(2))
            return a / b if a is not None and b else None
        if re.fullmatch(r'-?\d+(\.\d+)?', t):
            return Fraction(t)
    except Exception:
        return None
    return None


class PathStats:
    def __init__(self):
        self.by_solver = {}
        self.paths = 0
        self.blocks = 0
        self.queries = 0
        self.solver_s = 0.0
        self.pruned = 0


_DEP_CONSTS = {'parry2d_f64::math::DIM': 2, 'parry2d_f64::math::SIMD_WIDTH': 4, 'parry3d_f64::math::DIM': 3, 'parry3d_f64::math::SIMD_WIDTH': 4}


# enums of dependencies whose values cross into engeom's code (variant order = discriminant)
_DEP_ENUMS = {'SegmentPointLocation': ['OnVertex', 'OnEdge'], 'TrianglePointLocation': ['OnVertex', 'OnEdge', 'OnFace', 'OnSolid'], 'SimdVisitStatus': ['MaybeContinue', 'ExitEarly'], 'IntersectResult': ['Intersect', 'Negative', 'Positive'], 'SplitResult': ['Pair', 'Negative', 'Positive']}


class Engine:
    """one exploration of an entry function under a driver"""

    def __init__(self, mir, timeout_ms=20000, seed=0, loop_budget=64, max_paths=20000, observers=None):
        self.mir = mir
        self.seed = seed
        self.timeout_ms = timeout_ms
        self.feas_timeout_ms = min(timeout_ms, 5000)
        self.feas_cache = {}
        self._sx = {}
        self.int_mode = False
        self.lin_inc = False
        self.const_generics = {}
        self.inc = None
        self.inc_n = 0
        self.portfolio = True
        self.first_slice_ms = 3000
        import tempfile
        _td = os.environ.get('VERIF_TMP') or os.path.join(os.path.dirname(os.path.dirname(os.path.abspath(__file__))), 'build', 'tmp')
        os.makedirs(_td, exist_ok=True)
        self.tmpdir = tempfile.mkdtemp(prefix='mirsym-', dir=_td)
        self.loop_budget = loop_budget
        self.max_paths = max_paths
        self.stats = PathStats()
        self.base = []
        self.pc = []
        self.dec = []
        self.used = 0
        self.alts = []
        self.touched = {}       # fn name -> sha
        self.externals = None   # set by ext
        self.observers = observers or {}
        self.loop_budgets = {}  # fn short name -> budget
        self.depth = 0
        self.call_stack = []
        self.self_types = []
        self.path_events = []
        vals.HOOKS['branch'] = self.branch
        vals.HOOKS['choose'] = self.choose
        vals.HOOKS['permute'] = self.permute

    # ------------------------------------------------------------ solver
    def check(self, extra, timeout_ms=None, want=None):
        """sat/unsat/unknown of base + pc + extra (+ cone of defining constraints).  A fresh solver per query: z3's
        non-incremental mode picks the nlsat-based tactic for NRA, which decides in ms what push/pop mode does not.
        Portfolio: z3 (python API, short slice) -> /usr/bin/z3 4.8.12 -> cvc5, the first definite answer wins; the
        solver that answered is counted in stats.by_solver."""
        t0 = time.time()
        tmo = timeout_ms or self.timeout_ms
        if self.int_mode and not ctx().defn:
            # integer-only unit: incremental solver holding base + path condition
            if self.inc is None:
                self.inc_check(z3.BoolVal(True))
            while self.inc_n < len(self.pc):
                self.inc.add(self.pc[self.inc_n])
                self.inc_n += 1
            self.inc.push()
            self.inc.add(extra)
            r = self.inc.check()
            model = self.inc.model() if r == z3.sat else None
            self.inc.pop()
            self.stats.queries += 1
            self.stats.solver_s += time.time() - t0
            self.stats.by_solver['z3py-inc'] = self.stats.by_solver.get('z3py-inc', 0) + 1
            self.last_formulas = self.base + self.pc + extra
            return r, model
        fs = self.base + self.pc + extra
        fs = fs + (ctx().cone(fs) if ctx().defn else [])
        seen_f = set()
        fs = [f for f in fs if not (f.get_id() in seen_f or seen_f.add(f.get_id()))]
        s = z3.Solver()
        s.set('timeout', min(tmo, self.first_slice_ms))
        s.set('random_seed', self.seed)
        s.add(fs)
        if want != z3.sat and self._abstract_unsat(fs, 250):
            r, model, who = z3.unsat, None, 'z3py-linear-abstraction'
            self.stats.queries += 1
            self.stats.solver_s += time.time() - t0
            self.stats.by_solver[who] = self.stats.by_solver.get(who, 0) + 1
            self.last_formulas = fs
            return r, model
        r = s.check()
        model = s.model() if r == z3.sat else None
        who = 'z3py'
        if r == z3.unknown:
            # linear abstraction: every product of non-constant terms becomes an opaque variable (same term -> same variable).  The
            # abstraction has more models than the formula, so `unsat` carries over; anything else falls through to the portfolio.
            if self._abstract_unsat(fs):
                r, who = z3.unsat, 'z3py-linear-abstraction'
        if r == z3.unknown and self.portfolio:
            r, model, who = self.external(s, fs, tmo)
        self.stats.queries += 1
        self.stats.solver_s += time.time() - t0
        self.stats.by_solver[who] = self.stats.by_solver.get(who, 0) + 1
        self.last_formulas = fs
        return r, model

    def _abstract_unsat(self, fs, timeout_ms=1500):
        table = {}
        cache = {}

        def ab(e):
            k = e.get_id()
            if k in cache:
                return cache[k]
            if z3.is_app(e) and e.num_args() > 0:
                kind = e.decl().kind()
                ch = e.children()
                nonconst = [c for c in ch if not (z3.is_rational_value(c) or z3.is_int_value(c))]
                if (kind == z3.Z3_OP_MUL and len(nonconst) >= 2) or kind == z3.Z3_OP_POWER or (kind == z3.Z3_OP_DIV and not (z3.is_rational_value(ch[1]) or z3.is_int_value(ch[1]))):
                    key = z3.simplify(e).sexpr()
                    v = table.get(key)
                    if v is None:
                        v = z3.Real(f'abs!{len(table)}') if e.sort() == z3.RealSort() else z3.Int(f'abs!{len(table)}')
                        table[key] = v
                    r = v
                else:
                    nc = [ab(c) for c in ch]
                    r = e.decl()(*nc) if any(a.get_id() != b.get_id() for a, b in zip(nc, ch)) else e
            else:
                r = e
            cache[k] = r
            return r

        try:
            s2 = z3.Solver()
            s2.set('timeout', timeout_ms)
            s2.add([ab(f) for f in fs])
            return bool(table) and s2.check() == z3.unsat
        except Exception:
            return False

    def external(self, s, fs, tmo):
        """second opinions through SMT-LIB2 files; sat answers are turned back into a z3py model by asserting the values"""
        import subprocess, tempfile, os
        txt = s.to_smt2()
        consts = {}
        stack = list(fs)
        seen = set()
        while stack:
            t = stack.pop()
            if t.get_id() in seen:
                continue
            seen.add(t.get_id())
            if z3.is_const(t) and t.decl().kind() == z3.Z3_OP_UNINTERPRETED:
                consts[str(t)] = t
            else:
                stack.extend(t.children())
        names = sorted(consts)
        txt = txt.replace('(check-sat)', '(check-sat)\n(get-value (' + ' '.join('|%s|' % n if not re.fullmatch(r'[\w.!]+', n) else n for n in names) + '))') if names else txt
        fd, path = tempfile.mkstemp(suffix='.smt2', dir=self.tmpdir)
        os.write(fd, txt.encode())
        os.close(fd)
        res = (z3.unknown, None, 'none')
        try:
            for who, cmd in (('z3-4.8.12', ['/usr/bin/z3', f'-T:{max(1, tmo // 1000)}', path]), ('cvc5', ['cvc5', '--lang', 'smt2', '--produce-models', f'--tlimit={tmo}', path])):
                try:
                    p = subprocess.run(cmd, stdout=subprocess.PIPE, stderr=subprocess.STDOUT, text=True, timeout=tmo / 1000 + 2)
                except subprocess.TimeoutExpired:
                    continue
                out = p.stdout
                if '(error' in out and not out.lstrip().startswith(('sat', 'unsat')):
                    continue
                first = out.strip().split('\n')[0].strip() if out.strip() else ''
                if first == 'unsat':
                    res = (z3.unsat, None, who)
                    break
                if first == 'sat':
                    # rebuild a model: assert the reported values for rational-valued constants and re-check cheaply
                    vals_ = {}
                    for m in re.finditer(r'\(\|?([\w.!]+)\|? (\(?[-/ \d.()?]+\)?)\)', out):
                        vals_[m.group(1)] = m.group(2)
                    s2 = z3.Solver()
                    s2.set('timeout', 5000)
                    s2.add(fs)
                    ok = True
                    for n, vtxt in vals_.items():
                        v = parse_smt_rational(vtxt)
                        if v is not None and n in consts and not z3.is_bool(consts[n]):
                            s2.add(consts[n] == (z3.RealVal(str(v)) if z3.is_real(consts[n]) else z3.IntVal(int(v))))
                    if s2.check() == z3.sat:
                        res = (z3.sat, s2.model(), who)
                        break
                    # irrational witness: keep the verdict sat only if a model can be produced
                    continue
        finally:
            try:
                os.remove(path)
            except OSError:
                pass
        return res

    def feasible(self, c):
        if not is_sym(c):
            return bool(c)
        c = z3.simplify(c)
        if z3.is_true(c):
            return True
        if z3.is_false(c):
            return False
        # paths are re-executed from the start (decision prefixes), so the same feasibility questions recur: cache them
        sx = self._sx
        key = hash((tuple(sx.get(id(x)) or sx.setdefault(id(x), x.sexpr()) for x in self.pc), c.sexpr()))
        hit = self.feas_cache.get(key)
        if hit is not None:
            self.stats.cache_hits = getattr(self.stats, 'cache_hits', 0) + 1
            return hit
        if self.int_mode and not ctx().defn:
            r = self.inc_check(c)
        elif self.lin_inc and not ctx().cone(self.base + self.pc + [c]):
            # no defining constraint (division / sqrt / fmod variable) is involved: the query is over the inputs only and
            # is decided by the incremental solver holding base + path condition; an unknown falls back to the portfolio
            r = self.inc_check(c)
            if r == z3.unknown:
                r, _ = self.check([c], self.feas_timeout_ms)
        else:
            r, _ = self.check([c], self.feas_timeout_ms)
        # unknown is treated as feasible (sound for violation search, may add paths)
        res = (r != z3.unsat)
        self.feas_cache[key] = res
        return res

    def inc_check(self, c):
        """integer-only units: one incremental solver per path (LIA is fine in push/pop mode)"""
        t0 = time.time()
        if self.inc is None:
            self.inc = z3.Solver()
            self.inc.set('timeout', self.feas_timeout_ms)
            self.inc.add(self.base)
            self.inc_n = 0
        while self.inc_n < len(self.pc):
            self.inc.add(self.pc[self.inc_n])
            self.inc_n += 1
        self.inc.push()
        self.inc.add(c)
        r = self.inc.check()
        self.inc.pop()
        self.stats.queries += 1
        self.stats.solver_s += time.time() - t0
        self.stats.by_solver['z3py-inc'] = self.stats.by_solver.get('z3py-inc', 0) + 1
        return r

    def choose(self, options):
        """options: [(cond, payload)] - fork over the feasible ones"""
        feas = [(c, p) for (c, p) in options if self.feasible(c)]
        if not feas:
            raise Abort('infeasible')
        if len(feas) == 1:
            c = feas[0][0]
            if is_sym(c):
                self.pc.append(c)
            return feas[0][1]
        if self.used < len(self.dec):
            k = self.dec[self.used]
        else:
            k = 0
            self.dec.append(0)
            for j in range(1, len(feas)):
                self.alts.append(self.dec[:self.used] + [j])
        self.used += 1
        c, p = feas[k]
        if is_sym(c):
            self.pc.append(c)
        return p

    def permute(self, items):
        """a symbolic order of an unordered collection: fork element by element"""
        rest = list(items)
        out = []
        while rest:
            k = 0 if len(rest) == 1 else self.choose([(z3.BoolVal(True), i) for i in range(len(rest))])
            out.append(rest.pop(k))
        return out

    def branch(self, cond):
        if isinstance(cond, bool):
            return cond
        if not is_sym(cond):
            return bool(cond)
        cond = z3.simplify(cond)
        if z3.is_true(cond):
            return True
        if z3.is_false(cond):
            return False
        return self.choose([(cond, True), (z3.Not(cond), False)])

    def concretize_int(self, v, lo, hi, what='index'):
        """fork a symbolic integer over its feasible concrete values in [lo, hi]"""
        if not is_sym(v):
            return int(v)
        f = as_fraction(v)
        if f is not None:
            return int(f)
        if hi - lo > 64:
            raise Unsupported(f'symbolic {what} with a range of {hi - lo + 1}')
        return self.choose([(v == k, k) for k in range(lo, hi + 1)])

    # ------------------------------------------------------------ exploration
    def explore(self, run_one, on_path, on_panic=None, on_budget=None, label=''):
        """run_one() builds the state and executes; called once per path.  on_path(result) may emit obligations."""
        work = [[]]
        while work:
            if self.stats.paths >= self.max_paths:
                raise Unsupported(f'path budget {self.max_paths} exhausted ({label})')
            dec = work.pop()
            vals.CTX[0] = Ctx()
            self.pc = []
            self._sx = {}
            self.inc = None
            self.inc_n = 0
            self.dec = list(dec)
            self.used = 0
            self.alts = []
            self.call_stack = []
            self.self_types = []
            self.depth = 0
            try:
                res = run_one()
                self.stats.paths += 1
                on_path(res)
            except Abort as ab:
                self.stats.pruned += 1
                if os.environ.get('VERIF_TRACE'):
                    print('  abort:', ab, self.call_stack[-2:], flush=True)
            except Panic as p:
                self.stats.paths += 1
                if on_panic:
                    on_panic(p)
            except Budget as b:
                self.stats.paths += 1
                if on_budget:
                    on_budget(b)
            work.extend(self.alts)

    # ------------------------------------------------------------ running functions
    def call(self, callee, args, fn_ctx=None):
        """call by call-site string"""
        dyn_type = None
        if callee.startswith('<dyn ') and args:
            a0 = args[0]
            tgt = a0.get() if isinstance(a0, Ref) else a0
            if isinstance(tgt, DynV):
                dyn_type = tgt.ty
                inner = tgt.val
                args = [Ref(lambda: inner) if isinstance(a0, Ref) else inner] + list(args[1:])
        if callee.startswith('<Self as ') and self.self_types and self.self_types[-1]:
            dyn_type = self.self_types[-1]
            callee = '<dyn Self as ' + callee[len('<Self as '):]
        _segs = [x for x in strip_generics(callee).split('::') if x]
        short = _segs[-1] if _segs else callee
        ob = self.observers.get('::'.join(_segs[-2:])) or self.observers.get(short)
        if ob:
            r = ob(self, callee, args)
            if r is not NotImplemented:
                return r
        f = self.mir.resolve(callee, dyn_type)
        if f is not None:
            st = None
            m = re.match(r'<(.*) as (.*?)>::(\w+)', callee, re.S)
            if m:
                st = dyn_type or m.group(1).strip()
            return self.run_fn(f, args, st)
        if self.const_generics:
            # externals read sizes from the type text: substitute the instantiation's const generics (Const<D> -> Const<3>)
            for cg, val in self.const_generics.items():
                callee = re.sub(r'(?<=[<, ])' + re.escape(cg) + r'(?=[>,])', str(val), callee)
        return self.externals(self, callee, args, fn_ctx)

    def run_fn(self, fn, args, self_type=None):
        self.touched[fn.name] = fn.sha
        self.self_types.append(self_type if self_type is not None else (self.self_types[-1] if self.self_types else None))
        if self.depth > 60:
            raise Unsupported('call depth > 60 in ' + fn.name)
        self.depth += 1
        self.call_stack.append(fn.name)
        try:
            return self._run(fn, args)
        finally:
            self.depth -= 1
            self.call_stack.pop()
            self.self_types.pop()

    def const_value(self, text, fn):
        """`const ...` operand"""
        o = text.strip()
        assert o.startswith('const ')
        v = o[6:].strip()
        m = re.fullmatch(r'(-?[0-9.]+(?:[eE][-+]?\d+)?|-?inf|NaN)f64', v)
        if m:
            return fconst(m.group(1))
        m = re.fullmatch(r'(-?\d+)_(usize|u64|u32|u16|u8|isize|i64|i32|i16|i8)', v)
        if m:
            return int(m.group(1))
        if v in self.const_generics:
            return self.const_generics[v]
        if v in ('true', 'false'):
            return v == 'true'
        if v == '()':
            return ()
        m = re.match(r"'(.)'$", v)
        if m:
            return ord(m.group(1))
        if v.startswith('"') or v.startswith('b"'):
            return Opaque('str')
        if 'promoted[' in v:
            item = self.mir.promoted_item(v, fn.name)
            if item is None:
                raise Unsupported('promoted const ' + v)
            typ, val, body = item
            if body is not None:
                return self.run_fn(body, [])
            return self.const_value('const ' + val[6:] if val.startswith('const ') else 'const ' + val, fn)
        if v.startswith('std::f64::consts::') or v.startswith('core::f64::consts::'):
            name = v.split('::')[-1]
            import math
            if MODE[0] == 'conc':
                return {'PI': math.pi, 'FRAC_PI_2': math.pi / 2, 'TAU': math.tau, 'FRAC_PI_4': math.pi / 4, 'E': math.e, 'SQRT_2': math.sqrt(2)}[name]
            tab = {'PI': 1, 'FRAC_PI_2': Fraction(1, 2), 'TAU': 2, 'FRAC_PI_4': Fraction(1, 4), 'FRAC_PI_3': Fraction(1, 3), 'FRAC_PI_6': Fraction(1, 6)}
            if name in tab:
                return Angle(tab[name])
            raise Unsupported('const ' + v)
        m = re.match(r'(?:f64|core::f64|std::f64)::(?:<impl f64>::)?(\w+)$', v)
        if m:
            n = m.group(1)
            if MODE[0] == 'conc':
                import sys as _s
                return {'MAX': _s.float_info.max, 'MIN': -_s.float_info.max, 'INFINITY': float('inf'), 'NEG_INFINITY': float('-inf'), 'NAN': float('nan'), 'EPSILON': _s.float_info.epsilon}[n]
            if n in ('INFINITY', 'NEG_INFINITY'):
                return Poison('inf', n)
            if n == 'NAN':
                return Poison('nan', 'f64::NAN')
            if n == 'MAX':
                return z3.RealVal('179769313486231570000000000000000000000000000000000000000000000000000000000000000000000000000000000000000000000000000000000000000000000000000000000000000000000000000000000000000000000000000000000000000000000000000000000000000000000000000000000000000000000000000000000000000000000000000000000000000')
            if n == 'MIN':
                return z3.RealVal('-179769313486231570000000000000000000000000000000000000000000000000000000000000000000000000000000000000000000000000000000000000000000000000000000000000000000000000000000000000000000000000000000000000000000000000000000000000000000000000000000000000000000000000000000000000000000000000000000000000000')
            if n == 'EPSILON':
                return z3.RealVal(str(Fraction(2) ** -52))
        m = re.match(r'(usize|u32|u64|i32|i64|u8)::MAX$', v)
        if m:
            return INT_TYPES[m.group(1)][1]
        if re.fullmatch(r'(?:std|core)::option::Option::<.*>::None', v, re.S):
            return En('None')
        if v.startswith('ZeroSized'):
            mcl = re.search(r'\{closure@([^}]*)\}', v)
            if mcl:
                return Closure(mcl.group(1), [])
            mfn = re.match(r'ZeroSized: (?:for<[^>]*> )?(?:unsafe )?fn\(.*\)(?: -> .*?)? \{(.*)\}$', v, re.S)
            if mfn:
                return Closure('fn:' + mfn.group(1), [])
            return Opaque('zst')
        if re.match(r'^(\{closure|PhantomData|std::marker::PhantomData)', v):
            return Opaque('zst')
        # constants of dependencies that engeom's own code reads (parry2d_f64::math)
        if v in _DEP_CONSTS:
            return _DEP_CONSTS[v]
        # named constant of this crate
        item = self.mir.const_item(v)
        if item is not None:
            full, typ, val, body, _prev = item
            if body is not None:
                return self.run_fn(body, [])
            return self.const_value(val if val.startswith('const ') else 'const ' + val, fn)
        # function item used as a value (fn pointer / zero sized fn type)
        if re.match(r'^[\w:<>{}#@ ,&\[\]\'\.\-\(\)/]+$', v) and ('::' in v or v[0].islower() or v[0] == '<'):
            return Closure('fn:' + v, [])
        raise Unsupported('const ' + v)

    def _run(self, fn, args):
        env = {}
        for (p, _t), a in zip(fn.params, args):
            env[p] = a
        visits = {}
        budget = self.loop_budgets.get(strip_generics(fn.name).split('::')[-1], self.loop_budget)
        blocks = fn.blocks
        locs = fn.locals
        eng = self

        def rd(p):
            k = p[0]
            if k == 'local':
                try:
                    return env[p[1]]
                except KeyError:
                    raise Unsupported(f'read of unset local {p[1]} in {fn.name}')
            if k == 'deref':
                r = rd(p[1])
                if isinstance(r, Ref):
                    return r.get()
                return r          # Box / BoxCell: transparent
            if k == 'field':
                b = rd(p[1])
                if isinstance(b, BoxCell):
                    return b
                if isinstance(b, En):
                    return b.f[p[2]]
                if isinstance(b, VecV):
                    # field projection into Vec internals (RawVec etc.) during vec! expansion
                    return b
                if isinstance(b, (Opaque, Closure)) and not isinstance(b, Closure):
                    return b
                if isinstance(b, Closure):
                    return b.captures[p[2]]
                if isinstance(b, tuple):
                    return b[p[2]]
                if isinstance(b, RangeV):
                    return [b.a, b.b][p[2]]
                try:
                    return b[p[2]]
                except (TypeError, IndexError):
                    raise Unsupported(f'field {p[2]} of {type(b).__name__} in {fn.name}')
            if k == 'downcast':
                return rd(p[1])
            if k in ('index', 'cindex'):
                b = rd(p[1])
                items = b.items if isinstance(b, (VecV, SliceV)) else b
                i = env[p[2]] if k == 'index' else p[2]
                if is_sym(i):
                    i = eng.concretize_int(i, 0, len(items) - 1)
                if not (0 <= i < len(items)):
                    raise Panic(f'index {i} out of bounds (len {len(items)}) in {fn.name}')
                return items[i]
            raise Unsupported('place kind ' + k)

        def wr(p, v):
            k = p[0]
            if k == 'local':
                env[p[1]] = v
                return
            if k == 'deref':
                r = rd(p[1])
                if isinstance(r, Ref):
                    r.set(v)
                    return
                if isinstance(r, BoxCell):
                    r.payload = v
                    return
                raise Unsupported('write through non-reference')
            if k == 'field':
                b = rd(p[1])
                if isinstance(b, BoxCell):
                    b.payload = v
                    return
                if isinstance(b, En):
                    b.f[p[2]] = v
                    return
                if isinstance(b, RangeV):
                    if p[2] == 0:
                        b.a = v
                    else:
                        b.b = v
                    return
                b[p[2]] = v
                return
            if k == 'downcast':
                return wr(p[1], v)
            if k in ('index', 'cindex'):
                b = rd(p[1])
                items = b.items if isinstance(b, VecV) else b
                i = env[p[2]] if k == 'index' else p[2]
                if is_sym(i):
                    i = eng.concretize_int(i, 0, len(items) - 1)
                if isinstance(b, SliceV):
                    b.base.items[b.lo + i] = v
                else:
                    items[i] = v
                return
            raise Unsupported('write place kind ' + k)

        def mkref(p):
            # references into containers must stay valid under later pushes: resolve the container now, the slot lazily
            if p[0] == 'deref':
                inner = rd(p[1])
                if isinstance(inner, Ref):
                    return inner       # reborrow
            if p[0] in ('index', 'cindex'):
                b = rd(p[1])
                i = env[p[2]] if p[0] == 'index' else p[2]
                items = b.items if isinstance(b, (VecV, SliceV)) else b
                if is_sym(i):
                    i = eng.concretize_int(i, 0, len(items) - 1)
                if not (0 <= i < len(items)):
                    raise Panic(f'index {i} out of bounds (len {len(items)}) in {fn.name}')
                if isinstance(b, SliceV):
                    base, off = b.base, b.lo
                    return Ref(lambda: base.items[off + i], lambda v: base.items.__setitem__(off + i, v))
                return Ref(lambda: items[i], lambda v: items.__setitem__(i, v))
            return Ref(lambda: rd(p), lambda v: wr(p, v))

        def operand(o):
            o = o.strip()
            if o.startswith('copy '):
                v = rd(parse_place(o[5:]))
                return deep_copy(v) if isinstance(v, (list, En)) else v
            if o.startswith('move '):
                return rd(parse_place(o[5:]))
            if o.startswith('const '):
                return eng.const_value(o, fn)
            raise Unsupported('operand ' + o)

        def local_type(place_text):
            m = re.fullmatch(r'_\d+', place_text.strip())
            return locs.get(place_text.strip(), '') if m else ''

        bb = 'bb0'
        while True:
            visits[bb] = visits.get(bb, 0) + 1
            if visits[bb] > budget:
                raise Budget(f'{fn.name} {bb} visited more than {budget} times')
            nxt = None
            self.stats.blocks += 1
            for st in blocks[bb]:
                # ---------------- terminators
                if st.startswith('goto -> '):
                    nxt = st[8:]
                    break
                if st == 'return':
                    return env.get('_0', ())
                if st.startswith('switchInt('):
                    m = re.fullmatch(r'switchInt\((.*)\) -> \[(.*)\]', st, re.S)
                    v = operand(m.group(1))
                    targets = [t.split(': ') for t in m.group(2).split(', ')]
                    if isinstance(v, Poison):
                        raise Unsupported('switch on non-finite value')
                    if isinstance(v, En):
                        v = DISCR[v.v]
                    if is_sym(v):
                        if z3.is_bool(v):
                            b = eng.branch(v)
                            v = 1 if b else 0
                        else:
                            opts = []
                            conc = [int(t[0]) for t in targets if t[0] != 'otherwise']
                            for c in conc:
                                opts.append((v == c, c))
                            opts.append((z3.And([v != c for c in conc]) if conc else z3.BoolVal(True), 'otherwise'))
                            v = eng.choose(opts)
                    if isinstance(v, bool):
                        v = 1 if v else 0
                    key = str(v)
                    tgt = None
                    for t in targets:
                        if t[0] == key:
                            tgt = t[1]
                    if tgt is None:
                        for t in targets:
                            if t[0] == 'otherwise':
                                tgt = t[1]
                    if tgt is None:
                        raise Unsupported('switchInt without target for ' + key)
                    nxt = tgt
                    break
                if st.startswith('assert('):
                    m = re.fullmatch(r'assert\((!?)(.*?), (".*), .*?\) -> \[success: (bb\d+), unwind.*\]', st, re.S) or \
                        re.fullmatch(r'assert\((!?)(.*?), (".*?")\) -> \[success: (bb\d+), unwind.*\]', st, re.S)
                    if not m:
                        raise Unsupported('assert form: ' + st[:80])
                    neg, cond, msg, nb = m.groups()
                    v = operand(cond)
                    if neg:
                        v = z3.Not(v) if is_sym(v) else (not v)
                    if is_sym(v):
                        v = eng.branch(v)
                    if not v:
                        raise Panic(f'MIR assert failed in {fn.name}: {msg[:70]}')
                    nxt = nb
                    break
                if st.startswith('drop('):
                    m = re.fullmatch(r'drop\(.*\) -> \[return: (bb\d+).*', st, re.S)
                    nxt = m.group(1)
                    break
                if st == 'unreachable':
                    raise Abort('unreachable')
                if st.startswith('resume') or st.startswith('unwind '):
                    raise Abort('unwind')
                # ---------------- calls
                m = re.fullmatch(r'(.+?) = (.*) -> \[return: (bb\d+), unwind.*\]', st, re.S)
                if m is None:
                    m2 = re.fullmatch(r'(.+?) = (.*) -> unwind.*', st, re.S)
                    if m2:
                        m = None
                        dst, callee_s, nb = m2.group(1), m2.group(2), None
                    else:
                        dst = None
                else:
                    dst, callee_s, nb = m.groups()
                if dst is not None and '(' in callee_s and not re.match(r'^(copy|move|const|&)', callee_s.strip()):
                    # find the argument list: last top-level '(' group
                    d = 0
                    cut = None
                    for i, ch in enumerate(callee_s):
                        if ch == '<':
                            d += 1
                        elif ch == '>' and callee_s[i - 1] != '-':
                            d -= 1
                        elif ch == '(' and d == 0:
                            cut = i
                            break
                    f_name, argstr = callee_s[:cut].strip(), callee_s[cut + 1:-1]
                    a = [operand(x) for x in split_top(argstr)]
                    if f_name.startswith('move ') or f_name.startswith('copy '):
                        # call through a fn pointer / closure value
                        fv = operand(f_name)
                        res = eng.call_value(fv, a)
                    else:
                        res = eng.call(f_name, a, (fn, local_type(dst)))
                    if nb is None:
                        raise Panic(f'diverging call {f_name[:60]} in {fn.name}')
                    wr(parse_place(dst), res)
                    nxt = nb
                    break
                # ---------------- assignments
                m = re.fullmatch(r'(.+?) = (.*)', st, re.S)
                if not m:
                    if st.startswith(('StorageLive', 'StorageDead', 'nop', 'FakeRead', 'PlaceMention', 'Retag', 'AscribeUserType', 'Coverage', 'ConstEvalCounter', 'BackwardIncompatibleDropHint')):
                        continue
                    raise Unsupported('statement ' + st[:80])
                dst, rv = m.groups()
                dstp = parse_place(dst)
                wr(dstp, eng.rvalue(rv, fn, operand, rd, mkref, locs.get(dst.strip(), '')))
            if nxt is None:
                raise Unsupported(f'block {bb} of {fn.name} has no terminator')
            bb = nxt

    def call_value(self, fv, args):
        """call of a closure / fn item value"""
        if isinstance(fv, Ref):
            fv = fv.get()
        if isinstance(fv, DynV):
            fv = fv.val
        if isinstance(fv, PyFn):
            return fv.fn(self, list(args))
        if isinstance(fv, Closure):
            if fv.span.startswith('fn:'):
                return self.call(fv.span[3:], args)
            body = self.mir.closure_body(fv.span)
            if body is None:
                raise Unsupported('closure body ' + fv.span)
            return self.run_fn(body, [Ref.to(fv)] + list(args))
        raise Unsupported('call of ' + type(fv).__name__)

    # ------------------------------------------------------------ rvalues
    def rvalue(self, rv, fn, operand, rd, mkref, dst_type):
        rv = rv.strip()
        m = re.fullmatch(r'(Add|Sub|Mul|Div|Rem|Lt|Le|Gt|Ge|Eq|Ne|BitAnd|BitOr|BitXor|Shl|Shr|AddWithOverflow|SubWithOverflow|MulWithOverflow|AddUnchecked|SubUnchecked|MulUnchecked|Offset|Cmp)\((.*)\)', rv, re.S)
        if m:
            op = m.group(1)
            xs = split_top(m.group(2))
            x, y = operand(xs[0]), operand(xs[1])
            return self.binop(op, x, y, dst_type)
        if rv.startswith('Not('):
            v = operand(rv[4:-1])
            if isinstance(v, bool):
                return not v
            if is_sym(v) and z3.is_bool(v):
                return z3.Not(v)
            raise Unsupported('bitwise Not on integer')
        if rv.startswith('Neg('):
            v = operand(rv[4:-1])
            return f_neg(v)
        if rv.startswith('discriminant('):
            v = rd(parse_place(rv[13:-1]))
            if isinstance(v, En):
                return DISCR[v.v] if v.v in DISCR else self.variant_index(v)
            if isinstance(v, DynV):
                v = v.val
            raise Unsupported('discriminant of ' + type(v).__name__)
        if rv.startswith('PtrMetadata('):
            v = operand(rv[12:-1])
            v = v.get() if isinstance(v, Ref) else v
            return len(v._items if isinstance(v, VecV) else v.items if isinstance(v, SliceV) else v)
        if rv.startswith('Len('):
            v = rd(parse_place(rv[4:-1]))
            return len(v._items if isinstance(v, VecV) else v.items if isinstance(v, SliceV) else v)
        if rv.startswith('&raw const ') or rv.startswith('&raw mut '):
            return mkref(parse_place(rv.split(' ', 2)[2].replace('(fake) ', '').replace('(fake shallow) ', '')))
        if rv.startswith('&mut '):
            return mkref(parse_place(rv[5:]))
        if rv.startswith('&'):
            return mkref(parse_place(rv[1:].replace('(fake shallow) ', '').replace('(fake) ', '').replace('fake shallow ', '').replace('fake ', '')))
        if rv.startswith('no_retag '):
            return operand(rv[9:])
        # casts
        m = re.fullmatch(r'((?:copy|move|const) .*) as (.*?) \((\w+)(?:\(.*\))?\)', rv, re.S)
        if m:
            v = operand(m.group(1))
            ty, kind = m.group(2).strip(), m.group(3)
            return self.cast(v, ty, kind, m.group(1), fn)
        if rv.startswith(('copy ', 'move ', 'const ')):
            return operand(rv)
        # aggregates
        if rv.startswith('{closure@') or rv.startswith('{coroutine@'):
            span = re.match(r'\{closure@([^}]*)\}', rv).group(1)
            caps = []
            m = re.search(r'\} \{(.*)\}$', rv, re.S)
            if m and m.group(1).strip():
                caps = [operand(x.split(': ', 1)[1]) for x in split_top(m.group(1))]
            return Closure(span, caps)
        if rv.startswith('['):
            inner = rv[1:-1]
            parts = split_top(inner, ';')
            if len(parts) == 2 and not split_top(inner)[1:]:
                n = parts[1].strip()
                mcnt = re.match(r'(?:const )?(\d+)', n)
                cnt = int(mcnt.group(1)) if mcnt else int(self.const_generics[n.replace('const ', '').strip()])
                v = operand(parts[0])
                return [deep_copy(v) for _ in range(cnt)]
            return [operand(x) for x in split_top(inner)]
        if rv.startswith('('):
            if rv == '()':
                return ()
            return [operand(x) for x in split_top(rv[1:-1])]
        # enum variants / structs
        m = re.fullmatch(r'(?:std|core)::ops::Range(Inclusive)?::<.*?> \{ (.*) \}', rv, re.S)
        if m:
            fl = [operand(x.split(': ', 1)[1]) for x in split_top(m.group(2))]
            return RangeV(fl[0], fl[1], bool(m.group(1)))
        m = re.match(r'^([\w:]+?)(?:::<.*>)?::(\w+)\((.*)\)$', rv, re.S)
        if m and m.group(2)[:1].isupper():
            return En(m.group(2), [operand(x) for x in split_top(m.group(3))], m.group(1).split('::')[-1])
        m = re.match(r'^([\w:]+?)(?:::<.*?>)? \{ (.*) \}$', rv, re.S)
        if m:
            fl = [operand(x.split(': ', 1)[1]) for x in split_top(m.group(2))]
            name = m.group(1).split('::')[-1]
            # enum struct-like variant?  Name::Variant { .. }
            segs = m.group(1).split('::')
            if len(segs) >= 2 and segs[-2][:1].isupper() and segs[-1][:1].isupper() and self.is_enum(segs[-2]):
                return En(segs[-1], fl, segs[-2])
            return Struct(name, fl)
        m = re.fullmatch(r'([\w:]+?)(?:::<.*>)?::(\w+)', rv, re.S)
        if m and m.group(2)[:1].isupper():
            return En(m.group(2), (), m.group(1).split('::')[-1])
        m = re.fullmatch(r'[\w:]+(?:::<.*>)?', rv, re.S)
        if m:
            return Struct(rv.split('::')[-1], [])     # unit struct
        raise Unsupported('rvalue ' + rv[:100])

    _enum_cache = {}

    def is_enum(self, name):
        if name in self._enum_cache:
            return self._enum_cache[name]
        import os
        found = False
        for root, _d, files in os.walk(os.path.join(self.mir.repo, 'src')):
            for f in files:
                if f.endswith('.rs'):
                    txt = '\n'.join(self.mir.src_lines(os.path.relpath(os.path.join(root, f), self.mir.repo)))
                    if re.search(r'\benum ' + re.escape(name) + r'\b', txt):
                        found = True
        self._enum_cache[name] = found
        return found

    def enum_variants(self, variant, ty=None):
        """ordered variant list of the crate enum that declares `variant` (of the enum `ty` when given)"""
        import os
        for root, _d, files in os.walk(os.path.join(self.mir.repo, 'src')):
            for f in files:
                if f.endswith('.rs'):
                    txt = '\n'.join(self.mir.src_lines(os.path.relpath(os.path.join(root, f), self.mir.repo)))
                    for m in re.finditer(r'\benum (\w+)(?:<[^>]*>)?\s*\{(.*?)\n\}', txt, re.S):
                        body = re.sub(r'//[^\n]*', '', m.group(2))
                        body = re.sub(r'#\[[^\]]*\]', '', body)
                        vs = [re.match(r'\s*(\w+)', x).group(1) for x in split_top(body) if re.match(r'\s*(\w+)', x)]
                        if variant in vs and (ty is None or m.group(1) == ty):
                            return vs
        return None

    def variant_index(self, en):
        vs = _DEP_ENUMS.get(getattr(en, 'ty', None)) or self.enum_variants(en.v, getattr(en, 'ty', None)) or self.enum_variants(en.v)
        if vs is None:
            raise Unsupported('unknown enum variant ' + en.v)
        return vs.index(en.v)

    def binop(self, op, x, y, dst_type=''):
        if isinstance(x, Ref) or isinstance(y, Ref):
            raise Unsupported('pointer arithmetic/comparison')
        if op in ('Lt', 'Le', 'Gt', 'Ge', 'Eq', 'Ne'):
            if isinstance(x, En) or isinstance(y, En):
                xv = DISCR.get(x.v, None) if isinstance(x, En) else x
                yv = DISCR.get(y.v, None) if isinstance(y, En) else y
                if op == 'Eq':
                    return xv == yv
                if op == 'Ne':
                    return xv != yv
            if isinstance(x, bool) and isinstance(y, bool):
                return {'Eq': x == y, 'Ne': x != y, 'Lt': x < y, 'Le': x <= y, 'Gt': x > y, 'Ge': x >= y}[op]
            return f_cmp(op, x, y)
        if op in ('AddWithOverflow', 'SubWithOverflow', 'MulWithOverflow'):
            r = {'Add': lambda: x + y, 'Sub': lambda: x - y, 'Mul': lambda: x * y}[op[:3]]()
            m = re.match(r'\((\w+), bool\)', dst_type.strip())
            lo, hi = INT_TYPES.get(m.group(1), (None, None)) if m else (None, None)
            if lo is None:
                ov = False
            elif is_sym(r):
                ov = z3.Or(r < lo, r > hi)
            else:
                ov = not (lo <= r <= hi)
            return [r, ov]
        if op in ('AddUnchecked', 'SubUnchecked', 'MulUnchecked'):
            op = op[:3]
        isf = 'f64' in dst_type or isinstance(x, (float, Angle, Poison)) or isinstance(y, (float, Angle, Poison)) or \
            (is_sym(x) and z3.is_real(x)) or (is_sym(y) and z3.is_real(y))
        if op == 'Add':
            return f_add(x, y)
        if op == 'Sub':
            return f_sub(x, y)
        if op == 'Mul':
            return f_mul(x, y)
        if op == 'Div':
            if isf:
                return f_div(x, y)
            if is_sym(x) or is_sym(y):
                if is_sym(y):
                    if self.branch(y == 0):
                        raise Panic('integer division by zero')
                    return x / y
                return x / y          # z3 Int division (euclidean; operands are non-negative in the kernels in scope)
            if y == 0:
                raise Panic('integer division by zero')
            q = abs(x) // abs(y)
            return q if (x >= 0) == (y >= 0) else -q
        if op == 'Rem':
            if isf:
                return f_rem(x, y)
            if is_sym(x) or is_sym(y):
                return x % y
            if y == 0:
                raise Panic('integer remainder by zero')
            import math
            return int(math.fmod(x, y))
        if op in ('BitAnd', 'BitOr', 'BitXor'):
            if isinstance(x, bool) and isinstance(y, bool):
                return {'BitAnd': x and y, 'BitOr': x or y, 'BitXor': x != y}[op]
            if (is_sym(x) and z3.is_bool(x)) or (is_sym(y) and z3.is_bool(y)):
                xb = x if is_sym(x) else z3.BoolVal(x)
                yb = y if is_sym(y) else z3.BoolVal(y)
                return {'BitAnd': z3.And(xb, yb), 'BitOr': z3.Or(xb, yb), 'BitXor': z3.Xor(xb, yb)}[op]
            if not is_sym(x) and not is_sym(y):
                return {'BitAnd': x & y, 'BitOr': x | y, 'BitXor': x ^ y}[op]
            raise Unsupported('bitwise op on symbolic integers')
        if op in ('Shl', 'Shr'):
            if not is_sym(x) and not is_sym(y):
                return (x << y) if op == 'Shl' else (x >> y)
            raise Unsupported('shift on symbolic integers')
        if op == 'Cmp':
            lt = f_cmp('Lt', x, y)
            eq = f_cmp('Eq', x, y)
            if not is_sym(lt) and not is_sym(eq):
                return En('Less' if lt else 'Equal' if eq else 'Greater')
            return En(self.choose([(lt, 'Less'), (eq, 'Equal'), (f_cmp('Gt', x, y), 'Greater')]))
        raise Unsupported('binop ' + op)

    def cast(self, v, ty, kind, src_text, fn):
        if kind == 'IntToInt':
            if isinstance(v, bool):
                return 1 if v else 0
            if is_sym(v) and z3.is_bool(v):
                return z3.If(v, 1, 0)
            if isinstance(v, En):
                return self.variant_index(v) if v.v not in DISCR else DISCR[v.v]
            lo, hi = INT_TYPES.get(ty, (None, None))
            if lo is None:
                return v
            if is_sym(v):
                # value-preserving when in range; otherwise wraps.  Kernels in scope stay in range: checked by feasibility.
                if self.feasible(z3.Or(v < lo, v > hi)):
                    if self.branch(z3.Or(v < lo, v > hi)):
                        raise Unsupported(f'wrapping integer cast to {ty}')
                return v
            span = hi - lo + 1
            return ((v - lo) % span) + lo
        if kind == 'IntToFloat':
            if MODE[0] == 'conc':
                return float(v)
            if is_sym(v):
                return z3.ToReal(v) if z3.is_int(v) else v
            return z3.RealVal(int(v))
        if kind == 'FloatToInt':
            if isinstance(v, Poison):
                if v.kind == 'nan':
                    return 0
                raise Unsupported('float-to-int cast of a non-finite value')
            v = num(v)
            lo, hi = INT_TYPES.get(ty, (None, None))
            if not is_sym(v):
                import math
                if isinstance(v, float) and math.isnan(v):
                    return 0
                t = int(v)
                return max(lo, min(hi, t))
            f = as_fraction(v)
            if f is not None:
                t = int(f)
                return max(lo, min(hi, t))
            k = ctx().fresh('trunc', 'int')
            facts = [z3.Implies(v >= 0, z3.And(z3.ToReal(k) <= v, v < z3.ToReal(k) + 1)),
                     z3.Implies(v < 0, z3.And(z3.ToReal(k) >= v, v > z3.ToReal(k) - 1))]
            ctx().add_def(k, facts)
            # saturating semantics
            if self.feasible(v < lo):
                if self.branch(v < lo):
                    return lo
            if self.feasible(v > hi):
                if self.branch(v > hi):
                    return hi
            return k
        if kind == 'FloatToFloat':
            return v
        if kind == 'PointerCoercion':
            if 'dyn ' in ty:
                m = re.search(r'dyn ([\w:]+)', ty)
                srcl = re.fullmatch(r'(?:copy|move) (_\d+)', src_text.strip())
                sty = fn.locals.get(srcl.group(1), '') if srcl else ''
                inner = v.get() if isinstance(v, Ref) else v
                conc_ty = re.sub(r'^&(?:mut )?', '', sty).strip()
                conc_ty = re.sub(r"^'\w+ ", '', conc_ty)
                if conc_ty.startswith('std::boxed::Box<'):
                    conc_ty = conc_ty[len('std::boxed::Box<'):-1]
                d = DynV(conc_ty, inner)
                return Ref(lambda: d) if isinstance(v, Ref) else d
            if isinstance(v, Ref):
                tgt = v.get()
                if isinstance(tgt, list) and not isinstance(tgt, Struct):
                    # array -> slice: share storage
                    vv = VecV([])
                    vv.items = tgt
                    return Ref(lambda: vv)
            return v
        if kind in ('Transmute', 'PtrToPtr', 'MutToConstPointer', 'FnPtrToPtr'):
            return v
        raise Unsupported('cast ' + kind)
