//! C17 — series and discrete domains stay sorted and finite (bit-precise part).
use crate::util::*;
use engeom::common::{linear_space, DiscreteDomain};
use engeom::Series1;

fn any_vec3(n: usize, xs: &[f64; 3]) -> Vec<f64> {
    let mut v = Vec::new();
    let mut i = 0;
    while i < n {
        v.push(xs[i]);
        i += 1;
    }
    v
}

/// TryFrom accepts exactly the finite ascending vectors
#[kani::proof]
#[kani::unwind(6)]
fn c17_domain_try_from() {
    let xs: [f64; 3] = kani::any();
    let n: usize = kani::any();
    kani::assume(n <= 3);
    let v = any_vec3(n, &xs);
    let valid = asc_finite(&xs[..n]);
    let r = DiscreteDomain::try_from(v);
    assert!(r.is_ok() == valid, "TryFrom accepts exactly finite ascending input");
    if let Ok(d) = &r {
        assert!(d.len() == n);
        match d.bounds() {
            None => { assert!(n == 0); }
            Some(b) => assert!(b.min == xs[0] && b.max == xs[n - 1], "bounds are first and last"),
        }
    }
    kani::cover!(r.is_ok() && n == 3);
    kani::cover!(r.is_err());
    std::mem::forget(r);
}

/// push keeps the invariant; a rejected push changes nothing
#[kani::proof]
#[kani::unwind(6)]
fn c17_domain_push_step() {
    let xs: [f64; 3] = kani::any();
    let n: usize = kani::any();
    kani::assume(n <= 2);
    let x: f64 = kani::any();
    if let Ok(mut d) = DiscreteDomain::try_from(any_vec3(n, &xs)) {
        let r = d.push(x);
        let ok = r.is_ok();
        std::mem::forget(r);
        assert!(asc_finite(d.values()), "domain stays finite ascending after push");
        if ok {
            assert!(d.len() == n + 1 && d.values()[n] == x);
        } else {
            assert!(d.len() == n, "rejected push changes nothing");
            assert!(!x.is_finite() || (n > 0 && x < xs[n - 1]));
        }
        kani::cover!(ok && n == 2);
        kani::cover!(!ok && x.is_finite());
        std::mem::forget(d);
    }
}

/// linear(): bounds in either order give a finite ascending, non-collapsed domain
/// BOUND: bounds are integers in [-1000, 1000] (exactly representable); n = 2, 3
fn linear_n(n: usize, free: bool) {
    let ai: i16 = kani::any();
    let bi: i16 = kani::any();
    kani::assume(ai >= -1000 && ai <= 1000 && bi >= -1000 && bi <= 1000);
    let (a, b) = (ai as f64, bi as f64);
    let d = if free { linear_space(a, b, n) } else { DiscreteDomain::linear(a, b, n) };
    let lo = if a <= b { a } else { b };
    let hi = if a <= b { b } else { a };
    assert!(d.len() == n);
    assert!(asc_finite(d.values()), "linear domain is finite ascending");
    if n >= 2 {
        assert!(d.values()[0] == lo, "linear domain starts at the smaller bound");
        let last = d.values()[n - 1];
        assert!(last == hi, "linear domain ends at the larger bound");
        if n == 3 {
            assert!(d.values()[1] == (lo + hi) / 2.0, "middle value is the midpoint");
        }
    }
    kani::cover!(a > b);
    kani::cover!(a < b);
    std::mem::forget(d);
}

#[kani::proof]
#[kani::unwind(5)]
fn c17_domain_linear_n2() {
    linear_n(2, false);
}

#[kani::proof]
#[kani::unwind(5)]
fn c17_domain_linear_n3() {
    linear_n(3, false);
}

#[kani::proof]
#[kani::unwind(5)]
fn c17_linear_space_n2() {
    linear_n(2, true);
}

#[kani::proof]
#[kani::unwind(5)]
fn c17_linear_space_n3() {
    linear_n(3, true);
}

/// a single-sample linear_space is the start value, not NaN
#[kani::proof]
#[kani::unwind(5)]
fn c17_linear_space_n1() {
    let a = any_f64_in(1.0e6);
    let b = any_f64_in(1.0e6);
    let d = linear_space(a, b, 1);
    assert!(d.len() == 1);
    assert!(asc_finite(d.values()), "linear_space domain is finite");
    std::mem::forget(d);
}


/// index_of: greatest index whose value is <= v, None outside the bounds
#[kani::proof]
#[kani::unwind(6)]
fn c17_domain_index_of() {
    let xs: [f64; 3] = kani::any();
    let n: usize = kani::any();
    kani::assume(n <= 3);
    let v = any_nonnan();
    if let Ok(d) = DiscreteDomain::try_from(any_vec3(n, &xs)) {
        match d.index_of(v) {
            Some(i) => {
                assert!(i < n);
                assert!(xs[i] <= v, "indexed value is not above the query");
                if i + 1 < n {
                    assert!(v <= xs[i + 1], "next value is not below the query");
                } else {
                    assert!(v == xs[n - 1]);
                }
            }
            None => assert!(n == 0 || v < xs[0] || v > xs[n - 1], "None only outside the bounds"),
        }
        kani::cover!(n == 3 && d.index_of(v) == Some(1));
        kani::cover!(n == 3 && d.index_of(v).is_none());
        std::mem::forget(d);
    }
}

fn any_series(n: usize, ybound: f64) -> (Option<Series1>, [f64; 3], [f64; 3]) {
    let xs: [f64; 3] = kani::any();
    let ys: [f64; 3] = kani::any();
    kani::assume(ys[0].abs() <= ybound && ys[1].abs() <= ybound && ys[2].abs() <= ybound);
    kani::assume(n <= 3);
    let r = Series1::try_new(any_vec3(n, &xs), any_vec3(n, &ys));
    let s = match r {
        Ok(s) => Some(s),
        Err(e) => {
            std::mem::forget(e);
            None
        }
    };
    (s, xs, ys)
}

/// Series1::try_new: lengths must match, abscissae finite ascending
#[kani::proof]
#[kani::unwind(6)]
fn c17_series_try_new() {
    let xs: [f64; 3] = kani::any();
    let ys: [f64; 3] = kani::any();
    let nx: usize = kani::any();
    let ny: usize = kani::any();
    kani::assume(nx <= 3 && ny <= 3);
    let r = Series1::try_new(any_vec3(nx, &xs), any_vec3(ny, &ys));
    assert!(r.is_ok() == (nx == ny && asc_finite(&xs[..nx])), "try_new accepts exactly matching, finite ascending input");
    if let Ok(s) = &r {
        assert!(s.x.len() == s.y.len());
    }
    kani::cover!(r.is_ok() && nx == 3);
    std::mem::forget(r);
}

// scaled_by / shift_by / remove_nan / between / split_at_x / resampled_*: CBMC ran out of memory (20 GB) on the
// in-place `into_iter().rev().collect()` / `map().collect()` specialisations even for n = 2; engine M decides them.

/// interpolate: stored value at knots, NaN outside, between the neighbours otherwise
fn interpolate_n(n: usize, min_gap: f64) {
    let (s, xs, ys) = any_series(n, 1.0e6);
    let x = any_nonnan();
    if let Some(s) = s {
        kani::assume(xs[0].abs() <= 1.0e6 && xs[n - 1].abs() <= 1.0e6);
        let mut g = 0;
        while g + 1 < n {
            // distinct neighbouring abscissae are at least min_gap apart (equal ones are allowed)
            kani::assume(xs[g + 1] == xs[g] || xs[g + 1] - xs[g] >= min_gap);
            g += 1;
        }
        let y = s.interpolate(x);
        if x < xs[0] || x > xs[n - 1] {
            assert!(y.is_nan(), "NaN outside the domain");
        } else {
            let mut i = 0;
            let mut knot = false;
            while i < n {
                if xs[i] == x {
                    knot = true;
                }
                i += 1;
            }
            if knot {
                let mut hit = false;
                i = 0;
                while i < n {
                    if xs[i] == x && (ys[i] == y) {
                        hit = true;
                    }
                    i += 1;
                }
                assert!(hit, "stored value at a knot");
            } else {
                i = 0;
                while i + 1 < n {
                    if xs[i] < x && x < xs[i + 1] {
                        let lo = if ys[i] <= ys[i + 1] { ys[i] } else { ys[i + 1] };
                        let hi = if ys[i] <= ys[i + 1] { ys[i + 1] } else { ys[i] };
                        let eps = 1.0e-9 * (1.0 + lo.abs() + hi.abs());
                        assert!(y >= lo - eps && y <= hi + eps, "value between the neighbouring ordinates");
                    }
                    i += 1;
                }
            }
            kani::cover!(!knot);
            kani::cover!(knot);
        }
        kani::cover!(x > xs[n - 1]);
        std::mem::forget(s);
    }
}

/// discrete part of interpolate for n = 3: NaN outside the domain, the stored value at a knot
/// (the blend between knots is decided by engine M in exact arithmetic; proving it bit-precisely did not finish in 900 s)
#[kani::proof]
#[kani::unwind(6)]
fn c17_series_interpolate_knots() {
    let n = 3;
    let (s, xs, ys) = any_series(n, 1.0e6);
    let x = any_nonnan();
    if let Some(s) = s {
        let y = s.interpolate(x);
        if x < xs[0] || x > xs[n - 1] {
            assert!(y.is_nan(), "NaN outside the domain");
        } else {
            let mut i = 0;
            let mut knot = false;
            let mut hit = false;
            while i < n {
                if xs[i] == x {
                    knot = true;
                    if ys[i] == y {
                        hit = true;
                    }
                }
                i += 1;
            }
            if knot {
                assert!(hit, "stored value at a knot");
            }
            kani::cover!(knot);
            kani::cover!(!knot);
        }
        kani::cover!(x > xs[n - 1]);
        std::mem::forget(s);
    }
}

/// the same with arbitrarily small (subnormal) gaps between abscissae: the slope (y1-y0)/(x1-x0) can overflow
#[kani::proof]
#[kani::unwind(6)]
fn c17_series_interpolate_tiny_gap() {
    interpolate_n(2, 0.0);
}

/// index_of_x_after: first index whose abscissa is >= x
#[kani::proof]
#[kani::unwind(6)]
fn c17_series_index_after() {
    let n: usize = kani::any();
    kani::assume(n <= 3);
    let (s, xs, _ys) = any_series(n, 1.0e6);
    let x = any_nonnan();
    if let Some(s) = s {
        let i = s.index_of_x_after(x);
        assert!(i <= n);
        if i < n {
            assert!(xs[i] >= x, "indexed abscissa is not below x");
        }
        if i > 0 {
            assert!(xs[i - 1] <= x, "previous abscissa is not above x");
            assert!(xs[i - 1] < x || (i < n && xs[i] == x) , "no earlier abscissa strictly matches unless equal run");
        }
        kani::cover!(n == 3 && i == 2);
        std::mem::forget(s);
    }
}
