//! C06 — the 4-wide slab test `cast_ray` at the bit level (engine M decides it over exact reals; the reciprocal of a
//! sub-normal direction component overflows only in f64).  Witness formulation without rounding: when the ray origin itself lies
//! in the box, the line certainly passes through the box, whatever the direction — the lane must not be pruned.
use engeom::verif_hooks::cast_ray;
use parry2d_f64::bounding_volume::{Aabb, SimdAabb};
use parry2d_f64::na::{Point2, SimdValue, Vector2};
use parry2d_f64::query::{Ray, SimdRay};

#[kani::proof]
fn c06_cast_ray_origin_inside() {
    let v: [f64; 8] = kani::any();
    kani::assume(v.iter().all(|x| x.is_finite() && x.abs() < 1e6));
    let (minx, miny, maxx, maxy, ox, oy, dx, dy) = (v[0], v[1], v[2], v[3], v[4], v[5], v[6], v[7]);
    kani::assume(minx <= ox && ox <= maxx && miny <= oy && oy <= maxy);
    let aabb = Aabb::new(Point2::new(minx, miny), Point2::new(maxx, maxy));
    let bv = SimdAabb::splat(aabb);
    let ray = SimdRay::splat(Ray::new(Point2::new(ox, oy), Vector2::new(dx, dy)));
    let (mask, _) = cast_ray(&bv, &ray);
    assert!(mask.extract(0), "a box that contains the ray origin is never pruned");
    kani::cover!(dx == 0.0 && dy != 0.0);
    kani::cover!(dx != 0.0 && dx.abs() < 1e-300);
}
