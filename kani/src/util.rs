pub const TAU: f64 = 2.0 * std::f64::consts::PI;
pub const PI: f64 = std::f64::consts::PI;

pub fn any_f64_in(bound: f64) -> f64 {
    let x: f64 = kani::any();
    kani::assume(x.is_finite() && x.abs() <= bound);
    x
}

pub fn any_nonnan() -> f64 {
    let x: f64 = kani::any();
    kani::assume(!x.is_nan());
    x
}

pub fn asc_finite(v: &[f64]) -> bool {
    let mut i = 0;
    while i < v.len() {
        if !v[i].is_finite() {
            return false;
        }
        if i > 0 && !(v[i - 1] <= v[i]) {
            return false;
        }
        i += 1;
    }
    true
}
