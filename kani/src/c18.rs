//! C18 — angle normalisation and interval arithmetic (bit-precise part).
use crate::util::*;
use engeom::common::{
    angle_in_direction, angle_signed_pi, angle_to_2pi, signed_compliment_2pi, AngleDir,
    AngleInterval, Interval,
};

// NOTE: everything built on `%` (angle_to_2pi, angle_signed_pi, angle_in_direction, AngleInterval) is decided by
// engine M only: CBMC's model of f64 `%` is not IEEE fmod (a Kani counterexample for angle_to_2pi(-15.622994)
// did not reproduce under concrete playback), so K makes no claim about those kernels.

#[kani::proof]
fn c18_signed_compliment() {
    let a = any_f64_in(TAU);
    let r = signed_compliment_2pi(a);
    if a >= 0.0 {
        assert!(r <= 0.0 && r >= -TAU, "complement of a non-negative angle is in [-2pi, 0]");
        assert!((a - r - TAU).abs() <= 1.0e-12, "angle minus its complement is a full turn");
    } else {
        assert!(r >= 0.0 && r <= TAU, "complement of a negative angle is in [0, 2pi]");
        assert!((r - a - TAU).abs() <= 1.0e-12, "complement minus angle is a full turn");
    }
    kani::cover!(a < 0.0);
}

#[kani::proof]
fn c18_interval_new() {
    let a: f64 = kani::any();
    let b: f64 = kani::any();
    let r = Interval::try_new(a, b);
    if a.is_nan() || b.is_nan() {
        assert!(r.is_err(), "NaN bounds are rejected");
    } else {
        let i = *r.as_ref().unwrap();
        assert!(i.min <= i.max, "bounds ordered on construction");
        assert!((i.min == a && i.max == b) || (i.min == b && i.max == a), "bounds are the arguments");
        let j = Interval::new(a, b);
        assert!(j.min == i.min && j.max == i.max);
        assert!(i.length() >= 0.0 || i.length().is_nan(), "length is non-negative (NaN only for inf - inf)");
        kani::cover!(a > b);
    }
    std::mem::forget(r);
}

#[kani::proof]
fn c18_interval_algebra() {
    let a = any_nonnan();
    let b = any_nonnan();
    let c = any_nonnan();
    let d = any_nonnan();
    let x = any_nonnan();
    let i = Interval::new(a, b);
    let j = Interval::new(c, d);
    let (ilo, ihi) = if a <= b { (a, b) } else { (b, a) };
    let (jlo, jhi) = if c <= d { (c, d) } else { (d, c) };
    // set definitions
    assert!(i.contains(x) == (ilo <= x && x <= ihi), "contains is membership in [lo, hi]");
    assert!(i.contains_interval(&j) == (ilo <= jlo && jhi <= ihi), "contains_interval is subset");
    let share = (if ilo >= jlo { ilo } else { jlo }) <= (if ihi <= jhi { ihi } else { jhi });
    assert!(i.overlaps(&j) == share, "overlaps iff the intervals share a value");
    assert!(i.overlaps(&j) == j.overlaps(&i), "overlaps is symmetric");
    let ij = i.intersection(&j);
    let ji = j.intersection(&i);
    assert!(ij == ji, "intersection is commutative");
    match ij {
        Some(k) => {
            assert!(share);
            assert!(k.contains(x) == (i.contains(x) && j.contains(x)), "intersection is the set intersection");
            assert!(i.contains_interval(&k) && j.contains_interval(&k), "intersection is contained in both operands");
        }
        None => assert!(!share, "no intersection only when disjoint"),
    }
    let cl = i.clamp(x);
    assert!(i.contains(cl), "clamp lands in the interval");
    if i.contains(x) {
        assert!(cl == x, "clamp is the identity inside");
    } else {
        assert!(cl == ilo || cl == ihi, "clamp maps outside values to the nearer bound");
        assert!((x < ilo) == (cl == ilo) || ilo == ihi);
    }
    kani::cover!(ij.is_some() && !i.contains_interval(&j) && !j.contains_interval(&i));
    kani::cover!(ij.is_none());
}
