//! placeholder
