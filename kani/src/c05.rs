//! placeholder
