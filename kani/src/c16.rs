//! C16 — aggregates track their contents (bit-precise part).
use crate::util::*;
use engeom::common::{DiscreteDomain, SurfacePoint};
use engeom::metrology::{
    DiscreteDomainTolMap, Distance2, Measurement, SurfaceDeviation2, SurfaceDeviationSet2,
    Tolerance, ToleranceMap,
};
use engeom::{Point2, Point3, PointCloud, PointCloudFeatures, UnitVec3, Vector2, Vector3};

fn sp() -> SurfacePoint<2> {
    SurfacePoint::new(
        Point2::new(0.0, 0.0),
        engeom::geom2::UnitVec2::new_unchecked(Vector2::new(1.0, 0.0)),
    )
}

fn check_set(s: &SurfaceDeviationSet2, d: &[f64], n: usize) {
    assert!(s.len() == n, "set holds everything pushed");
    if n == 0 {
        assert!(s.max().is_none() && s.min().is_none(), "empty set has no extremes");
        assert!(s.symmetrical_zone_size() == 0.0);
    } else {
        let mx = s.max().unwrap().deviation;
        let mn = s.min().unwrap().deviation;
        let mut i = 0;
        let mut amax = 0.0f64;
        let mut seen_mx = false;
        let mut seen_mn = false;
        while i < n {
            assert!(d[i] <= mx, "max() is an upper bound of the contents");
            assert!(d[i] >= mn, "min() is a lower bound of the contents");
            if d[i] == mx {
                seen_mx = true;
            }
            if d[i] == mn {
                seen_mn = true;
            }
            if d[i].abs() > amax {
                amax = d[i].abs();
            }
            i += 1;
        }
        assert!(seen_mx && seen_mn, "extremes are members");
        assert!(s.symmetrical_zone_size() == 2.0 * amax, "zone is twice the largest magnitude");
    }
}

/// every push history of length <= 4 from an empty set
#[kani::proof]
#[kani::unwind(6)]
fn c16_devset_push_from_empty() {
    let d: [f64; 4] = kani::any();
    kani::assume(!d[0].is_nan() && !d[1].is_nan() && !d[2].is_nan() && !d[3].is_nan());
    let n: usize = kani::any();
    kani::assume(n <= 4);
    let mut s = SurfaceDeviationSet2::default();
    let mut i = 0;
    while i < n {
        if i % 2 == 0 {
            s.push(SurfaceDeviation2::new(sp(), d[i]));
        } else {
            s.push_new(sp(), d[i]);
        }
        i += 1;
    }
    check_set(&s, &d, n);
    kani::cover!(n == 4 && d[3] > d[0] && d[2] < d[1]);
    std::mem::forget(s);
}

fn devset_new_k(k: usize, nmax: usize) {
    let d: [f64; 4] = kani::any();
    kani::assume(!d[0].is_nan() && !d[1].is_nan() && !d[2].is_nan() && !d[3].is_nan());
    let n: usize = kani::any();
    kani::assume(n >= k && n <= nmax);
    let mut v = Vec::new();
    let mut i = 0;
    while i < k {
        v.push(SurfaceDeviation2::new(sp(), d[i]));
        i += 1;
    }
    let mut s = SurfaceDeviationSet2::new(v);
    while i < n {
        s.push(SurfaceDeviation2::new(sp(), d[i]));
        i += 1;
    }
    check_set(&s, &d, n);
    kani::cover!(n == nmax);
    std::mem::forget(s);
}

/// construction from a vector of 1 element followed by <= 2 pushes
#[kani::proof]
#[kani::unwind(6)]
fn c16_devset_new1_then_push() {
    devset_new_k(1, 3);
}

/// construction from a vector of 2 elements followed by <= 2 pushes
#[kani::proof]
#[kani::unwind(6)]
fn c16_devset_new2_then_push() {
    devset_new_k(2, 4);
}

/// construction from a vector of 3 elements (ties included)
#[kani::proof]
#[kani::unwind(6)]
fn c16_devset_new3() {
    devset_new_k(3, 3);
}

fn nrm() -> UnitVec3 {
    UnitVec3::new_unchecked(Vector3::new(0.0, 0.0, 1.0))
}

fn any_cloud(maxlen: usize) -> PointCloud {
    let hn: bool = kani::any();
    let hc: bool = kani::any();
    let k: usize = kani::any();
    kani::assume(k <= maxlen);
    let mut pts = Vec::new();
    let mut ns = Vec::new();
    let mut cs = Vec::new();
    let mut i = 0;
    while i < k {
        pts.push(Point3::new(i as f64, 0.0, 0.0));
        ns.push(nrm());
        cs.push([i as u8; 3]);
        i += 1;
    }
    PointCloud::try_new(pts, if hn { Some(ns) } else { None }, if hc { Some(cs) } else { None }).unwrap()
}

fn cloud_inv(c: &PointCloud) -> bool {
    c.normals().map(|n| n.len() == c.len()).unwrap_or(true)
        && c.colors().map(|n| n.len() == c.len()).unwrap_or(true)
}

/// one append from an arbitrary valid state (inductive step)
#[kani::proof]
#[kani::unwind(5)]
fn c16_cloud_append_step() {
    let mut c = any_cloud(2);
    assert!(cloud_inv(&c));
    let before = c.len();
    let had_n = c.normals().is_some();
    let had_c = c.colors().is_some();
    let gn: bool = kani::any();
    let gc: bool = kani::any();
    let r = c.append(
        Point3::new(9.0, 0.0, 0.0),
        if gn { Some(nrm()) } else { None },
        if gc { Some([9u8; 3]) } else { None },
    );
    let ok = r.is_ok();
    std::mem::forget(r);
    assert!(ok == (gn == had_n && gc == had_c), "append accepted iff presence of normals/colours matches");
    assert!(c.len() == if ok { before + 1 } else { before }, "rejected append changes nothing");
    assert!(cloud_inv(&c), "parallel arrays keep the same length");
    assert!(c.normals().is_some() == had_n && c.colors().is_some() == had_c);
    if ok {
        assert!(c.points()[before].x == 9.0, "appended point is last");
    }
    kani::cover!(ok && before == 2);
    kani::cover!(!ok && before > 0);
    std::mem::forget(c);
}

/// one merge from arbitrary valid states
#[kani::proof]
#[kani::unwind(5)]
fn c16_cloud_merge_step() {
    let mut a = any_cloud(2);
    let b = any_cloud(2);
    let (la, lb) = (a.len(), b.len());
    let compatible = a.normals().is_some() == b.normals().is_some()
        && a.colors().is_some() == b.colors().is_some();
    let r = a.merge(b);
    let ok = r.is_ok();
    std::mem::forget(r);
    assert!(ok == compatible, "merge accepted iff presence matches");
    assert!(a.len() == if ok { la + lb } else { la }, "rejected merge changes nothing");
    assert!(cloud_inv(&a), "parallel arrays keep the same length");
    kani::cover!(ok && la == 2 && lb == 2);
    kani::cover!(!ok);
    std::mem::forget(a);
}

/// try_new rejects mismatched lengths; create_from_indices keeps the arrays parallel
#[kani::proof]
#[kani::unwind(5)]
fn c16_cloud_try_new_and_select() {
    let np: usize = kani::any();
    let nn: usize = kani::any();
    let nc: usize = kani::any();
    kani::assume(np <= 2 && nn <= 2 && nc <= 2);
    let hn: bool = kani::any();
    let hc: bool = kani::any();
    let pts = vec![Point3::new(1.0, 2.0, 3.0); np];
    let ns = vec![nrm(); nn];
    let cs = vec![[7u8; 3]; nc];
    let r = PointCloud::try_new(pts, if hn { Some(ns) } else { None }, if hc { Some(cs) } else { None });
    let expect_ok = (!hn || nn == np) && (!hc || nc == np);
    assert!(r.is_ok() == expect_ok, "try_new accepts exactly parallel arrays");
    if let Ok(c) = &r {
        assert!(cloud_inv(c));
        if np == 2 {
            let i0: usize = kani::any();
            let i1: usize = kani::any();
            kani::assume(i0 < 2 && i1 < 2);
            let idx = [i0, i1];
            let s = c.create_from_indices(&idx);
            assert!(s.len() == 2 && cloud_inv(&s), "selection keeps arrays parallel");
            assert!(s.normals().is_some() == hn && s.colors().is_some() == hc);
            std::mem::forget(s);
        }
    }
    kani::cover!(r.is_ok() && np == 2 && hn && hc);
    kani::cover!(r.is_err());
    std::mem::forget(r);
}

/// tolerance map: zone of the greatest breakpoint <= x; last zone beyond the end; nothing below the start
#[kani::proof]
#[kani::unwind(6)]
fn c16_tolmap_get() {
    let xs: [f64; 3] = kani::any();
    let n: usize = kani::any();
    kani::assume(n >= 1 && n <= 3);
    let x = any_nonnan();
    let mut v = Vec::new();
    let mut z = Vec::new();
    let mut i = 0;
    while i < n {
        v.push(xs[i]);
        z.push(Tolerance::new_unchecked(0.0, (i + 1) as f64));
        i += 1;
    }
    if let Ok(d) = DiscreteDomain::try_from(v) {
        let m = DiscreteDomainTolMap::try_new(d, z).unwrap();
        let got = m.get(x);
        if x < xs[0] {
            assert!(got.is_none(), "no zone below the first breakpoint");
        } else {
            let zone = got.unwrap().upper;
            // greatest breakpoint not above x; equal breakpoints are interchangeable
            let mut jstar = 0;
            let mut j = 0;
            while j < n {
                if xs[j] <= x {
                    jstar = j;
                }
                j += 1;
            }
            let mut ok = false;
            j = 0;
            while j < n {
                if zone == (j + 1) as f64 && xs[j] == xs[jstar] {
                    ok = true;
                }
                j += 1;
            }
            assert!(ok, "zone of the greatest breakpoint not above x");
        }
        kani::cover!(x < xs[0]);
        kani::cover!(n == 3 && x > xs[2]);
        kani::cover!(n == 3 && x > xs[0] && x < xs[1]);
        std::mem::forget(m);
    }
}

/// try_new of the map rejects length mismatch
#[kani::proof]
#[kani::unwind(5)]
fn c16_tolmap_try_new() {
    let nd: usize = kani::any();
    let nz: usize = kani::any();
    kani::assume(nd <= 2 && nz <= 2);
    let mut dv = Vec::new();
    let mut z = Vec::new();
    let mut i = 0;
    while i < nd {
        dv.push(1.0);
        i += 1;
    }
    i = 0;
    while i < nz {
        z.push(Tolerance::new_unchecked(0.0, 1.0));
        i += 1;
    }
    let d = DiscreteDomain::try_from(dv).unwrap();
    let r = DiscreteDomainTolMap::try_new(d, z);
    assert!(r.is_ok() == (nd == nz), "map accepts exactly one zone per breakpoint");
    if let Ok(m) = &r {
        if nd == 0 {
            assert!(m.get(0.0).is_none(), "empty map has no zone");
        }
    }
    kani::cover!(r.is_ok() && nd == 2);
    kani::cover!(r.is_err());
    std::mem::forget(r);
}

