//! Engine K: Kani proof harnesses over the compiled engeom code (bit-precise f64).
//! One harness per (property, clause, instantiation). Naming: c<NN>_<clause>.
//! Every `kani::assume` is the documented validity predicate of the API or a stated bound;
//! the driver (`/verif/check`) echoes them into evidence by scanning this file.
#![allow(unused, clippy::all)]

#[cfg(kani)]
mod util;
#[cfg(kani)]
mod c16;
#[cfg(kani)]
mod c17;
#[cfg(kani)]
mod c18;
#[cfg(kani)]
mod c12;
#[cfg(kani)]
mod c06;
#[cfg(kani)]
mod c05;
