"""Regenerates /verif/MANIFEST.json from the registry (run: python3 -m vlib.manifest_gen)."""
import json, os, subprocess
from .common import VERIF, REPO

CLAIMS = {}   # pid -> dict(level_text, level_note, technique, design_ref)
NA = {}

def load():
    from . import claims
    return claims.CLAIMS, claims.NOT_APPLICABLE

def main():
    claims, na = load()
    hooks_commits = subprocess.run(['git', '-C', REPO, 'log', '--format=%h %s'], stdout=subprocess.PIPE, text=True).stdout.strip().split('\n')
    hook_c = [l.split()[0] for l in hooks_commits if 'verif hook' in l]
    checks = []
    for pid in sorted(claims):
        c = claims[pid]
        checks.append({
            'property_id': pid,
            'quick_cmd': f'./check {pid} --tier quick',
            'thorough_cmd': f'./check {pid} --tier thorough',
            'evidence_file': f'/verif/evidence/{pid}.json',
            'replay_cmd_template': f'./check {pid} --replay {{path}}',
            'engine': c['engine'],
            'level_claimed': {'category': 'model_checking', 'text': c['text'], 'design_ref': c['design_ref']},
            'level_note': c['note'],
            'technique': c['technique'],
        })
    m = {
        'version': 1,
        'setup_cmd': './setup.sh',
        'hooks': {
            'guard': 'cargo feature "verif"',
            'enable': 'kani crate: engeom = { path = "/repo", features = ["verif"] }; replay crate: default cargo feature hooks = ["engeom/verif"] (falls back to --no-default-features if the hook code does not compile); MIR dump: cargo +nightly rustc --features verif (falls back to no feature; engine M needs no hook)',
            'baseline_off_cmd': 'cd /repo && cargo test --workspace --no-fail-fast --offline',
            'source_commits': hook_c,
            'add_only': True,
        },
        'engines': [
            {'name': 'K', 'path': '/verif/kani', 'serves_properties': sorted(p for p in claims if 'K' in claims[p]['engine']),
             'kind_free_text': 'Kani 0.68 / CBMC 6.11 proof harnesses over the compiled engeom code (bit-precise f64), bounded by #[kani::unwind] with unwinding assertions on'},
            {'name': 'M', 'path': '/verif/mirsym', 'serves_properties': sorted(p for p in claims if 'M' in claims[p]['engine']),
             'kind_free_text': 'mirsym: symbolic executor for rustc MIR of /repo (cargo +nightly rustc -Zunpretty=mir) with z3; f64 as exact reals, containers with symbolic iteration order, external crates by contract summaries; counterexamples replayed on the real build'},
        ],
        'checks': checks,
        'not_applicable': [{'property_id': p, 'reason': r} for p, r in sorted(na.items())],
        'notes': 'Solver-based checking of the real code; see DESIGN.md. Fix commits and known findings: KNOWN_FINDINGS.jsonl.',
    }
    with open(os.path.join(VERIF, 'MANIFEST.json'), 'w') as f:
        json.dump(m, f, indent=1)
    print('MANIFEST.json written:', len(checks), 'checks,', len(na), 'not applicable')

if __name__ == '__main__':
    main()
