"""Property registry: which units (K harnesses, M drivers) decide which property in which tier."""
import importlib, os, sys, time
from .common import *
from . import kani

# K harnesses per property: (harness, tiers, cap_quick_s, cap_thorough_s)
K = {
    'C16': [
        ('c16::c16_devset_push_from_empty', 'qt'), ('c16::c16_devset_new1_then_push', 'qt'), ('c16::c16_devset_new2_then_push', 'qt'), ('c16::c16_devset_new3', 'qt'),
        ('c16::c16_cloud_append_step', 'qt'), ('c16::c16_cloud_merge_step', 'qt'), ('c16::c16_cloud_try_new_and_select', 'qt'),
        ('c16::c16_tolmap_get', 'qt'), ('c16::c16_tolmap_try_new', 'qt'),
    ],
    'C17': [
        ('c17::c17_domain_try_from', 'qt'), ('c17::c17_domain_push_step', 'qt'),
        ('c17::c17_domain_linear_n2', 'qt'), ('c17::c17_domain_linear_n3', 'qt'),
        ('c17::c17_linear_space_n1', 'qt'), ('c17::c17_linear_space_n2', 'qt'), ('c17::c17_linear_space_n3', 'qt'),
        ('c17::c17_domain_index_of', 'qt'), ('c17::c17_series_try_new', 'qt'),
        ('c17::c17_series_interpolate_knots', 'qt'), ('c17::c17_series_interpolate_tiny_gap', 'qt'),
        ('c17::c17_series_index_after', 'qt'),
    ],
    'C06': [('c06::c06_cast_ray_origin_inside', 't')],
    'C18': [
        ('c18::c18_signed_compliment', 'qt'), ('c18::c18_interval_new', 'qt'), ('c18::c18_interval_algebra', 'qt'),
    ],
}
CAPS = {'quick': 150, 'thorough': 900}

def run(pid, tier, seed, only=None):
    v = Verdict(pid, tier, seed)
    t = 'q' if tier == 'quick' else 't'
    names = [h for (h, tiers) in K.get(pid, []) if t in tiers and (not only or only in h)]
    v.bounds['tier_caps_s'] = {'kani_per_harness': CAPS[tier]}
    if names:
        kani.check_harnesses(v, names, jobs=12, timeout_s=CAPS[tier], mem_gb=10 if tier == 'quick' else 20)
    try:
        mod = importlib.import_module('vlib.props.' + pid.lower())
    except ModuleNotFoundError:
        mod = None
    if mod is not None:
        mod.run(v, tier, seed, only)
    if not names and mod is None:
        log(f'property {pid} has no registered check (see MANIFEST not_applicable)')
        return 2
    return v.finish()

def replay(pid, path):
    log(f'replay of {path}: see the header of the file for the exact command')
    print(open(path).read())
    return 0
