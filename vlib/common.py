"""Shared plumbing for /verif/check: paths, locks, process running, evidence, known findings."""
import fcntl, hashlib, json, os, subprocess, sys, time, contextlib, re

VERIF = os.path.dirname(os.path.dirname(os.path.abspath(__file__)))
REPO = os.environ.get('VERIF_REPO', '/repo')
BUILD = os.path.join(VERIF, 'build')
EVID = os.path.join(VERIF, 'evidence')
os.makedirs(BUILD, exist_ok=True)
os.makedirs(EVID, exist_ok=True)

ENV = dict(os.environ)
ENV.update({'CARGO_NET_OFFLINE': 'true', 'CARGO_TERM_COLOR': 'never'})

def log(*a):
    print(*a, flush=True)

@contextlib.contextmanager
def flock(name):
    path = os.path.join(BUILD, name + '.lock')
    with open(path, 'w') as f:
        fcntl.flock(f, fcntl.LOCK_EX)
        try:
            yield
        finally:
            fcntl.flock(f, fcntl.LOCK_UN)

def repo_source_hash():
    """SHA-256 over the working-tree sources the encodings are generated from."""
    h = hashlib.sha256()
    files = ['Cargo.toml', 'Cargo.lock']
    for root, _dirs, fs in os.walk(os.path.join(REPO, 'src')):
        for f in fs:
            if f.endswith('.rs'):
                files.append(os.path.relpath(os.path.join(root, f), REPO))
    for f in sorted(files):
        h.update(f.encode())
        with open(os.path.join(REPO, f), 'rb') as fh:
            h.update(fh.read())
    return h.hexdigest()

def run(cmd, cwd=None, timeout=None, env=None, logfile=None):
    t0 = time.time()
    e = dict(ENV)
    if env:
        e.update(env)
    try:
        p = subprocess.run(cmd, cwd=cwd, env=e, stdout=subprocess.PIPE, stderr=subprocess.STDOUT, timeout=timeout, text=True, errors='replace')
        out, rc = p.stdout, p.returncode
    except subprocess.TimeoutExpired as ex:
        out = (ex.stdout or '')
        if isinstance(out, bytes):
            out = out.decode(errors='replace')
        rc = -9
    if logfile:
        with open(logfile, 'w') as f:
            f.write(out)
    return rc, out, time.time() - t0

# ---------------------------------------------------------------- known findings
def load_findings():
    path = os.path.join(VERIF, 'KNOWN_FINDINGS.jsonl')
    out = []
    if os.path.exists(path):
        for line in open(path):
            line = line.strip()
            if line and not line.startswith('#'):
                out.append(json.loads(line))
    return out

class Verdict:
    """Collects the result of one check run and writes evidence."""
    def __init__(self, pid, tier, seed):
        self.pid, self.tier, self.seed = pid, tier, seed
        self.t0 = time.time()
        self.states = 0            # symbolic paths (M) + harnesses decided (K)
        self.transitions = 0       # MIR blocks executed (M) + CBMC checks evaluated (K)
        self.traces = 0            # concrete differential runs + replays against the real build
        self.obligations = 0
        self.discharged = 0
        self.undecided = []
        self.tolerance_only = []
        self.samples = []
        self.functions = {}        # name -> hash
        self.bounds = {}
        self.assumptions = []
        self.solver_time = {}
        self.violations = []       # (key, what, replay_path)
        self.known_hits = []
        self.engine_errors = []
        self.notes = []
        self.units = []            # per unit summaries
        self.findings = [f for f in load_findings() if f.get('property') == pid]

    def assume(self, text):
        if text not in self.assumptions:
            self.assumptions.append(text)

    def add_time(self, engine, s):
        self.solver_time[engine] = round(self.solver_time.get(engine, 0.0) + s, 3)

    def sample(self, obj):
        if len(self.samples) < 12:
            self.samples.append(obj)

    def violation(self, key, what, replay_path):
        """key identifies the role of the failing input; matched against KNOWN_FINDINGS."""
        for f in self.findings:
            if f.get('status') == 'known' and f.get('key') == key:
                if key not in [k for k, _ in self.known_hits]:
                    self.known_hits.append((key, f.get('what', what)))
                return 'known'
        self.violations.append((key, what, replay_path))
        return 'new'

    def finish(self, min_required=1):
        wall = time.time() - self.t0
        cov = {
            'states': max(self.states, 0),
            'transitions': max(self.transitions, 0),
            'traces_validated_against_impl': self.traces,
            'samples': self.samples if self.samples else [{'note': 'no samples recorded'}],
            'obligations': self.obligations,
            'discharged': self.discharged,
            'undecided': self.undecided,
            'tolerance_only': self.tolerance_only,
            'functions_encoded': [{'name': k, 'sha256': v} for k, v in sorted(self.functions.items())],
            'bounds': self.bounds,
            'solver_time_s': self.solver_time,
            'units': self.units,
            'known_findings_hit': [{'key': k, 'what': w} for k, w in self.known_hits],
            'engine_errors': self.engine_errors,
            'notes': self.notes,
            'repo_source_sha256': repo_source_hash(),
            'exhaustive': False,
        }
        ev = {
            'property_id': self.pid, 'tier': self.tier, 'seed': self.seed, 'level': 'model_checking',
            'coverage': cov, 'assumptions': self.assumptions, 'wall_s': round(wall, 2),
            'violations': len(self.violations),
        }
        with open(os.path.join(EVID, self.pid + '.json'), 'w') as f:
            json.dump(ev, f, indent=1, default=str)
        for k, w in self.known_hits:
            log(f'KNOWN-FINDING: property={self.pid} {w}')
        for key, what, path in self.violations:
            log(f'VIOLATION property={self.pid} replay={path}')
            log(f'  what: {what} [key: {key}]')
        log(f'[{self.pid}/{self.tier}] obligations={self.obligations} discharged={self.discharged} undecided={len(self.undecided)} '
            f'violations={len(self.violations)} known={len(self.known_hits)} wall={wall:.1f}s')
        if self.violations:
            return 1
        if self.engine_errors:
            for e in self.engine_errors:
                log('ENGINE-ERROR:', e)
            return 2
        if self.discharged + len(self.known_hits) < min_required:
            log('nothing decided: exit 2')
            return 2
        return 0
