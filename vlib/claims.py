"""What is claimed per property (source of MANIFEST.json)."""
UNBUILT = 'check not built yet in this session (planned in DESIGN.md section 6); not claimed until it runs'
KM = 'Kani/CBMC bounded model checking of the compiled code (bit-precise f64) + symbolic execution of rustc MIR with z3/cvc5 (exact reals)'
M_ONLY = 'symbolic execution of rustc MIR of /repo (mirsym) with z3 4.8/5.1 and cvc5; f64 as exact reals; counterexamples replayed on the real build'
TRUST_M = ('Trusted: nightly rustc MIR dump as the semantics of the source, the mirsym executor and its contract summaries of std/nalgebra/parry '
           '(listed per run in evidence.assumptions), z3/cvc5. Exact real arithmetic: rounding-level behaviour is outside the claim; every violation is '
           'replayed on the real dev and release builds before it is reported. Bounds per unit in evidence.coverage.units[].bounds.')
CLAIMS = {
    'C11': dict(engine='M', design_ref='DESIGN.md section 6 C11', technique=M_ONLY,
        text='For circle-circle intersections, tangent points from an external point and outer tangent segments, the MIR of the real functions is executed on symbolic circles (any radii in (0,1e3], centre in [-1e3,1e3]^2, second centre along concrete axis/Pythagorean direction classes at a symbolic distance, plus general position for the cheaper kernels) and the solver shows for all of them: no non-finite coordinate, every returned point on both objects, tangent perpendicular to the radius, documented left/right order, count by configuration; every panic path is a violation.',
        note=TRUST_M + ' Not yet decided: line/segment/curve-circle intersections, three-point arcs, arc length/point-at, bounding boxes. Nearly concentric circles (0 < d < 1e-3) are outside the claim (conditioning).'),
    'C12': dict(engine='M', design_ref='DESIGN.md section 6 C12', technique=M_ONLY + '; hash containers as unordered sets whose iteration order is forked symbolically',
        text='Edge table / face-edge map / boundary loops, patch decomposition, voxel clustering and index chaining are executed from their MIR on symbolic vertex ids (every relative order of the labels, per contact configuration of <= 3 faces; <= 3 pairs; <= 2 voxels) and for every hash iteration order; the solver shows exact-partition and exactly-once clauses, termination within a stated loop budget, and for the box/cylinder generators consistent winding and outward normals for all positive sizes.',
        note=TRUST_M + ' Bounds: F <= 2 faces in 6 contact configurations + 3-face fans/strips (quick), <= 4 faces (thorough); loop budgets stated per unit; integer-only queries.'),
    'C16': dict(engine='K+M', design_ref='DESIGN.md section 6 C16', technique=KM,
        text='K: for all f64 values and all push/append/merge histories within the stated sizes (<= 4 pushes, clouds of <= 2 points, <= 3 breakpoints) the aggregates track their contents; one-step harnesses from an arbitrary valid state make the claim inductive over histories. M: point_curve2_deviation (magnitude = distance, sign = normal side, reference + direction*value reconstructs the point) and Distance value/reversal for all symbolic stations/points in the direction classes.',
        note='Trusted: Kani/CBMC/CaDiCaL, --ignore-global-asm (generator crate, unreachable); ' + TRUST_M + ' CBMC float side-checks (NaN on inf-inf etc.) are filtered and counted. Mesh::measure_point_deviation and the closest-point search itself are not decided (parry).'),
    'C17': dict(engine='K+M', design_ref='DESIGN.md section 6 C17', technique=KM,
        text='K: DiscreteDomain / linear / linear_space / Series1::try_new / index_of / interpolate (knots, outside) / index_of_x_after over all f64 with n <= 3. M: between, split_at_x (+ area additivity), interpolate (linear blend), y_crossings (soundness + completeness), resampled_n, scaled_by (both signs), shift_by, remove_nan for symbolic series of n <= 3 (4 thorough) samples: ascending finite abscissae, matching ordinates, function preservation, no panic.',
        note='Trusted: Kani/CBMC; ' + TRUST_M + ' Known finding: slope overflow of interpolate at subnormal abscissa gaps (KNOWN_FINDINGS.jsonl).'),
    'C18': dict(engine='K+M', design_ref='DESIGN.md section 6 C18', technique=KM,
        text='K: scalar Interval algebra over the whole f64 domain (ordering, NaN rejection, contains/overlaps/intersection/clamp vs. set definitions) and signed_compliment_2pi. M: angle_to_2pi / angle_signed_pi (range, same direction) for any real magnitude <= 1e6, angle_in_direction (range, cw+ccw, rotation), AngleInterval new/contains/intersects against the swept set, signed_angle / directed_angle for vector pairs in the direction classes.',
        note='Trusted: Kani/CBMC; ' + TRUST_M + ' f64 PI is identified with pi and `%` is modelled as exact fmod with an integer quotient; CBMC\'s model of `%` is not IEEE fmod, so K makes no claim about the fmod kernels.'),
}
NOT_APPLICABLE = {
    'C10': 'airfoil analysis: data-dependent iterative f64 numerics over parry BVH queries; no bounded encoding within reach of Kani or the MIR executor (DESIGN.md section 7)',
    'C20': 'conformal flattening: solution of sparse linear systems (faer LU) with acos-derived entries; outside NRA and outside Kani (DESIGN.md section 7)',
}
for _p in ['C01','C02','C03','C04','C05','C06','C07','C08','C09','C13','C14','C15','C19']:
    NOT_APPLICABLE[_p] = UNBUILT
