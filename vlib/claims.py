"""What is claimed per property (source of MANIFEST.json)."""
UNBUILT = 'check not built yet in this session (planned in DESIGN.md section 6); not claimed until it runs'
CLAIMS = {
    'C16': dict(engine='K', design_ref='DESIGN.md section 6 C16',
        technique='bounded model checking of the compiled code (Kani/CBMC, SAT), bit-precise f64',
        text='Kani/CBMC decides, for all f64 values and all push/append/merge histories within the stated sizes (<= 4 pushes, clouds of <= 2 points, <= 3 breakpoints), that the aggregates track their contents; one-step harnesses from an arbitrary valid state make the claim inductive over histories. Counterexamples are replayed by concrete playback on the real build.',
        note='Trusted: Kani/CBMC/CaDiCaL, rustc MIR->goto translation, --ignore-global-asm (generator crate, unreachable). Bounds: see evidence.coverage.units[].unwind and assumptions. CBMC float side-checks (NaN on inf-inf etc.) are filtered, counted in evidence. Deviation sign/magnitude clauses (point_curve2_deviation, measure_point_deviation) are not yet decided.'),
    'C17': dict(engine='K', design_ref='DESIGN.md section 6 C17',
        technique='bounded model checking of the compiled code (Kani/CBMC, SAT), bit-precise f64',
        text='Kani/CBMC decides for all f64 inputs with n <= 3 samples that DiscreteDomain / linear / linear_space / Series1::try_new / index_of / interpolate (knots, outside) / index_of_x_after return finite ascending abscissae with matching ordinates or an error.',
        note='Trusted: Kani/CBMC. Bounds: n <= 3; linear() bounds integer-valued in [-1000,1000]. Derived-series operations (between, split, resample, scaling, crossings) are not decided by K (CBMC out of memory) and are planned for engine M.'),
    'C18': dict(engine='K', design_ref='DESIGN.md section 6 C18',
        technique='bounded model checking of the compiled code (Kani/CBMC, SAT), bit-precise f64',
        text='Kani/CBMC decides the scalar Interval algebra (ordering on construction, NaN rejection, contains/overlaps/intersection/clamp against their set definitions, commutativity) over the whole f64 domain including infinities, and signed_compliment_2pi on [-2pi, 2pi].',
        note='Trusted: Kani/CBMC. Everything built on f64 `%` (angle normalisation, AngleInterval) is outside K: CBMC\'s model of `%` is not IEEE fmod (a counterexample did not replay); those clauses are planned for engine M.'),
}
NOT_APPLICABLE = {
    'C10': 'airfoil analysis: data-dependent iterative f64 numerics over parry BVH queries; no bounded encoding within reach of Kani or the MIR executor (DESIGN.md section 7)',
    'C20': 'conformal flattening: solution of sparse linear systems (faer LU) with acos-derived entries; outside NRA and outside Kani (DESIGN.md section 7)',
}
for _p in ['C01','C02','C03','C04','C05','C06','C07','C08','C09','C11','C12','C13','C14','C15','C19']:
    NOT_APPLICABLE[_p] = UNBUILT
