"""Engine K driver: build the harness crate against /repo's working tree, run harnesses with Kani/CBMC,
classify the per-check results, replay counterexamples by concrete playback."""
import os, re, resource, shutil, subprocess, time, json, hashlib
from .common import *

KANI_DIR = os.path.join(VERIF, 'kani')
TARGET = os.path.join(BUILD, 'kani-target')
BASE = ['cargo', 'kani', '-Z', 'unstable-options', '--ignore-global-asm']

# CBMC float-arithmetic side checks: legal IEEE behaviour on arbitrary inputs (inf - inf etc.), not property
# violations by themselves.  Counted separately in evidence.
FILTERED = re.compile(r'^(NaN on |arithmetic overflow on floating-point|division by zero$)')

import threading

def _watchdog(stop, mem_gb, marker):
    """kill cbmc processes of this run whose resident set exceeds the cap (memory-bound sandbox, no swap)"""
    while not stop.wait(5.0):
        try:
            out = subprocess.run(['ps', '-eo', 'pid,rss,args'], stdout=subprocess.PIPE, text=True).stdout
        except Exception:
            continue
        for line in out.split('\n')[1:]:
            parts = line.split(None, 2)
            if len(parts) == 3 and parts[2].startswith('cbmc ') and marker in parts[2] and int(parts[1]) > mem_gb * 1024 * 1024:
                try:
                    os.kill(int(parts[0]), 9)
                except Exception:
                    pass

def harness_sources():
    src = {}
    for f in sorted(os.listdir(os.path.join(KANI_DIR, 'src'))):
        if f.endswith('.rs'):
            src[f] = open(os.path.join(KANI_DIR, 'src', f)).read()
    return src

def harness_info(name):
    """returns (source text of the harness fn, list of assume/bound lines) by scanning the harness crate"""
    for f, text in harness_sources().items():
        m = re.search(r'((?:///[^\n]*\n)*)#\[kani::proof\]\n(?:#\[kani::[^\n]*\]\n)*fn ' + re.escape(name) + r'\(\) \{\n(.*?)\n\}\n', text, re.S)
        if m:
            body = m.group(2)
            assumes = [l.strip() for l in body.split('\n') if 'kani::assume' in l or 'any_f64_in' in l or 'any_nonnan' in l]
            doc = ' '.join(l.strip('/ ').strip() for l in m.group(1).strip().split('\n') if l.strip())
            unw = re.search(r'#\[kani::unwind\((\d+)\)\]\nfn ' + re.escape(name), text)
            return {'file': 'kani/src/' + f, 'doc': doc, 'assumes': assumes, 'unwind': int(unw.group(1)) if unw else None}
    return None

def parse_output(out):
    """per-harness dict from `cargo kani -j N --output-format terse` output"""
    cur = {}
    res = {}
    active = None
    for line in out.split('\n'):
        m = re.match(r'Thread (\d+): Checking harness (\S+?)\.\.\.', line)
        if m:
            cur[m.group(1)] = m.group(2)
            active = None
            continue
        m = re.match(r'Thread (\d+): *$', line)
        if m:
            active = cur.get(m.group(1))
            if active:
                res[active] = {'failed': [], 'raw': [], 'status': None, 'checks': 0, 'nfailed': 0, 'cover_sat': 0, 'cover_total': 0, 'time': None, 'why': ''}
            continue
        if line.startswith('Manual Harness Summary') or line.startswith('Complete - '):
            active = None
            continue
        if active is None:
            continue
        r = res[active]
        r['raw'].append(line)
        m = re.match(r' \*\* (\d+) of (\d+) failed', line)
        if m:
            r['nfailed'], r['checks'] = int(m.group(1)), int(m.group(2))
        m = re.match(r' \*\* (\d+) of (\d+) cover properties satisfied', line)
        if m:
            r['cover_sat'], r['cover_total'] = int(m.group(1)), int(m.group(2))
        m = re.match(r'Failed Checks: (.*)', line)
        if m:
            r['failed'].append({'desc': m.group(1).strip().strip('"'), 'where': ''})
        m = re.match(r' File: "(.*?)", line (\d+), in (.*)', line)
        if m and r['failed']:
            r['failed'][-1]['where'] = f'{m.group(1)}:{m.group(2)} in {m.group(3)}'
        if 'VERIFICATION:- SUCCESSFUL' in line:
            r['status'] = 'success'
        if 'VERIFICATION:- FAILED' in line and r['status'] is None:
            r['status'] = 'failed'
        if 'CBMC timed out' in line:
            r['status'] = 'timeout'
        if 'run out of memory' in line:
            r['status'] = 'oom'
        m = re.match(r'Verification Time: ([0-9.]+)s', line)
        if m:
            r['time'] = float(m.group(1))
    return res

def classify(r):
    """-> (verdict, real_failures, filtered_failures)   verdict in pass|violation|undecided|vacuous"""
    if r['status'] in ('timeout', 'oom') or r['status'] is None:
        return 'undecided', [], []
    real = [f for f in r['failed'] if not FILTERED.match(f['desc'])]
    filt = [f for f in r['failed'] if FILTERED.match(f['desc'])]
    if r['status'] == 'failed' and not r['failed']:
        return 'undecided', [], []
    if real:
        return 'violation', real, filt
    if r['cover_sat'] < r['cover_total']:
        return 'vacuous', [], filt
    return 'pass', [], filt

def run_harnesses(names, jobs=8, timeout_s=120, mem_gb=14, logname='kani'):
    """Runs the named harnesses (exact names, e.g. 'c16::c16_tolmap_get').  Returns (results, build_ok, raw_log_path)."""
    with flock('kani-target'):
        cmd = BASE + ['--target-dir', TARGET, '--exact']
        for n in names:
            cmd += ['--harness', n]
        cmd += ['-j', str(max(2, min(jobs, len(names)))), '--harness-timeout', f'{int(timeout_s)}s', '--output-format', 'terse']
        logfile = os.path.join(BUILD, logname + '.log')
        t0 = time.time()
        p = subprocess.Popen(cmd, cwd=KANI_DIR, env=ENV, stdout=subprocess.PIPE, stderr=subprocess.STDOUT, text=True, errors='replace')
        stop = threading.Event()
        th = threading.Thread(target=_watchdog, args=(stop, mem_gb, TARGET), daemon=True)
        th.start()
        try:
            out, _ = p.communicate(timeout=timeout_s * (1 + len(names) // max(1, jobs)) + 900)
        except subprocess.TimeoutExpired:
            p.kill()
            subprocess.run(['pkill', '-f', TARGET])
            out, _ = p.communicate()
        stop.set()
        with open(logfile, 'w') as f:
            f.write(out)
    build_ok = 'error: could not compile' not in out and 'Failed to execute cargo' not in out
    return parse_output(out), build_ok, logfile, time.time() - t0

def playback(harness, pid):
    """Concrete playback of a failing harness against the real (dev-profile) build.
    Returns (reproduced: bool|None, replay_path)."""
    short = harness.split('::')[-1]
    work = os.path.join(BUILD, 'playback', short)
    shutil.rmtree(work, ignore_errors=True)
    os.makedirs(work)
    shutil.copytree(os.path.join(KANI_DIR, 'src'), os.path.join(work, 'src'))
    for f in ('Cargo.toml', 'Cargo.lock'):
        shutil.copy(os.path.join(KANI_DIR, f), work)
    tdir = os.path.join(BUILD, 'playback-target')
    repl_dir = os.path.join(EVID, 'replays', pid)
    os.makedirs(repl_dir, exist_ok=True)
    path = os.path.join(repl_dir, short + '.rs')
    with flock('playback-target'):
        rc, out, _ = run(BASE + ['--target-dir', tdir, '-Z', 'concrete-playback', '--concrete-playback=inplace', '--exact', '--harness', harness,
                                 '--harness-timeout', '900s', '--output-format', 'terse'], cwd=work, timeout=1500)
        # find the generated test (Kani may insert the same test several times: keep one of each name)
        test = None
        for f in os.listdir(os.path.join(work, 'src')):
            fp = os.path.join(work, 'src', f)
            text = open(fp).read()
            seen_t = set()

            def _dedupe(mm):
                if mm.group(1) in seen_t:
                    return ''
                seen_t.add(mm.group(1))
                return mm.group(0)
            new_text = re.sub(r'#\[test\]\s*fn (kani_concrete_playback_\w+)\(\) \{.*?\n\}\n?', _dedupe, text, flags=re.S)
            if new_text != text:
                open(fp, 'w').write(new_text)
                text = new_text
            m = re.search(r'#\[test\]\s*fn (kani_concrete_playback_\w+)\(\) \{.*?\n\}', text, re.S)
            if m:
                test = m.group(1)
                with open(path, 'w') as o:
                    o.write(f'// concrete playback of harness {harness} (generated by Kani from the solver model)\n// run: copy into kani/src/{f} and `cargo kani playback -Z concrete-playback -- {test}`\n')
                    o.write(m.group(0) + '\n')
                break
        if not test:
            with open(path, 'w') as o:
                o.write('// Kani produced no concrete playback test\n' + out[-3000:])
            return None, path
        rc2, out2, _ = run(['cargo', 'kani', 'playback', '-Z', 'concrete-playback', '--', test], cwd=work, timeout=1500,
                           env={'CARGO_TARGET_DIR': tdir})
        reproduced = ('test result: FAILED' in out2) or ('panicked at' in out2)
        with open(path, 'a') as o:
            o.write('\n/* playback output (dev profile):\n' + '\n'.join(out2.split('\n')[-25:]).replace('*/', '* /') + '\n*/\n')
    shutil.rmtree(work, ignore_errors=True)
    return reproduced, path

def check_harnesses(v, names, jobs=10, timeout_s=120, mem_gb=14, required=True, do_playback=True):
    """Run harnesses and fold the results into Verdict v."""
    names = list(names)
    if not names:
        return
    res, build_ok, logfile, wall = run_harnesses(names, jobs=jobs, timeout_s=timeout_s, mem_gb=mem_gb, logname=f'kani-{v.pid}-{v.tier}')
    v.add_time('kani_cbmc_wall', wall)
    if not build_ok:
        v.engine_errors.append(f'Kani harness crate failed to build against /repo (see {logfile})')
        return
    v.bounds.setdefault('kani', {})
    for n in names:
        info = harness_info(n.split('::')[-1]) or {}
        v.obligations += 1
        r = res.get(n)
        unit = {'engine': 'K', 'harness': n, 'doc': info.get('doc'), 'unwind': info.get('unwind'), 'cap_s': timeout_s}
        for a in info.get('assumes', []):
            v.assume(f'K {n.split("::")[-1]}: {a}')
        if r is None:
            unit['verdict'] = 'undecided'
            unit['why'] = 'no result block in Kani output'
            v.undecided.append({'unit': n, 'why': unit['why']})
            v.units.append(unit)
            continue
        verdict, real, filt = classify(r)
        unit.update({'verdict': verdict, 'cbmc_checks': r['checks'], 'cover': f"{r['cover_sat']}/{r['cover_total']}", 'time_s': r['time'],
                     'filtered_float_checks': len(filt)})
        if r['time']:
            v.add_time('cbmc', r['time'])
        v.transitions += r['checks']
        if verdict == 'pass':
            v.discharged += 1
            v.states += 1
            v.sample({'engine': 'K', 'harness': n, 'what': info.get('doc'), 'cbmc_checks': r['checks'], 'result': 'all checks hold within bounds'})
        elif verdict == 'undecided':
            unit['why'] = r['status'] or 'no verdict'
            v.undecided.append({'unit': n, 'why': unit['why']})
        elif verdict == 'vacuous':
            v.engine_errors.append(f'harness {n}: cover property unsatisfied ({r["cover_sat"]}/{r["cover_total"]}) - vacuous harness')
        else:
            v.states += 1
            new = []
            for f in real:
                fn = f['where'].split(' in ')[-1] if f['where'] else ''
                key = f'K:{n.split("::")[-1]}:{f["desc"]}' + (f'@{fn}' if fn and not fn.startswith(n.split('::')[0]) else '')
                what = f'{f["desc"]} ({f["where"]}) in harness {n}'
                st = v.violation(key, what, '(pending playback)')
                if st == 'new':
                    new.append((key, what))
                unit.setdefault('failed', []).append({'key': key, 'status': st})
            if new and do_playback:
                rep, path = playback(n, v.pid)
                v.traces += 1
                # patch the replay path / drop if not reproduced
                v.violations = [(k, w, path) if p == '(pending playback)' else (k, w, p) for (k, w, p) in v.violations]
                if rep is False:
                    v.violations = [(k, w, p) for (k, w, p) in v.violations if (k, w) not in new]
                    v.engine_errors.append(f'ENGINE-DISAGREEMENT: Kani counterexample for {n} did not reproduce under concrete playback ({path})')
                unit['playback_reproduced'] = rep
            elif not new:
                # only known findings failed in this harness: the remaining assertions were still checked
                v.discharged += 1
        v.units.append(unit)
