"""C11 - circle, arc and tangent constructions satisfy their defining constraints (engine M)."""
import z3
from mirsym.driver import *
from mirsym.vals import *
from mirsym.ext import pt, vec_of, unref

MOD = 'vlib.props.c11'
R = z3.Real
B = 1000


def bounded(*xs, b=B):
    return [z3.And(x >= -b, x <= b) for x in xs]


def circle_val(x, y, r):
    return Struct('Circle2', [pt([x, y]), Struct('Ball', [r]), Opaque('aabb (cached box, checked separately)')])


def sq(a):
    return a * a


# direction classes: axis-parallel and Pythagorean directions have rational norms, so a symbolic distance k > 0 along
# them needs no square root (general position = dirn None, thorough tier)
DIRS2 = [(1, 0), (0, 1), (-1, 0), (0, -1), (3, 4), (-4, 3), (-5, -12), (12, -5)]


def second_point(px, x0, y0, dirn):
    """(x1, y1, base constraints, known-positive terms, inputs)"""
    if dirn is None:
        x1, y1 = R(px + 'x1'), R(px + 'y1')
        return x1, y1, bounded(x1, y1), [], {}
    k = R(px + 'k')
    a, b = DIRS2[dirn]
    return x0 + a * k, y0 + b * k, [k > 0, k <= B], [k], {px + 'k': k}


def d2(ax, ay, bx, by):
    return sq(ax - bx) + sq(ay - by)


def on_circle(name, p, cx, cy, r):
    """|p - c| = r posed on squares; tolerance DELTA*(r + DELTA*S)*S with S = 1 + r + 2B dominates the judges' 1e-7*S on distances"""
    S = 1 + r + 2 * B
    return eq(name, d2(p[0], p[1], cx, cy), sq(r), scale=(r + z3.RealVal('1/1000000') * S) * S)


# ------------------------------------------------------------------------------------------------ circle-circle
def u_cc(dirn=None):
    x0, y0, r0, r1 = [R(n) for n in ('x0', 'y0', 'r0', 'r1')]
    x1, y1, b2, kp, _inp = second_point('c', x0, y0, dirn)
    base = bounded(x0, y0) + b2 + [r0 > 0, r1 > 0, r0 <= B, r1 <= B]
    D2 = d2(x0, y0, x1, y1)
    mg = z3.RealVal('1/1000')
    # nearly concentric circles (0 < d < 1e-3) are a conditioning problem, outside the claim
    base.append(z3.Or(D2 == 0, D2 >= sq(mg)))

    def make(eng):
        return [Ref.to(circle_val(x0, y0, r0)), Ref.to(circle_val(x1, y1, r1))], None

    def post(eng, c, ret):
        pts = [vec_of(p) for p in ret.items]
        obs = [finite('no non-finite coordinate', pts)]
        n = len(pts)
        # count by configuration (with a margin of 1e-3 around the tangent configurations)
        sep = D2 > sq(r0 + r1 + mg)
        nested = z3.And(z3.If(r0 >= r1, r0 - r1, r1 - r0) > mg, D2 < sq(z3.If(r0 >= r1, r0 - r1, r1 - r0) - mg))
        crossing = z3.And(D2 < sq(r0 + r1 - mg), r0 + r1 > mg, D2 > sq(z3.If(r0 >= r1, r0 - r1, r1 - r0) + mg))
        obs.append(holds('separate circles give no points', z3.Implies(sep, n == 0)))
        obs.append(holds('nested circles give no points', z3.Implies(nested, n == 0)))
        obs.append(holds('crossing circles give two points', z3.Implies(crossing, n == 2)))
        if not poisoned(pts):
            for i, p in enumerate(pts):
                if n == 1:
                    # touching circles: the single point is on both circles up to the TOL = 1e-10 guard amplified by r/d (coarse, constant scale)
                    # (only claimed while the amplification (r0+r1)/d is at most 100)
                    g = sq(r0 + r1) <= 10000 * D2
                    obs.append(eq(f'point {i} on the first circle', z3.If(g, d2(p[0], p[1], x0, y0), sq(r0)), sq(r0), scale=B))
                    obs.append(eq(f'point {i} on the second circle', z3.If(g, d2(p[0], p[1], x1, y1), sq(r1)), sq(r1), scale=B))
                else:
                    obs.append(on_circle(f'point {i} on the first circle', p, x0, y0, r0))
                    obs.append(on_circle(f'point {i} on the second circle', p, x1, y1, r1))
            if n == 2:
                obs.append(holds('the two points are distinct', z3.Or(pts[0][0] != pts[1][0], pts[0][1] != pts[1][1])))
        return obs

    return Unit(f'circle_circle[dir={DIRS2[dirn] if dirn is not None else "general"}]', 'Circle2::intersections_with', make, post, base=base, known_pos=kp,
                inputs={'x0': x0, 'y0': y0, 'r0': r0, 'x1': x1, 'y1': y1, 'r1': r1},
                replay=('circle_intersections', lambda m: {'c0': [m['x0'], m['y0'], m['r0']], 'c1': [m['x1'], m['y1'], m['r1']]}),
                bounds={'coords': '|x|,|y| <= 1e3', 'radii': '(0, 1e3]', 'configuration margin': '1e-3 around tangency', 'centre distance': 'exactly 0 or >= 1e-3'},
                assumptions=['f64 as exact reals; sqrt by defining constraint s>=0, s*s=x'])


def j_cc(o, rep, out):
    """judge: does the real build show the violation?"""
    if 'panic' in out or 'timeout' in out:
        return 'panic'
    pts = out['ok']
    c0, c1 = rep['args']['c0'], rep['args']['c1']
    import math
    d = math.hypot(c0[0] - c1[0], c0[1] - c1[1])
    for p in pts:
        if any(isinstance(c, str) for c in p):
            return 'non-finite point for nested circles (d < |r0 - r1|)' if d < abs(c0[2] - c1[2]) else 'non-finite point'
    for p in pts:
        for c in (c0, c1):
            if len(pts) == 1:
                if abs((p[0] - c[0]) ** 2 + (p[1] - c[1]) ** 2 - c[2] ** 2) > 1e-3:
                    return 'touching point off a circle'
            elif abs(math.hypot(p[0] - c[0], p[1] - c[1]) - c[2]) > 1e-7 * (1 + c[2] + abs(c[0]) + abs(c[1])):
                return 'intersection point off a circle'
    if 'no points' in o['name'] and len(pts) != 0:
        return 'points returned for disjoint circles'
    if 'two points' in o['name'] and len(pts) != 2:
        return 'wrong number of points for crossing circles'
    if 'distinct' in o['name'] and len(pts) == 2 and pts[0] == pts[1]:
        return 'duplicate points'
    return False


# ------------------------------------------------------------------------------------------------ tangent points
def u_tangent(dirn=None):
    cx, cy, r = [R(n) for n in ('cx', 'cy', 'r')]
    px, py, b2, kp, _inp = second_point('p', cx, cy, dirn)
    base = bounded(cx, cy) + b2 + [r > 0, r <= B]
    D2 = d2(cx, cy, px, py)

    def make(eng):
        return [Ref.to(circle_val(cx, cy, r)), Ref.to(pt([px, py]))], None

    def post(eng, c, ret):
        obs = []
        if ret.v == 'None':
            obs.append(holds('None only when the point is not outside', D2 <= sq(r)))
            return obs
        obs.append(holds('Some only when the point is outside', D2 > sq(r)))
        t0, t1 = vec_of(ret.f[0][0]), vec_of(ret.f[0][1])
        obs.append(finite('no non-finite coordinate', [t0, t1]))
        if poisoned([t0, t1]):
            return obs
        for i, t in enumerate((t0, t1)):
            obs.append(on_circle(f'tangent point {i} on the circle', t, cx, cy, r))
            obs.append(eq(f'tangent line {i} perpendicular to the radius', (t[0] - cx) * (t[0] - px) + (t[1] - cy) * (t[1] - py), 0, scale=B * B))
        # order: first point to the left of the line from the test point towards the centre
        dx, dy = cx - px, cy - py
        obs.append(le('first point on the left', 0, dx * (t0[1] - py) - dy * (t0[0] - px), scale=B * B))
        obs.append(le('second point on the right', dx * (t1[1] - py) - dy * (t1[0] - px), 0, scale=B * B))
        return obs

    return Unit(f'tangent_points[dir={DIRS2[dirn] if dirn is not None else "general"}]', 'Circle2::tangent_points_to', make, post, base=base, known_pos=kp,
                inputs={'cx': cx, 'cy': cy, 'r': r, 'px': px, 'py': py},
                replay=('tangent_points', lambda m: {'c': [m['cx'], m['cy'], m['r']], 'p': [m['px'], m['py']]}),
                bounds={'coords': '|x|,|y| <= 1e3', 'radius': '(0, 1e3]'},
                assumptions=['trigonometry by the algebraic angle abstraction (cos/sin pairs on the unit circle, addition formulas)'])


def j_tangent(o, rep, out):
    import math
    if 'panic' in out or 'timeout' in out:
        return 'panic'
    c, p = rep['args']['c'], rep['args']['p']
    r = out['ok']
    d = math.hypot(c[0] - p[0], c[1] - p[1])
    if r is None:
        return 'None for an outside point' if d > c[2] * (1 + 1e-9) else False
    sc = 1 + abs(c[0]) + abs(c[1]) + c[2] + d
    for t in r:
        if any(isinstance(x, str) for x in t):
            return 'non-finite tangent point'
        if abs(math.hypot(t[0] - c[0], t[1] - c[1]) - c[2]) > 1e-7 * sc:
            return 'tangent point off the circle'
        dot = (t[0] - c[0]) * (t[0] - p[0]) + (t[1] - c[1]) * (t[1] - p[1])
        if abs(dot) > 1e-7 * sc * sc:
            return 'tangent line not perpendicular to the radius'
    dx, dy = c[0] - p[0], c[1] - p[1]
    if dx * (r[0][1] - p[1]) - dy * (r[0][0] - p[0]) < -1e-7 * sc * sc or dx * (r[1][1] - p[1]) - dy * (r[1][0] - p[0]) > 1e-7 * sc * sc:
        return 'tangent points in the wrong left/right order'
    return False


# ------------------------------------------------------------------------------------------------ outer tangents
def u_outer(dirn=None):
    x0, y0, r0, r1 = [R(n) for n in ('x0', 'y0', 'r0', 'r1')]
    x1, y1, b2, kp, _inp = second_point('c', x0, y0, dirn)
    base = bounded(x0, y0) + b2 + [r0 > 0, r1 > 0, r0 <= B, r1 <= B]
    D2 = d2(x0, y0, x1, y1)
    dr = z3.If(r0 >= r1, r0 - r1, r1 - r0)
    mg = z3.RealVal('1/1000')
    base.append(z3.Or(D2 == 0, D2 >= sq(mg)))

    def make(eng):
        return [Ref.to(circle_val(x0, y0, r0)), Ref.to(circle_val(x1, y1, r1))], None

    def panics(p, eng):
        return 'violation'

    def post(eng, c, ret):
        obs = []
        if ret.v == 'None':
            # documented: None for concentric circles; geometrically also when one circle is strictly inside the other
            obs.append(holds('None only when no outer tangent exists', D2 <= sq(dr + mg)))
            return obs
        segs = ret.f[0]
        ends = [[vec_of(s[0]), vec_of(s[1])] for s in segs]
        obs.append(finite('no non-finite coordinate', ends))
        if poisoned(ends):
            return obs
        for i, (a, b) in enumerate(ends):
            obs.append(on_circle(f'segment {i} starts on this circle', a, x0, y0, r0))
            obs.append(on_circle(f'segment {i} ends on the other circle', b, x1, y1, r1))
            obs.append(eq(f'segment {i} perpendicular to this radius', (a[0] - x0) * (b[0] - a[0]) + (a[1] - y0) * (b[1] - a[1]), 0, scale=B * B))
            obs.append(eq(f'segment {i} perpendicular to the other radius', (b[0] - x1) * (b[0] - a[0]) + (b[1] - y1) * (b[1] - a[1]), 0, scale=B * B))
        dx, dy = x1 - x0, y1 - y0
        a0, a1 = ends[0][0], ends[1][0]
        # first segment on the left (negative normal direction) of the centre line, second on the right
        obs.append(le('first segment on the left of the centre line', 0, dx * (a0[1] - y0) - dy * (a0[0] - x0), scale=B * B))
        obs.append(le('second segment on the right of the centre line', dx * (a1[1] - y0) - dy * (a1[0] - x0), 0, scale=B * B))
        return obs

    return Unit(f'outer_tangents[dir={DIRS2[dirn] if dirn is not None else "general"}]', 'Circle2::outer_tangents_to', make, post, base=base, known_pos=kp,
                inputs={'x0': x0, 'y0': y0, 'r0': r0, 'x1': x1, 'y1': y1, 'r1': r1},
                replay=('outer_tangents', lambda m: {'c0': [m['x0'], m['y0'], m['r0']], 'c1': [m['x1'], m['y1'], m['r1']]}),
                bounds={'coords': '|x|,|y| <= 1e3', 'radii': '(0, 1e3]', 'centre distance': 'exactly 0 or >= 1e-3'}, timeout_ms=10000)


def j_outer(o, rep, out):
    import math
    c0, c1 = rep['args']['c0'], rep['args']['c1']
    d = math.hypot(c0[0] - c1[0], c0[1] - c1[1])
    nested = d < abs(c0[2] - c1[2])
    if 'panic' in out or 'timeout' in out:
        return 'panic for nested non-concentric circles' if nested else 'panic'
    r = out['ok']
    if r is None:
        return False if d <= abs(c0[2] - c1[2]) + 2e-3 else 'None although outer tangents exist'
    sc = 1 + abs(c0[0]) + abs(c0[1]) + abs(c1[0]) + abs(c1[1]) + c0[2] + c1[2]
    for (a, b) in r:
        if any(isinstance(x, str) for x in a + b):
            return 'non-finite segment end' + (' (nested circles)' if nested else '')
        if abs(math.hypot(a[0] - c0[0], a[1] - c0[1]) - c0[2]) > 1e-7 * sc or abs(math.hypot(b[0] - c1[0], b[1] - c1[1]) - c1[2]) > 1e-7 * sc:
            return 'segment end off its circle'
        if abs((a[0] - c0[0]) * (b[0] - a[0]) + (a[1] - c0[1]) * (b[1] - a[1])) > 1e-6 * sc * sc or abs((b[0] - c1[0]) * (b[0] - a[0]) + (b[1] - c1[1]) * (b[1] - a[1])) > 1e-6 * sc * sc:
            return 'segment not tangent'
    dx, dy = c1[0] - c0[0], c1[1] - c0[1]
    a0, a1 = r[0][0], r[1][0]
    if dx * (a0[1] - c0[1]) - dy * (a0[0] - c0[0]) < -1e-6 * sc * sc or dx * (a1[1] - c0[1]) - dy * (a1[0] - c0[0]) > 1e-6 * sc * sc:
        if abs(c0[2] - c1[2]) < 1e-10:
            return 'equal radii: segments returned right-then-left (documented left-then-right)'
        return 'segments in the wrong left/right order'
    return False


JUDGES = {'circle_circle': j_cc, 'tangent_points': j_tangent, 'outer_tangents': j_outer}

_DQ = [0, 1, 2, 3, 4, 6]
_DT = list(range(len(DIRS2))) + [None]
UNITS = {
    'quick': [(f, {'dirn': d}) for f in ('u_cc', 'u_tangent') for d in _DQ] + [('u_outer', {'dirn': d}) for d in (0, 1, 2, 3)] + [('u_tangent', {'dirn': None}), ('u_cc', {'dirn': None})],
    'thorough': [(f, {'dirn': d}) for f in ('u_cc', 'u_tangent', 'u_outer') for d in _DT],
}


def run(v, tier, seed, only=None):
    jobs = [(MOD, f, k) for (f, k) in UNITS[tier] if not only or only in f]
    res = run_jobs(jobs, seed=seed, procs=14, timeout_s=600 if tier == 'quick' else 2400)
    fold_results(v, res, JUDGES, 'C11')
