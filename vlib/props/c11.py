"""C11 - circle, arc and tangent constructions satisfy their defining constraints (engine M)."""
import z3
from mirsym.driver import *
from mirsym.vals import *
from mirsym.ext import pt, vec_of, unref

from .geomlib import rat, unit2

MOD = 'vlib.props.c11'
R = z3.Real
B = 1000


def bounded(*xs, b=B):
    return [z3.And(x >= -b, x <= b) for x in xs]


def circle_val(x, y, r):
    return Struct('Circle2', [pt([x, y]), Struct('Ball', [r]), Opaque('aabb (cached box, checked separately)')])


def sq(a):
    return a * a


# direction classes: axis-parallel and Pythagorean directions have rational norms, so a symbolic distance k > 0 along
# them needs no square root (general position = dirn None, thorough tier)
DIRS2 = [(1, 0), (0, 1), (-1, 0), (0, -1), (3, 4), (-4, 3), (-5, -12), (12, -5)]


def second_point(px, x0, y0, dirn):
    """(x1, y1, base constraints, known-positive terms, inputs)"""
    if dirn is None:
        x1, y1 = R(px + 'x1'), R(px + 'y1')
        return x1, y1, bounded(x1, y1), [], {}
    k = R(px + 'k')
    a, b = DIRS2[dirn]
    return x0 + a * k, y0 + b * k, [k > 0, k <= B], [k], {px + 'k': k}


def d2(ax, ay, bx, by):
    return sq(ax - bx) + sq(ay - by)


def on_circle(name, p, cx, cy, r):
    """|p - c| = r posed on squares; tolerance DELTA*(r + DELTA*S)*S with S = 1 + r + 2B dominates the judges' 1e-7*S on distances"""
    S = 1 + r + 2 * B
    return eq(name, d2(p[0], p[1], cx, cy), sq(r), scale=(r + z3.RealVal('1/1000000') * S) * S)


# ------------------------------------------------------------------------------------------------ circle-circle
def u_cc(dirn=None):
    x0, y0, r0, r1 = [R(n) for n in ('x0', 'y0', 'r0', 'r1')]
    x1, y1, b2, kp, _inp = second_point('c', x0, y0, dirn)
    base = bounded(x0, y0) + b2 + [r0 > 0, r1 > 0, r0 <= B, r1 <= B]
    D2 = d2(x0, y0, x1, y1)
    mg = z3.RealVal('1/1000')
    # nearly concentric circles (0 < d < 1e-3) are a conditioning problem, outside the claim
    base.append(z3.Or(D2 == 0, D2 >= sq(mg)))

    def make(eng):
        return [Ref.to(circle_val(x0, y0, r0)), Ref.to(circle_val(x1, y1, r1))], None

    def post(eng, c, ret):
        pts = [vec_of(p) for p in ret.items]
        obs = [finite('no non-finite coordinate', pts)]
        n = len(pts)
        # count by configuration (with a margin of 1e-3 around the tangent configurations)
        sep = D2 > sq(r0 + r1 + mg)
        nested = z3.And(z3.If(r0 >= r1, r0 - r1, r1 - r0) > mg, D2 < sq(z3.If(r0 >= r1, r0 - r1, r1 - r0) - mg))
        crossing = z3.And(D2 < sq(r0 + r1 - mg), r0 + r1 > mg, D2 > sq(z3.If(r0 >= r1, r0 - r1, r1 - r0) + mg))
        obs.append(holds('separate circles give no points', z3.Implies(sep, n == 0)))
        obs.append(holds('nested circles give no points', z3.Implies(nested, n == 0)))
        obs.append(holds('crossing circles give two points', z3.Implies(crossing, n == 2)))
        if not poisoned(pts):
            for i, p in enumerate(pts):
                if n == 1:
                    # touching circles: the single point is on both circles up to the TOL = 1e-10 guard amplified by r/d (coarse, constant scale)
                    # (only claimed while the amplification (r0+r1)/d is at most 100)
                    g = sq(r0 + r1) <= 10000 * D2
                    obs.append(eq(f'point {i} on the first circle', z3.If(g, d2(p[0], p[1], x0, y0), sq(r0)), sq(r0), scale=B))
                    obs.append(eq(f'point {i} on the second circle', z3.If(g, d2(p[0], p[1], x1, y1), sq(r1)), sq(r1), scale=B))
                else:
                    obs.append(on_circle(f'point {i} on the first circle', p, x0, y0, r0))
                    obs.append(on_circle(f'point {i} on the second circle', p, x1, y1, r1))
            if n == 2:
                obs.append(holds('the two points are distinct', z3.Or(pts[0][0] != pts[1][0], pts[0][1] != pts[1][1])))
        return obs

    return Unit(f'circle_circle[dir={DIRS2[dirn] if dirn is not None else "general"}]', 'Circle2::intersections_with', make, post, base=base, known_pos=kp,
                inputs={'x0': x0, 'y0': y0, 'r0': r0, 'x1': x1, 'y1': y1, 'r1': r1},
                replay=('circle_intersections', lambda m: {'c0': [m['x0'], m['y0'], m['r0']], 'c1': [m['x1'], m['y1'], m['r1']]}),
                bounds={'coords': '|x|,|y| <= 1e3', 'radii': '(0, 1e3]', 'configuration margin': '1e-3 around tangency', 'centre distance': 'exactly 0 or >= 1e-3'},
                assumptions=['f64 as exact reals; sqrt by defining constraint s>=0, s*s=x'])


def j_cc(o, rep, out):
    """judge: does the real build show the violation?"""
    if 'panic' in out or 'timeout' in out:
        return 'panic'
    pts = out['ok']
    c0, c1 = rep['args']['c0'], rep['args']['c1']
    import math
    d = math.hypot(c0[0] - c1[0], c0[1] - c1[1])
    for p in pts:
        if any(isinstance(c, str) for c in p):
            return 'non-finite point for nested circles (d < |r0 - r1|)' if d < abs(c0[2] - c1[2]) else 'non-finite point'
    for p in pts:
        for c in (c0, c1):
            if len(pts) == 1:
                if abs((p[0] - c[0]) ** 2 + (p[1] - c[1]) ** 2 - c[2] ** 2) > 1e-3:
                    return 'touching point off a circle'
            elif abs(math.hypot(p[0] - c[0], p[1] - c[1]) - c[2]) > 1e-7 * (1 + c[2] + abs(c[0]) + abs(c[1])):
                return 'intersection point off a circle'
    if 'no points' in o['name'] and len(pts) != 0:
        return 'points returned for disjoint circles'
    if 'two points' in o['name'] and len(pts) != 2:
        return 'wrong number of points for crossing circles'
    if 'distinct' in o['name'] and len(pts) == 2 and pts[0] == pts[1]:
        return 'duplicate points'
    return False


# ------------------------------------------------------------------------------------------------ tangent points
def u_tangent(dirn=None):
    cx, cy, r = [R(n) for n in ('cx', 'cy', 'r')]
    px, py, b2, kp, _inp = second_point('p', cx, cy, dirn)
    base = bounded(cx, cy) + b2 + [r > 0, r <= B]
    D2 = d2(cx, cy, px, py)

    def make(eng):
        return [Ref.to(circle_val(cx, cy, r)), Ref.to(pt([px, py]))], None

    def post(eng, c, ret):
        obs = []
        if ret.v == 'None':
            obs.append(holds('None only when the point is not outside', D2 <= sq(r)))
            return obs
        obs.append(holds('Some only when the point is outside', D2 > sq(r)))
        t0, t1 = vec_of(ret.f[0][0]), vec_of(ret.f[0][1])
        obs.append(finite('no non-finite coordinate', [t0, t1]))
        if poisoned([t0, t1]):
            return obs
        for i, t in enumerate((t0, t1)):
            obs.append(on_circle(f'tangent point {i} on the circle', t, cx, cy, r))
            obs.append(eq(f'tangent line {i} perpendicular to the radius', (t[0] - cx) * (t[0] - px) + (t[1] - cy) * (t[1] - py), 0, scale=B * B))
        # order: first point to the left of the line from the test point towards the centre
        dx, dy = cx - px, cy - py
        obs.append(le('first point on the left', 0, dx * (t0[1] - py) - dy * (t0[0] - px), scale=B * B))
        obs.append(le('second point on the right', dx * (t1[1] - py) - dy * (t1[0] - px), 0, scale=B * B))
        return obs

    return Unit(f'tangent_points[dir={DIRS2[dirn] if dirn is not None else "general"}]', 'Circle2::tangent_points_to', make, post, base=base, known_pos=kp,
                inputs={'cx': cx, 'cy': cy, 'r': r, 'px': px, 'py': py},
                replay=('tangent_points', lambda m: {'c': [m['cx'], m['cy'], m['r']], 'p': [m['px'], m['py']]}),
                bounds={'coords': '|x|,|y| <= 1e3', 'radius': '(0, 1e3]'},
                assumptions=['trigonometry by the algebraic angle abstraction (cos/sin pairs on the unit circle, addition formulas)'])


def j_tangent(o, rep, out):
    import math
    if 'panic' in out or 'timeout' in out:
        return 'panic'
    c, p = rep['args']['c'], rep['args']['p']
    r = out['ok']
    d = math.hypot(c[0] - p[0], c[1] - p[1])
    if r is None:
        return 'None for an outside point' if d > c[2] * (1 + 1e-9) else False
    sc = 1 + abs(c[0]) + abs(c[1]) + c[2] + d
    for t in r:
        if any(isinstance(x, str) for x in t):
            return 'non-finite tangent point'
        if abs(math.hypot(t[0] - c[0], t[1] - c[1]) - c[2]) > 1e-7 * sc:
            return 'tangent point off the circle'
        dot = (t[0] - c[0]) * (t[0] - p[0]) + (t[1] - c[1]) * (t[1] - p[1])
        if abs(dot) > 1e-7 * sc * sc:
            return 'tangent line not perpendicular to the radius'
    dx, dy = c[0] - p[0], c[1] - p[1]
    if dx * (r[0][1] - p[1]) - dy * (r[0][0] - p[0]) < -1e-7 * sc * sc or dx * (r[1][1] - p[1]) - dy * (r[1][0] - p[0]) > 1e-7 * sc * sc:
        return 'tangent points in the wrong left/right order'
    return False


# ------------------------------------------------------------------------------------------------ outer tangents
def u_outer(dirn=None):
    x0, y0, r0, r1 = [R(n) for n in ('x0', 'y0', 'r0', 'r1')]
    x1, y1, b2, kp, _inp = second_point('c', x0, y0, dirn)
    base = bounded(x0, y0) + b2 + [r0 > 0, r1 > 0, r0 <= B, r1 <= B]
    D2 = d2(x0, y0, x1, y1)
    dr = z3.If(r0 >= r1, r0 - r1, r1 - r0)
    mg = z3.RealVal('1/1000')
    base.append(z3.Or(D2 == 0, D2 >= sq(mg)))

    def make(eng):
        return [Ref.to(circle_val(x0, y0, r0)), Ref.to(circle_val(x1, y1, r1))], None

    def panics(p, eng):
        return 'violation'

    def post(eng, c, ret):
        obs = []
        if ret.v == 'None':
            # documented: None for concentric circles; geometrically also when one circle is strictly inside the other
            obs.append(holds('None only when no outer tangent exists', D2 <= sq(dr + mg)))
            return obs
        segs = ret.f[0]
        ends = [[vec_of(s[0]), vec_of(s[1])] for s in segs]
        obs.append(finite('no non-finite coordinate', ends))
        if poisoned(ends):
            return obs
        for i, (a, b) in enumerate(ends):
            obs.append(on_circle(f'segment {i} starts on this circle', a, x0, y0, r0))
            obs.append(on_circle(f'segment {i} ends on the other circle', b, x1, y1, r1))
            obs.append(eq(f'segment {i} perpendicular to this radius', (a[0] - x0) * (b[0] - a[0]) + (a[1] - y0) * (b[1] - a[1]), 0, scale=B * B))
            obs.append(eq(f'segment {i} perpendicular to the other radius', (b[0] - x1) * (b[0] - a[0]) + (b[1] - y1) * (b[1] - a[1]), 0, scale=B * B))
        dx, dy = x1 - x0, y1 - y0
        a0, a1 = ends[0][0], ends[1][0]
        # first segment on the left (negative normal direction) of the centre line, second on the right
        obs.append(le('first segment on the left of the centre line', 0, dx * (a0[1] - y0) - dy * (a0[0] - x0), scale=B * B))
        obs.append(le('second segment on the right of the centre line', dx * (a1[1] - y0) - dy * (a1[0] - x0), 0, scale=B * B))
        return obs

    return Unit(f'outer_tangents[dir={DIRS2[dirn] if dirn is not None else "general"}]', 'Circle2::outer_tangents_to', make, post, base=base, known_pos=kp,
                inputs={'x0': x0, 'y0': y0, 'r0': r0, 'x1': x1, 'y1': y1, 'r1': r1},
                replay=('outer_tangents', lambda m: {'c0': [m['x0'], m['y0'], m['r0']], 'c1': [m['x1'], m['y1'], m['r1']]}),
                bounds={'coords': '|x|,|y| <= 1e3', 'radii': '(0, 1e3]', 'centre distance': 'exactly 0 or >= 1e-3'}, timeout_ms=10000)


def j_outer(o, rep, out):
    import math
    c0, c1 = rep['args']['c0'], rep['args']['c1']
    d = math.hypot(c0[0] - c1[0], c0[1] - c1[1])
    nested = d < abs(c0[2] - c1[2])
    if 'panic' in out or 'timeout' in out:
        return 'panic for nested non-concentric circles' if nested else 'panic'
    r = out['ok']
    if r is None:
        return False if d <= abs(c0[2] - c1[2]) + 2e-3 else 'None although outer tangents exist'
    sc = 1 + abs(c0[0]) + abs(c0[1]) + abs(c1[0]) + abs(c1[1]) + c0[2] + c1[2]
    for (a, b) in r:
        if any(isinstance(x, str) for x in a + b):
            return 'non-finite segment end' + (' (nested circles)' if nested else '')
        if abs(math.hypot(a[0] - c0[0], a[1] - c0[1]) - c0[2]) > 1e-7 * sc or abs(math.hypot(b[0] - c1[0], b[1] - c1[1]) - c1[2]) > 1e-7 * sc:
            return 'segment end off its circle'
        if abs((a[0] - c0[0]) * (b[0] - a[0]) + (a[1] - c0[1]) * (b[1] - a[1])) > 1e-6 * sc * sc or abs((b[0] - c1[0]) * (b[0] - a[0]) + (b[1] - c1[1]) * (b[1] - a[1])) > 1e-6 * sc * sc:
            return 'segment not tangent'
    dx, dy = c1[0] - c0[0], c1[1] - c0[1]
    a0, a1 = r[0][0], r[1][0]
    if dx * (a0[1] - c0[1]) - dy * (a0[0] - c0[0]) < -1e-6 * sc * sc or dx * (a1[1] - c0[1]) - dy * (a1[0] - c0[0]) > 1e-6 * sc * sc:
        if abs(c0[2] - c1[2]) < 1e-10:
            return 'equal radii: segments returned right-then-left (documented left-then-right)'
        return 'segments in the wrong left/right order'
    return False


# ------------------------------------------------------------------------------------------------ line / segment vs circle
def u_line_circle(dirn=0, kind='ray'):
    cx, cy, r, ox, oy, k = [R(n) for n in ('cx', 'cy', 'r', 'ox', 'oy', 'k')]
    a, b = DIRS2[dirn]
    nrm = {0: 1, 1: 1, 2: 1, 3: 1, 4: 5, 5: 5, 6: 13, 7: 13}[dirn]
    dx, dy = a * k, b * k                      # direction vector of length nrm*k (non-unit in general)
    base = bounded(cx, cy, ox, oy) + [r > 0, r <= B, k > rat('1/1000'), k <= B]
    mg = z3.RealVal('1/1000')
    # signed distance from the centre to the line, times |d|: cross(d, c - o)
    crs = dx * (cy - oy) - dy * (cx - ox)
    dn = nrm * k

    def make(eng):
        circ = circle_val(cx, cy, r)
        if kind == 'ray':
            ln = DynV('Ray2', Struct('Ray', [pt([ox, oy]), [dx, dy]]))
        else:
            ln = DynV('Segment2', Struct('Segment2', [pt([ox, oy]), pt([ox + dx, oy + dy])]))
        return [Ref.to(ln), Ref.to(circ)], None

    def post(eng, c, ret):
        ts = [num(t) for t in ret.items]
        obs = [finite('no non-finite parameter', ts)]
        if poisoned(ts):
            return obs
        far = z3.Or(crs > (r + mg) * dn, crs < -(r + mg) * dn)
        cut = z3.And(crs < (r - mg) * dn, crs > -(r - mg) * dn, r > mg)
        obs.append(holds('no intersection when the line passes outside the circle', z3.Implies(far, len(ts) == 0)))
        obs.append(holds('two intersections when the line cuts the circle', z3.Implies(cut, len(ts) == 2)))
        for j, t in enumerate(ts):
            obs.append(on_circle(f'intersection {j} lies on the circle', [ox + t * dx, oy + t * dy], cx, cy, r) if len(ts) == 2 else
                       eq(f'tangent intersection {j} lies on the circle', d2(ox + t * dx, oy + t * dy, cx, cy), sq(r), scale=B))
        if len(ts) == 2:
            obs.append(holds('parameters ascending', ts[0] <= ts[1]))
        return obs

    return Unit(f'line_circle[{kind},dir={DIRS2[dirn]}]', 'circle2::intersection_line_circle', make, post, base=base, known_pos=[k],
                inputs={'cx': cx, 'cy': cy, 'r': r, 'ox': ox, 'oy': oy, 'dx': dx, 'dy': dy},
                replay=('line_circle', lambda m: {'kind': kind, 'c': [m['cx'], m['cy'], m['r']], 'o': [m['ox'], m['oy']], 'd': [m['dx'], m['dy']], 'b': [m['ox'] + m['dx'], m['oy'] + m['dy']]}),
                bounds={'line direction': 'concrete class, symbolic non-unit length', 'margin around tangency': '1e-3'}, timeout_ms=10000)


def j_line_circle(o, rep, out):
    import math
    if 'ok' not in out:
        return 'panic'
    a, ts = rep['args'], out['ok']['ts']
    c = a['c']
    d = a['d']
    dn = math.hypot(*d)
    dist = abs(d[0] * (c[1] - a['o'][1]) - d[1] * (c[0] - a['o'][0])) / dn
    if any(isinstance(t, str) for t in ts):
        return 'non-finite parameter'
    if dist > c[2] + 1e-3 and len(ts) != 0:
        return 'intersections reported for a line outside the circle'
    if dist < c[2] - 1e-3 and c[2] > 1e-3 and len(ts) != 2:
        return 'a line cutting the circle does not give two intersections (distance to the line not scaled by |dir|)'
    for t in ts:
        p = [a['o'][0] + t * d[0], a['o'][1] + t * d[1]]
        if abs(math.hypot(p[0] - c[0], p[1] - c[1]) - c[2]) > (1e-3 if len(ts) == 1 else 1e-7 * (1 + c[2] + abs(c[0]) + abs(c[1]))):
            return 'line-circle intersection point off the circle'
    return False


# ------------------------------------------------------------------------------------------------ three-point arcs
def u_arc3(d0=0, d1=1, d2_=2):
    cx, cy, r = R('cx'), R('cy'), R('r')
    base = bounded(cx, cy, b=100) + [r > rat('1/100'), r <= 100]
    u = [unit2(d) for d in (d0, d1, d2_)]
    P = [[cx + ud[0] * r, cy + ud[1] * r] for ud in u]
    orient = (P[1][0] - P[0][0]) * (P[2][1] - P[0][1]) - (P[1][1] - P[0][1]) * (P[2][0] - P[0][0])

    def make(eng):
        return [pt(list(P[0])), pt(list(P[1])), pt(list(P[2]))], None

    def post(eng, c, ret):
        circ, a0, ang = ret[0], ret[1], ret[2]
        ccx, ccy = vec_of(circ[0])
        rr = num(circ[1][0])
        obs = [finite('finite arc', [ccx, ccy, rr])]
        if poisoned([ccx, ccy, rr, a0, ang]):
            obs.append(finite('finite angles', [a0, ang]))
            return obs
        obs.append(eq('centre x recovered', ccx, cx, scale=100))
        obs.append(eq('centre y recovered', ccy, cy, scale=100))
        obs.append(eq('radius recovered', rr, r, scale=100))
        A0, AN = to_angle(a0), to_angle(ang)
        obs.append(holds('sweep is counter-clockwise exactly when the three points are', (AN.shadow > 0) == (orient > 0)))
        obs.append(holds('sweep magnitude within a full turn', z3.And(AN.shadow >= -2 * PI_Z, AN.shadow <= 2 * PI_Z)))
        c0, s0 = A0.cos_sin()
        obs.append(eq('arc starts at the first point (x)', ccx + rr * c0, P[0][0], scale=100))
        obs.append(eq('arc starts at the first point (y)', ccy + rr * s0, P[0][1], scale=100))
        c2, s2 = A0.add(AN, 1).cos_sin()
        obs.append(eq('arc ends at the third point (x)', ccx + rr * c2, P[2][0], scale=100))
        obs.append(eq('arc ends at the third point (y)', ccy + rr * s2, P[2][1], scale=100))
        return obs

    return Unit(f'arc_three_points[{DIRS2[d0]},{DIRS2[d1]},{DIRS2[d2_]}]', 'Arc2::three_points', make, post, base=base, known_pos=[r],
                inputs={**{f'p{i}{c}': P[i][k] for i in range(3) for k, c in enumerate('xy')}},
                replay=('arc3', lambda m: {f'p{i}': [m[f'p{i}x'], m[f'p{i}y']] for i in range(3)}),
                observers={'arc_aabb2': lambda eng, callee, args: Opaque('aabb (checked by the arc_aabb units)')},
                bounds={'points': 'on a symbolic circle (centre in [-100,100]^2, r in (0.01,100]) at three concrete distinct directions'}, timeout_ms=15000)


def j_arc3(o, rep, out):
    import math
    if 'ok' not in out:
        return 'panic'
    a, r = rep['args'], out['ok']
    P = [a['p0'], a['p1'], a['p2']]
    orient = (P[1][0] - P[0][0]) * (P[2][1] - P[0][1]) - (P[1][1] - P[0][1]) * (P[2][0] - P[0][0])
    sc = 1 + max(abs(x) for p in P for x in p)
    if math.dist(r['start'], P[0]) > 1e-6 * sc or math.dist(r['end'], P[2]) > 1e-6 * sc:
        return 'arc does not start at the first / end at the third point'
    if (r['angle'] > 0) != (orient > 0):
        return 'sweep sign does not follow the orientation of the three points (the arc misses the second point)'
    return False


# ------------------------------------------------------------------------------------------------ arc bounding boxes, arc length
def u_arc_aabb(sign=1):
    cx, cy, r, e = R('cx'), R('cy'), R('r'), R('e')
    base = bounded(cx, cy) + [r > 0, r <= B, e * sign >= rat('1/1000'), e * sign <= 2 * PI_Z - rat('1/1000')]
    st = {}
    s_sh = R('a0')
    base += [s_sh >= -2 * PI_Z, s_sh <= 2 * PI_Z]
    slack = rat('1/100000')

    def make(eng):
        a0 = Angle.free('a0', -2 * PI_F, 2 * PI_F)
        st['a0'] = a0
        return [Ref.to(circle_val(cx, cy, r)), a0, e], None

    def post(eng, c, ret):
        mins, maxs = vec_of(ret[0]), vec_of(ret[1])
        obs = [finite('finite box', [mins, maxs])]
        if poisoned([mins, maxs]):
            return obs
        a0 = st['a0']
        c0, s0 = a0.cos_sin()
        c1, s1 = a0.add(to_angle(e), 1).cos_sin()
        ends = [[cx + r * c0, cy + r * s0], [cx + r * c1, cy + r * s1]]
        begin = s_sh if sign > 0 else s_sh + e
        ext = e if sign > 0 else -e
        for k, (nm, val_in, val_out_fn, got) in enumerate((
                ('right', cx + r, lambda: z3.If(ends[0][0] >= ends[1][0], ends[0][0], ends[1][0]), maxs[0]),
                ('top', cy + r, lambda: z3.If(ends[0][1] >= ends[1][1], ends[0][1], ends[1][1]), maxs[1]),
                ('left', cx - r, lambda: z3.If(ends[0][0] <= ends[1][0], ends[0][0], ends[1][0]), mins[0]),
                ('bottom', cy - r, lambda: z3.If(ends[0][1] <= ends[1][1], ends[0][1], ends[1][1]), mins[1]))):
            # axis direction k*pi/2 lies strictly inside / strictly outside the sweep (some whole-turn shift m in -2..2)
            tg = k * PI_Z / 2
            ins = z3.Or([z3.And(begin + slack <= tg + 2 * PI_Z * m, tg + 2 * PI_Z * m <= begin + ext - slack) for m in range(-3, 4)])
            outs = z3.And([z3.Or(tg + 2 * PI_Z * m <= begin - slack, tg + 2 * PI_Z * m >= begin + ext + slack) for m in range(-3, 4)])
            obs.append(eq(f'box touches the circle on the {nm} when that direction is swept', z3.If(ins, got, val_in), val_in, scale=B))
            # (that an unswept side equals the farther end point cannot be decided: the abstraction does not order cos/sin by the radian value)
            obs.append(le(f'box {nm} side reaches the farther end point', val_out_fn(), got, scale=B) if k < 2 else le(f'box {nm} side reaches the farther end point', got, val_out_fn(), scale=B))
            obs.append(le(f'box {nm} side stays within the circle box', got, val_in, scale=B) if k < 2 else le(f'box {nm} side stays within the circle box', val_in, got, scale=B))
        return obs

    return Unit(f'arc_aabb[{"ccw" if sign > 0 else "cw"}]', 'aabb2::arc_aabb2', make, post, base=base, inputs={'cx': cx, 'cy': cy, 'r': r, 'a0': s_sh, 'e': e},
                replay=('arc_aabb', lambda m: {'c': [m['cx'], m['cy'], m['r']], 'angle0': m['a0'], 'angle': m['e']}),
                bounds={'start angle': '[-2pi, 2pi]', 'sweep': '(0, 2pi) ' + ('ccw' if sign > 0 else 'cw'), 'slack on sweep membership': '1e-5 rad'},
                assumptions=['parry Aabb::from_points is the componentwise min/max of the points'], timeout_ms=15000)


def j_arc_aabb(o, rep, out):
    import math
    if 'ok' not in out:
        return 'panic'
    a, r = rep['args'], out['ok']
    c = a['c']
    bbx = r['aabb']
    # dense sampling of the real arc is only used to confirm a solver model on the real build
    n = 720
    xs, ys = [], []
    for i in range(n + 1):
        t = a['angle0'] + a['angle'] * i / n
        xs.append(c[0] + c[2] * math.cos(t))
        ys.append(c[1] + c[2] * math.sin(t))
    tol = 1e-4 * (1 + c[2])
    if bbx['mins'][0] > min(xs) + 1e-9 * (1 + abs(min(xs))) or bbx['mins'][1] > min(ys) + 1e-9 * (1 + abs(min(ys))) or bbx['maxs'][0] < max(xs) - 1e-9 * (1 + abs(max(xs))) or bbx['maxs'][1] < max(ys) - 1e-9 * (1 + abs(max(ys))):
        return 'arc bounding box does not contain the arc'
    if abs(bbx['mins'][0] - min(xs)) > tol or abs(bbx['mins'][1] - min(ys)) > tol or abs(bbx['maxs'][0] - max(xs)) > tol or abs(bbx['maxs'][1] - max(ys)) > tol:
        return 'arc bounding box does not touch the arc on all four sides'
    return False


def u_arc_length():
    cx, cy, r, e, f = R('cx'), R('cy'), R('r'), R('e'), R('f')
    base = bounded(cx, cy) + [r > 0, r <= B, e >= -2 * PI_Z, e <= 2 * PI_Z, z3.Or(e > rat('1/1000'), e < -rat('1/1000')), f >= 0, f <= 1]
    st = {}

    def entry(eng, args):
        arc, fr = args
        ar = Ref.to(arc)
        L = eng.call('Arc2::length', [ar])
        pl = eng.call('Arc2::point_at_length', [ar, f_mul(L, fr)])
        pf = eng.call('Arc2::point_at_fraction', [ar, fr])
        return [L, pl, pf]

    def make(eng):
        a0 = Angle.free('a0')
        arc = Struct('Arc2', [circle_val(cx, cy, r), a0, e, Opaque('aabb')])
        return [arc, f], None

    def post(eng, c, ret):
        L, pl, pf = ret
        pl, pf = vec_of(pl), vec_of(pf)
        obs = [eq('arc length is r * |sweep|', num(L), r * z3.If(e >= 0, e, -e), scale=B), finite('finite points', [pl, pf])]
        if not poisoned([pl, pf]):
            obs.append(eq('point at length s equals point at fraction s/length (x)', pl[0], pf[0], scale=B))
            obs.append(eq('point at length s equals point at fraction s/length (y)', pl[1], pf[1], scale=B))
        return obs

    return Unit('arc_length_and_points', entry, make, post, base=base, inputs={'cx': cx, 'cy': cy, 'r': r, 'e': e, 'f': f}, replay=None,
                bounds={'sweep': '[-2pi, 2pi] away from 0'}, timeout_ms=15000)


def u_circle_aabb():
    cx, cy, r = R('cx'), R('cy'), R('r')

    def make(eng):
        return [Ref.to(pt([cx, cy])), r], None

    def post(eng, c, ret):
        mins, maxs = vec_of(ret[0]), vec_of(ret[1])
        return [holds('circle box is centre -/+ radius', z3.And(mins[0] == cx - r, mins[1] == cy - r, maxs[0] == cx + r, maxs[1] == cy + r))]

    return Unit('circle_aabb', 'aabb2::circle_aabb2', make, post, base=bounded(cx, cy) + [r > 0, r <= B], inputs={'cx': cx, 'cy': cy, 'r': r},
                replay=('arc_aabb', lambda m: {'c': [m['cx'], m['cy'], m['r']], 'angle0': 0.0, 'angle': 1.0}))


def j_circle_aabb(o, rep, out):
    if 'ok' not in out:
        return 'panic'
    c, b = rep['args']['c'], out['ok']['circle_aabb']
    if abs(b['mins'][0] - (c[0] - c[2])) > 1e-9 or abs(b['maxs'][1] - (c[1] + c[2])) > 1e-9 or abs(b['mins'][1] - (c[1] - c[2])) > 1e-9 or abs(b['maxs'][0] - (c[0] + c[2])) > 1e-9:
        return 'circle bounding box is not centre -/+ radius'
    return False


JUDGES = {'circle_circle': j_cc, 'tangent_points': j_tangent, 'outer_tangents': j_outer, 'line_circle': j_line_circle, 'arc_three_points': j_arc3,
          'arc_aabb': j_arc_aabb, 'circle_aabb': j_circle_aabb}

_DQ = [0, 1, 2, 3, 4, 6]
_DT = list(range(len(DIRS2))) + [None]
UNITS = {
    'quick': [(f, {'dirn': d}) for f in ('u_cc', 'u_tangent') for d in _DQ] + [('u_outer', {'dirn': d}) for d in (0, 1, 2, 3)] + [('u_tangent', {'dirn': None}), ('u_cc', {'dirn': None})] +
             [('u_line_circle', {'dirn': d, 'kind': k}) for d in (0, 1, 4, 6) for k in ('ray', 'segment')] +
             [('u_arc3', {'d0': a, 'd1': b, 'd2_': c}) for a, b, c in ((0, 1, 2), (0, 3, 2), (4, 5, 6), (1, 4, 0), (6, 0, 5), (2, 7, 1))] +
             [('u_arc_aabb', {'sign': 1}), ('u_arc_aabb', {'sign': -1}), ('u_arc_length', {}), ('u_circle_aabb', {})],
    'thorough': [(f, {'dirn': d}) for f in ('u_cc', 'u_tangent', 'u_outer') for d in _DT] +
                [('u_line_circle', {'dirn': d, 'kind': k}) for d in range(8) for k in ('ray', 'segment')] +
                [('u_arc3', {'d0': a, 'd1': b, 'd2_': c}) for a in range(8) for b in range(8) for c in range(8) if len({a, b, c}) == 3 and (a + 2 * b + 3 * c) % 5 == 0] +
                [('u_arc_aabb', {'sign': 1}), ('u_arc_aabb', {'sign': -1}), ('u_arc_length', {}), ('u_circle_aabb', {})],
}


def run(v, tier, seed, only=None):
    jobs = [(MOD, f, k) for (f, k) in UNITS[tier] if not only or any(o in f for o in only.split(','))]
    res = run_jobs(jobs, seed=seed, procs=14, timeout_s=600 if tier == 'quick' else 2400)
    fold_results(v, res, JUDGES, 'C11')
