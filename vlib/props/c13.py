"""C13 - plane sections: the half of Mesh::section that engeom owns (engine M, partial).

parry's `intersection_with_local_plane` is a dependency; its contract is that it returns the plane-face crossing segments as a
polyline = a vertex list (points on the plane and on the surface) + index pairs, one pair per crossing segment, consistently
oriented.  Mesh::section is executed from MIR on such a result with symbolic vertex coordinates and the pairs in an arbitrary listed
order: every vertex of every returned curve is one of the crossing vertices, consecutive vertices of a curve are the two ends of one
crossing segment, every crossing segment is used exactly once, a closed ring of segments comes back as one closed curve, separate
components as separate curves.  Lying on the plane / surface, areas and perimeters, and Mesh::split are statements about parry."""
import itertools
import z3
from mirsym.driver import *
from mirsym.vals import *
from mirsym.ext import pt, vec_of, unref, items_of
from mirsym.ext_na import unit as unit_val

from .geomlib import rat, bounded, B, d2, unit3
from .c14 import mesh_val, VERTS, FACES
from .c19 import plane_val

MOD = 'vlib.props.c13'
R_ = z3.Real

TEMPLATES = {
    'ring3': [(1, 2), (0, 1), (2, 0)],
    'ring4_shuffled': [(2, 3), (0, 1), (3, 0), (1, 2)],
    'open3': [(2, 3), (0, 1), (1, 2)],
    'two_components': [(0, 1), (2, 3)],
    'ring3_plus_open': [(1, 2), (3, 4), (0, 1), (2, 0)],
    'two_rings': [(0, 1), (1, 2), (2, 0), (3, 4), (4, 5), (5, 3)],
    'ring_then_open2': [(0, 1), (1, 2), (2, 0), (3, 4), (4, 5)],
}


def u_section(template='ring3', with_tol=False):
    pairs = TEMPLATES[template]
    nv = max(max(p) for p in pairs) + 1
    V = [[R_(f'v{i}{c}') for c in 'xyz'] for i in range(nv)]
    tol = R_('tol')
    base = bounded(*[c for v in V for c in v]) + [tol > 0, tol <= rat('1/1000')]
    if not with_tol:
        base.append(tol == rat('1/1000000'))      # the default tolerance of section()
    # crossing vertices are at least twice the curve tolerance apart (closer ones may be merged by Curve3::from_points: outside this claim)
    base += [d2(V[i], V[j]) >= 4 * tol * tol for i, j in itertools.combinations(range(nv), 2)]

    def isect(eng, callee, args):
        pl = Struct('Polyline', [VecV([pt(list(v)) for v in V]), En('Some', [VecV([[a, b] for (a, b) in pairs])])])
        return En('Intersect', [pl], 'IntersectResult')

    def make(eng):
        return [Ref.to(mesh_val(VERTS, FACES)), Ref.to(plane_val([rat('3/5'), rat('-4/5'), rat(0)], rat('1/20'))), En('Some', [tol]) if with_tol else En('None')], None

    def post(eng, c, ret):
        obs = [holds('section succeeds', z3.BoolVal(ret.v == 'Ok'))]
        if ret.v != 'Ok':
            return obs
        curves = items_of(ret.f[0])
        steps = []
        for k, cv in enumerate(curves):
            verts = [vec_of(p) for p in cv[0][0].items]
            obs.append(holds(f'curve {k} has at least two vertices', z3.BoolVal(len(verts) >= 2)))
            for w in verts:
                obs.append(holds(f'curve {k}: every vertex is a crossing vertex', z3.Or([z3.And([w[t] == V[i][t] for t in range(3)]) for i in range(nv)])))
            steps += [(verts[i], verts[i + 1]) for i in range(len(verts) - 1)]
        obs.append(holds('as many curve edges as crossing segments', z3.BoolVal(len(steps) == len(pairs))))
        for (a, b) in pairs:
            used = [z3.Or(z3.And([u[t] == V[a][t] for t in range(3)] + [w[t] == V[b][t] for t in range(3)]), z3.And([u[t] == V[b][t] for t in range(3)] + [w[t] == V[a][t] for t in range(3)])) for (u, w) in steps]
            obs.append(holds(f'crossing segment {a}-{b} is one edge of one curve, exactly once', z3.Sum([z3.If(x, 1, 0) for x in used]) == 1 if used else z3.BoolVal(False)))
        # components: rings come back closed, the number of curves is the number of components
        comps = {'ring3': (1, [True]), 'ring4_shuffled': (1, [True]), 'open3': (1, [False]), 'two_components': (2, [False, False]), 'ring3_plus_open': (2, None), 'two_rings': (2, [True, True]), 'ring_then_open2': (2, [True, False])}[template]
        obs.append(holds('one curve per connected component of the crossing segments', z3.BoolVal(len(curves) == comps[0])))
        closed_flags = []
        for k, cv in enumerate(curves):
            verts = [vec_of(p) for p in cv[0][0].items]
            closed_flags.append(z3.And([verts[0][t] == verts[-1][t] for t in range(3)]))
        n_rings = {'ring3': 1, 'ring4_shuffled': 1, 'open3': 0, 'two_components': 0, 'ring3_plus_open': 1, 'two_rings': 2, 'ring_then_open2': 1}[template]
        obs.append(holds('every ring of segments comes back as a closed curve and every open run as an open one (count of closed curves)',
                         z3.Sum([z3.If(c_, 1, 0) for c_ in closed_flags]) == n_rings if closed_flags else z3.BoolVal(n_rings == 0)))
        return obs

    inp = {f'v{i}{c}': V[i][k] for i in range(nv) for k, c in enumerate('xyz')}
    inp['tol'] = tol
    return Unit(f'section[{template}{",tol" if with_tol else ""}]', 'Mesh::section', make, post, base=base, inputs=inp, observers={'intersection_with_local_plane': isect}, replay=('mesh_section', lambda mm: {'scene': 'all'}),
                loop_budget=64, max_paths=20000, bounds={'crossing segments': f'{len(pairs)} ({template}), listed in the order {pairs}', 'crossing vertices': f'{nv} symbolic points at least 2 tol apart', 'plane': 'normal (3/5, -4/5, 0), d = 1/20 (crosses the unit-box mesh although its min and max corners are on the same side)', 'tol': '(0, 1e-3]'},
                assumptions=['parry TriMesh::intersection_with_local_plane by contract: vertex list + one consistently oriented index pair per crossing segment (dependency)',
                             'parry Polyline::new stores the vertex list'], timeout_ms=15000)


def j_section(o, rep, out):
    """the crossing vertices cannot be injected into parry, so a solver model is confirmed on real sections (a box cut across, diagonally, by a plane with a
    mixed-sign normal and at a corner with sub-millimetre segments, two disjoint boxes; parry's own plane intersection does not terminate on the open meshes that were tried, so open runs are
    only decided symbolically): parry's raw segments are chained exhaustively here and compared with Mesh::section"""
    import numpy as np
    if 'ok' not in out:
        return 'panic'
    for r in out['ok']['scenes']:
        w = _judge_scene(r)
        if w:
            return w
    return False


def _judge_scene(r):
    import numpy as np
    V = np.array(r['raw_vertices'], float).reshape(-1, 3)
    pairs = r['raw_pairs']
    # merge raw vertices closer than the curve tolerance (as from_points does), then union-find over the segments
    parent = list(range(len(V)))

    def find(x):
        while parent[x] != x:
            parent[x] = parent[parent[x]]
            x = parent[x]
        return x
    deg = [0] * len(V)
    for a, b in pairs:
        deg[a] += 1
        deg[b] += 1
        parent[find(a)] = find(b)
    comps = {}
    for a, b in pairs:
        comps.setdefault(find(a), []).append((a, b))
    if len(r['curves']) != len(comps):
        return 'number of section curves differs from the number of connected runs of crossing segments'
    n_edges = 0
    for c in r['curves']:
        P = np.array(c, float)
        for w in P:
            if np.linalg.norm(V - w, axis=1).min() > 1e-9:
                return 'a section curve vertex is not a crossing vertex'
        n_edges += len(P) - 1
        closed = np.linalg.norm(P[0] - P[-1]) < 1e-9
        # the component this curve belongs to
        k = int(np.linalg.norm(V - P[0], axis=1).argmin())
        ring = all(deg[x] == 2 for seg in comps[find(k)] for x in seg)
        if closed != ring:
            return 'a ring of crossing segments does not come back as a closed curve (or an open run comes back closed)'
    # short segments may be merged by the curve tolerance: edges can only be lost to that
    if n_edges > len(pairs) or n_edges < len(pairs) - sum(1 for a, b in pairs if np.linalg.norm(V[a] - V[b]) <= 1e-6):
        return 'crossing segments are not used exactly once'
    return False


JUDGES = {'*': j_section}

UNITS = {
    'quick': [('u_section', {'template': t, 'with_tol': w}) for (t, w) in (('ring3', False), ('ring4_shuffled', True), ('open3', False), ('two_components', True), ('ring3_plus_open', False), ('two_rings', False), ('ring_then_open2', True))],
    'thorough': [('u_section', {'template': t, 'with_tol': w}) for t in TEMPLATES for w in (False, True)],
}


def run(v, tier, seed, only=None):
    jobs = [(MOD, f, k) for (f, k) in UNITS[tier] if not only or any(o in f for o in only.split(','))]
    res = run_jobs(jobs, seed=seed, procs=14, timeout_s=900 if tier == 'quick' else 3000)
    fold_results(v, res, JUDGES, 'C13')
