"""C05 - resampling, simplifying and gap filling stay on the curve and cover it all (engine M)."""
import itertools
import z3
from mirsym.driver import *
from mirsym.vals import *
from mirsym.ext import pt, vec_of, unref, items_of
from .geomlib import *
from .c01 import setup, curve_inputs, model_pts
from .c04 import curve_parts, on_source, _on, _cum

MOD = 'vlib.props.c05'


def seg_dist2_le(p, a, b, e2):
    """squared distance from p to segment [a,b] <= e2 (posed without division; a != b)"""
    dim = len(p)
    ab = [b[c] - a[c] for c in range(dim)]
    ap = [p[c] - a[c] for c in range(dim)]
    bp = [p[c] - b[c] for c in range(dim)]
    dot = sum((ap[c] * ab[c] for c in range(1, dim)), ap[0] * ab[0])
    l2 = sum((ab[c] * ab[c] for c in range(1, dim)), ab[0] * ab[0])
    apn = sum((ap[c] * ap[c] for c in range(1, dim)), ap[0] * ap[0])
    bpn = sum((bp[c] * bp[c] for c in range(1, dim)), bp[0] * bp[0])
    # perpendicular distance^2 * l2 = apn*l2 - dot^2
    return z3.If(dot <= 0, apn <= e2, z3.If(dot >= l2, bpn <= e2, apn * l2 - dot * dot <= e2 * l2))


# ------------------------------------------------------------------------------------------------ fill_gaps
def u_fill(n=2, pattern=(0,)):
    pts, ks, base, kp = chain2(n, pattern)
    m = R('max')
    base = base + [m > 0, m <= B] + [k <= 4 * m for k in ks]

    def make(eng):
        return [Ref.to(points_vec(pts)), m], None

    def post(eng, c, ret):
        out = [vec_of(p) for p in ret.items]
        obs = [finite('no non-finite point', out), holds('first point kept', z3.And(out[0][0] == pts[0][0], out[0][1] == pts[0][1])),
               holds('last point kept', z3.And(out[-1][0] == pts[-1][0], out[-1][1] == pts[-1][1]))]
        if poisoned(out):
            return obs
        for i in range(len(out) - 1):
            obs.append(le(f'gap {i} not larger than the maximum', d2(out[i], out[i + 1]), m * m, scale=B))
        # original points kept in order: as a subsequence
        j = 0
        positions = []
        for p in pts:
            found = None
            for t in range(j, len(out)):
                if eng.branch(z3.And(out[t][0] == p[0], out[t][1] == p[1])):
                    found = t
                    break
            positions.append(found)
            if found is None:
                break
            j = found + 1
        obs.append(holds('all original points kept in order', all(x is not None for x in positions)))
        for q in out:
            obs.append(holds('every point lies on the original polyline', on_source(pts, None, q)))
        return obs

    return Unit(f'fill_gaps[n={n},dirs={tuple(DIRS2[k] for k in pattern)}]', 'points::fill_gaps', make, post, base=base, known_pos=kp + [m],
                inputs={**{f'p{i}{c}': pts[i][k] for i in range(n) for k, c in enumerate('xy')}, 'max': m},
                replay=('fill_gaps2', lambda mm: {'pts': [[mm[f'p{i}x'], mm[f'p{i}y']] for i in range(n)], 'max': mm['max']}),
                loop_budget=12, bounds={'points': n, 'gap / max': '<= 4'}, timeout_ms=10000)


def j_fill(o, rep, out):
    import math
    if 'timeout' in out:
        return 'does not terminate'
    if 'ok' not in out:
        return 'panic'
    a, r = rep['args'], out['ok']
    if any(isinstance(x, str) for p in r for x in p):
        return 'non-finite point'
    for i in range(len(r) - 1):
        if math.dist(r[i], r[i + 1]) > a['max'] * (1 + 1e-9):
            return 'a gap larger than the maximum remains'
    j = 0
    for p in a['pts']:
        while j < len(r) and math.dist(r[j], p) > 1e-12:
            j += 1
        if j == len(r):
            return 'an original point is missing or out of order'
        j += 1
    for q in r:
        if not _on(a['pts'], q, 1e-7 * (1 + max(abs(x) for x in q))):
            return 'inserted point off the original polyline'
    return False


# ------------------------------------------------------------------------------------------------ Ramer-Douglas-Peucker
def u_rdp(n=3, pattern=(0, 1)):
    pts, ks, base, kp = chain2(n, pattern)
    eps = R('eps')
    base = base + [eps > 0, eps <= B]

    def make(eng):
        return [Ref.to(points_vec(pts)), eps], None

    def post(eng, c, ret):
        out = [vec_of(p) for p in ret.items]
        obs = [holds('at least the two end points are kept', len(out) >= 2)]
        if len(out) < 2:
            return obs
        obs.append(holds('first point kept', z3.And(out[0][0] == pts[0][0], out[0][1] == pts[0][1])))
        obs.append(holds('last point kept', z3.And(out[-1][0] == pts[-1][0], out[-1][1] == pts[-1][1])))
        # output is a subsequence of the input: match greedily (vertices of a chain are distinct unless the chain returns)
        idx = []
        j = 0
        for q in out:
            found = None
            for t in range(j, n):
                if eng.branch(z3.And(q[0] == pts[t][0], q[1] == pts[t][1])):
                    found = t
                    break
            idx.append(found)
            if found is None:
                break
            j = found + 1
        obs.append(holds('output is a subsequence of the input vertices', all(x is not None for x in idx)))
        if any(x is None for x in idx):
            return obs
        for s in range(len(idx) - 1):
            a, b = idx[s], idx[s + 1]
            for t in range(a + 1, b):
                same = z3.And(pts[a][0] == pts[b][0], pts[a][1] == pts[b][1])
                within = z3.If(same, d2(pts[t], pts[a]) <= eps * eps, seg_dist2_le(pts[t], pts[a], pts[b], eps * eps))
                obs.append(holds(f'dropped vertex {t} is within eps of the simplified curve', within))
        return obs

    return Unit(f'rdp[n={n},dirs={tuple(DIRS2[k] for k in pattern)}]', 'points::ramer_douglas_peucker', make, post, base=base, known_pos=kp + [eps],
                inputs={**{f'p{i}{c}': pts[i][k] for i in range(n) for k, c in enumerate('xy')}, 'eps': eps},
                replay=('rdp2', lambda mm: {'pts': [[mm[f'p{i}x'], mm[f'p{i}y']] for i in range(n)], 'eps': mm['eps']}),
                loop_budget=4 * n + 8, bounds={'points': n, 'recursion depth': '<= n-2'}, timeout_ms=10000)


def _seg_dist(p, a, b):
    import math
    ab = [b[0] - a[0], b[1] - a[1]]
    l2 = ab[0] ** 2 + ab[1] ** 2
    if l2 == 0:
        return math.dist(p, a)
    t = max(0.0, min(1.0, ((p[0] - a[0]) * ab[0] + (p[1] - a[1]) * ab[1]) / l2))
    return math.dist(p, [a[0] + t * ab[0], a[1] + t * ab[1]])


def j_rdp(o, rep, out):
    import math
    if 'ok' not in out:
        return 'panic'
    a, r = rep['args'], out['ok']
    P = a['pts']
    if len(r) < 2 or math.dist(r[0], P[0]) > 1e-12 or math.dist(r[-1], P[-1]) > 1e-12:
        return 'end points not kept'
    idx = []
    j = 0
    for q in r:
        while j < len(P) and math.dist(P[j], q) > 1e-12:
            j += 1
        if j == len(P):
            return 'output is not a subsequence of the input'
        idx.append(j)
        j += 1
    for s in range(len(idx) - 1):
        for t in range(idx[s] + 1, idx[s + 1]):
            if _seg_dist(P[t], P[idx[s]], P[idx[s + 1]]) > a['eps'] * (1 + 1e-7) + 1e-12:
                beyond = True
                return 'a dropped vertex is farther than eps from the simplified curve (distance measured to the infinite line through the kept neighbours)'
    return False


# ------------------------------------------------------------------------------------------------ resampling
def u_resample(n=2, pattern=(0,), dim=2, mode='count', count=3, closed='open'):
    tol, pts, ks, base, kp = setup(n, pattern, dim, closed)
    s = R('s')
    ty = 'Curve2' if dim == 2 else 'Curve3'
    dirs = DIRS2 if dim == 2 else DIRS3
    force = closed == 'forced'
    Lsym = sum(ks[1:], ks[0])
    base = base + [k >= 10 * tol for k in ks] + [Lsym >= rat('1/1000'), Lsym <= B]
    if mode != 'count':
        base += [s > 10 * tol, s <= B, Lsym <= 3 * s] + ([Lsym > s] if mode == 'spacing' else [Lsym >= s / 4])

    def entry(eng, args):
        pv, t = args
        r = eng.call(f'{ty}::from_points', [Ref.to(pv), t] + ([force] if dim == 2 else []))
        if r.v != 'Ok':
            return None
        c = r.f[0]
        if mode == 'count':
            md = En('ByCount', [count], 'Resample')
        elif mode == 'spacing':
            md = En('BySpacing', [s], 'Resample')
        else:
            md = En('ByMaxSpacing', [s], 'Resample')
        res = eng.call(f'{ty}::resample', [Ref.to(c), md])
        return {'curve': c, 'res': res}

    def make(eng):
        return [points_vec(pts), tol], None

    def post(eng, c, ret):
        if ret is None:
            return [holds('construction succeeds', False)]
        cv = ret['curve']
        verts = [vec_of(p) for p in cv[0][0].items]
        lens = [num(x) for x in cv[1].items]
        L = lens[-1]
        res = ret['res']
        if dim == 2:
            if not isinstance(res, En) or res.v != 'Ok':
                return [holds('resampling succeeds', False)]
            rc = res.f[0]
        else:
            rc = res
        rverts = [vec_of(p) for p in rc[0][0].items]
        rlens = [num(x) for x in rc[1].items]
        obs = [finite('no non-finite vertex', rverts)]
        if poisoned(rverts):
            return obs
        obs.append(holds('spans from the first point', z3.And([rverts[0][k] == verts[0][k] for k in range(dim)])) if mode != 'spacing' else holds('ok', True))
        if mode != 'spacing':
            obs.append(le('spans to the last point', d2(rverts[-1], verts[-1]), tol * tol, scale=1))
        if dim == 2:
            for j, q in enumerate(rverts):
                obs.append(holds(f'vertex {j} lies on the original', on_source(verts, lens, q)))
        if mode == 'count':
            obs.append(holds('vertex count as requested', len(rverts) == count))
        # spacing along the source: consecutive vertices are at most `s` apart as points (chord <= arc)
        if mode == 'max_spacing':
            for j in range(len(rverts) - 1):
                obs.append(le(f'consecutive vertices {j},{j + 1} not farther apart than the maximum spacing', d2(rverts[j], rverts[j + 1]), s * s, scale=B))
            # and the resampled curve must not be shorter than chord-error allows: at least two vertices
            obs.append(holds('at least two vertices', len(rverts) >= 2))
        if mode == 'spacing' and n == 2:
            # straight source: positions are directly comparable
            for j in range(len(rverts) - 1):
                obs.append(eq(f'spacing between vertices {j},{j + 1}', d2(rverts[j], rverts[j + 1]), s * s, scale=B))
            obs.append(eq('equal margins at both ends', d2(rverts[0], verts[0]), d2(rverts[-1], verts[-1]), scale=B))
            obs.append(le('margins smaller than one spacing', d2(rverts[0], verts[0]), s * s, scale=B))
        if mode == 'count' and n == 2:
            for j in range(count):
                # on a straight source the j-th vertex is at fraction j/(count-1)
                for k in range(dim):
                    obs.append(eq(f'vertex {j} at fraction {j}/{count - 1} ({"xyz"[k]})', rverts[j][k] * (count - 1), verts[0][k] * (count - 1 - j) + verts[-1][k] * j, scale=B))
        return obs

    def panics(p, eng):
        return 'violation'

    name = f'{ty}.resample[{mode}{"=" + str(count) if mode == "count" else ""},n={n},dirs={tuple(dirs[k] for k in pattern)},{closed}]'
    inp = curve_inputs(pts, tol, {'s': s})

    def rp(m):
        a = {'pts': model_pts(m, n, dim), 'tol': m['tol'], 'force_closed': force, 'mode': mode, 'n': count, 's': m.get('s', 1.0)}
        return a
    return Unit(name, entry, make, post, base=base, known_pos=kp + ([s] if mode != 'count' else []), inputs=inp, replay=(f'curve{dim}_resample', rp), panics=panics,
                loop_budget=40, bounds={'vertices': n, 'mode': mode, 'length': '[1e-3, 1e3]', 'length / spacing': ('(1, 3] (at least two samples fit; L == spacing exactly gives a single sample and is outside the claim)' if mode == 'spacing' else '[1/4, 3]') if mode != 'count' else 'n/a', 'edges': '>= 10 tol'},
                timeout_ms=10000, max_paths=3000, lin_inc=True)


def j_resample(o, rep, out):
    import math
    if 'timeout' in out:
        return 'does not terminate'
    a = rep['args']
    if 'ok' not in out:
        L = sum(math.dist(a['pts'][i], a['pts'][i + 1]) for i in range(len(a['pts']) - 1))
        if a['mode'] == 'count':
            return 'panic: positions are fractions passed as lengths (curve shorter than one unit)' if L < 1 and len(a['pts'][0]) == 2 else 'panic'
        if a['mode'] == 'max_spacing':
            return 'panic: a single sample is requested when the curve is not longer than the maximum spacing' if L <= a['s'] else 'panic'
        return 'panic'
    r = out['ok']
    if 'err' in r or r.get('result') is None:
        return 'resampling failed'
    src, res = r['source'], r['result']
    L, tol = src['length'], a['tol']
    P = res['points']
    dim = len(P[0])
    if any(isinstance(x, str) for p in P for x in p):
        return 'non-finite vertex'
    if a['mode'] != 'spacing':
        if math.dist(P[0], src['points'][0]) > 1e-9 * (1 + L) or math.dist(P[-1], src['points'][-1]) > tol + 1e-9 * (1 + L):
            if a['mode'] == 'count' and dim == 2:
                return 'resampled curve does not span the original (positions are fractions passed as lengths)'
            return 'resampled curve does not span the original'
    if dim == 2:
        for q in P:
            if not _on(src['points'], q, 1e-7 * (1 + L)):
                return 'resampled vertex off the original'
    if a['mode'] == 'count' and len(P) != a['n']:
        return 'wrong vertex count'
    if a['mode'] == 'max_spacing':
        if any(math.dist(P[i], P[i + 1]) > a['s'] * (1 + 1e-9) for i in range(len(P) - 1)):
            return 'consecutive vertices farther apart than the maximum spacing (n = ceil(L/max) samples give spacing L/(n-1))'
    if a['mode'] == 'spacing' and len(src['points']) == 2:
        if any(abs(math.dist(P[i], P[i + 1]) - a['s']) > 1e-7 * (1 + a['s']) for i in range(len(P) - 1)):
            return 'spacing differs from the request'
        m0, m1 = math.dist(P[0], src['points'][0]), math.dist(P[-1], src['points'][-1])
        if abs(m0 - m1) > 1e-7 * (1 + L) or m0 >= a['s']:
            return 'margins are not equal and smaller than one spacing'
    return False


# ------------------------------------------------------------------------------------------------ simplify on curves
def u_simplify(n=4, pattern=(0, 1, 2), closed='open'):
    tol, pts, ks, base, kp = setup(n, pattern, 2, closed)
    eps = R('eps')
    force = closed == 'forced'
    base = base + [eps > 0, eps <= B, eps >= tol] + [k >= 10 * tol for k in ks]
    if closed != 'open':
        # a closed curve whose every vertex is within eps of its seam collapses to a point: eps below the extent of the curve
        base.append(d2(pts[(n - 1) // 2], pts[0]) > eps * eps)

    def entry(eng, args):
        pv, t = args
        r = eng.call('Curve2::from_points', [Ref.to(pv), t, force])
        if r.v != 'Ok':
            return None
        c = r.f[0]
        return {'curve': c, 'res': eng.call('Curve2::simplify', [Ref.to(c), eps])}

    def make(eng):
        return [points_vec(pts), tol], None

    def post(eng, c, ret):
        if ret is None:
            return [holds('construction succeeds', False)]
        verts, lens, cl, _t = curve_parts(ret['curve'])
        rverts, rlens, rcl, _rt = curve_parts(ret['res'])
        obs = [holds('first end point kept', z3.And(rverts[0][0] == verts[0][0], rverts[0][1] == verts[0][1])),
               holds('last end point kept', z3.And(rverts[-1][0] == verts[-1][0], rverts[-1][1] == verts[-1][1])),
               holds('closedness kept', (rcl if is_sym(rcl) else z3.BoolVal(bool(rcl))) == (cl if is_sym(cl) else z3.BoolVal(bool(cl))))]
        for q in rverts:
            obs.append(holds('kept vertex is an original vertex', z3.Or([z3.And(q[0] == v[0], q[1] == v[1]) for v in verts])))
        return obs

    return Unit(f'Curve2.simplify[n={n},dirs={tuple(DIRS2[k] for k in pattern)},{closed}]', entry, make, post, base=base, known_pos=kp + [eps],
                inputs=curve_inputs(pts, tol, {'eps': eps}),
                replay=('curve2_simplify', lambda m: {'pts': model_pts(m, n, 2), 'tol': m['tol'], 'force_closed': force, 'eps': m['eps']}),
                loop_budget=6 * n + 24, bounds={'vertices': n, 'closedness': closed}, timeout_ms=10000, max_paths=3000)


def j_simplify(o, rep, out):
    import math
    a = rep['args']
    if 'ok' not in out:
        return 'panic when simplifying a closed curve (degenerate chord between coincident end points)' if (a['force_closed'] or math.dist(a['pts'][0], a['pts'][-1]) <= a['tol']) else 'panic'
    r = out['ok']
    if 'err' in r:
        return 'construction failed'
    src, res = r['source'], r['result']
    if math.dist(src['points'][0], res['points'][0]) > 1e-12 or math.dist(src['points'][-1], res['points'][-1]) > 1e-12 or src['is_closed'] != res['is_closed']:
        return 'end points / closedness not kept'
    return False


JUDGES = {'fill_gaps': j_fill, 'rdp': j_rdp, 'Curve2.resample': j_resample, 'Curve3.resample': j_resample, 'Curve2.simplify': j_simplify}


def units_for(tier):
    u = [('u_fill', {'n': 2, 'pattern': (p,)}) for p in (0, 4, 6)] + [('u_fill', {'n': 3, 'pattern': (0, 1)})]
    u += [('u_rdp', {'n': 3, 'pattern': p}) for p in ((0, 1), (0, 4), (0, 2), (4, 6), (1, 7))]
    u += [('u_rdp', {'n': 4, 'pattern': p}) for p in ((0, 1, 0), (0, 4, 3), (0, 1, 2))]
    for dim in (2, 3):
        pats2 = [(0,), (4,)] if dim == 2 else [(0,), (6,)]
        pats3 = [(0, 1)] if dim == 2 else [(0, 6)]
        for p in pats2:
            for cnt in (2, 3):
                u.append(('u_resample', {'n': 2, 'pattern': p, 'dim': dim, 'mode': 'count', 'count': cnt}))
            u.append(('u_resample', {'n': 2, 'pattern': p, 'dim': dim, 'mode': 'spacing'}))
            u.append(('u_resample', {'n': 2, 'pattern': p, 'dim': dim, 'mode': 'max_spacing'}))
        for p in pats3:
            u.append(('u_resample', {'n': 3, 'pattern': p, 'dim': dim, 'mode': 'count', 'count': 3}))
            u.append(('u_resample', {'n': 3, 'pattern': p, 'dim': dim, 'mode': 'max_spacing'}))
    u += [('u_simplify', {'n': 4, 'pattern': (0, 1, 2), 'closed': 'open'}), ('u_simplify', {'n': 4, 'pattern': (0, 5, 6), 'closed': 'natural'}),
          ('u_simplify', {'n': 5, 'pattern': (0, 1, 2, 3), 'closed': 'natural'})]
    if tier == 'thorough':
        u += [('u_rdp', {'n': 4, 'pattern': p}) for p in itertools.product(range(4), repeat=3)]
        u += [('u_fill', {'n': 3, 'pattern': p}) for p in ((0, 4), (4, 5), (0, 0))]
        u += [('u_rdp', {'n': 5, 'pattern': (0, 1, 0, 1)})]
    return u


def run(v, tier, seed, only=None):
    jobs = [(MOD, f, k) for (f, k) in units_for(tier) if not only or only in f or only in str(k)]
    res = run_jobs(jobs, seed=seed, procs=14, timeout_s=900 if tier == 'quick' else 3000)
    fold_results(v, res, JUDGES, 'C05')
