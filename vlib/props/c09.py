"""C09 - least-squares fits are optimal (engine M): moment sums / normal equations of the polynomial fit at the
try_inverse() boundary and end to end, Series1::best_fit_line, Circle2::from_3_points, and the circle-fit problem's
residuals / Jacobian / weights.  LM convergence and RANSAC are outside the claim (DESIGN.md section 6 C09)."""
import z3
from mirsym.driver import *
from mirsym.vals import *
from mirsym.ext import pt, vec_of, unref, items_of, Mat
from .geomlib import *

MOD = 'vlib.props.c09'


def powsum(ws, xs, ys, p, with_y=False):
    terms = []
    for w, x, y in zip(ws, xs, ys):
        t = w
        for _ in range(p):
            t = t * x
        terms.append(t * y if with_y else t)
    r = terms[0]
    for t in terms[1:]:
        r = r + t
    return r


def u_poly(K=2, n=None, weighted=False, end_to_end=False):
    n = n or K + 1
    xs = [R(f'x{i}') for i in range(n)]
    ys = [R(f'y{i}') for i in range(n)]
    ws = [R(f'w{i}') for i in range(n)] if weighted else [z3.RealVal(1)] * n
    base = bounded(*(xs + ys), b=100) + [xs[i] < xs[i + 1] for i in range(n - 1)]
    if weighted:
        base += [z3.And(w > 0, w <= 100) for w in ws]
    cap = {}

    def inv_obs(eng, callee, args):
        cap['matrix'] = args[0]
        return NotImplemented

    def make(eng):
        cap.clear()
        wv = En('Some', [Ref.to(VecV(list(ws)))]) if weighted else En('None')
        return [Ref.to(VecV(list(xs))), Ref.to(VecV(list(ys))), wv], None

    def post(eng, c, ret):
        obs = []
        Mx = cap.get('matrix')
        obs.append(holds('the normal matrix reaches try_inverse', Mx is not None))
        if Mx is None:
            return obs
        for r in range(K):
            for cc in range(K):
                obs.append(eq(f'normal matrix [{r}][{cc}] is the weighted power sum of order {r + cc}', num(Mx.rows[r][cc]), powsum(ws, xs, ys, r + cc), scale=10 ** 6))
        if end_to_end:
            coef = [num(x) for x in ret[0]]
            for r in range(K):
                lhs = sum((powsum(ws, xs, ys, r + j) * coef[j] for j in range(1, K)), powsum(ws, xs, ys, r) * coef[0])
                obs.append(eq(f'normal equation {r} holds (residual orthogonal to x^{r})', lhs, powsum(ws, xs, ys, r, True), scale=10 ** 6))
        return obs

    def panics(p, eng):
        # try_inverse().unwrap() on a singular matrix: with distinct abscissae and positive weights the true normal matrix is regular
        return 'violation'

    name = f'polynomial.least_squares[K={K},n={n},{"weighted" if weighted else "unweighted"}{",end-to-end" if end_to_end else ""}]'
    inp = {**{f'x{i}': xs[i] for i in range(n)}, **{f'y{i}': ys[i] for i in range(n)}, **({f'w{i}': ws[i] for i in range(n)} if weighted else {})}
    return Unit(name, 'Polynomial::least_squares', make, post, base=base, inputs=inp, observers={'try_inverse_obs': inv_obs}, const_generics={'K': K}, panics=panics,
                replay=('poly_fit', lambda m: {'xs': [m[f'x{i}'] for i in range(n)], 'ys': [m[f'y{i}'] for i in range(n)], 'w': [m[f'w{i}'] for i in range(n)] if weighted else None, 'K': K}),
                loop_budget=8 * K + 4 * n + 16, bounds={'K (coefficients)': K, 'samples': n, 'abscissae': 'strictly ascending, |x|,|y| <= 100', 'weights': '(0, 100]' if weighted else 'none'},
                assumptions=['DMatrix::try_inverse returns X with M X = I iff det M != 0 (contract)'], timeout_ms=20000)


def j_poly(o, rep, out):
    import numpy as np
    a = rep['args']
    if 'ok' not in out:
        return 'panic'
    c = out['ok']
    if any(isinstance(v, str) for v in c):
        return 'non-finite coefficient'
    xs, ys = np.array(a['xs']), np.array(a['ys'])
    w = np.array(a['w']) if a['w'] else np.ones(len(xs))
    K = a['K']
    V = np.vander(xs, K, increasing=True)
    res = V @ np.array(c) - ys
    g = V.T @ (w * res)
    scale = 1 + np.abs(V.T @ (w * ys)).max()
    if np.abs(g).max() > 1e-6 * scale:
        return 'fit does not satisfy the normal equations (a power sum of the abscissae is missing)'
    return False


def u_best_fit_line(n=3):
    xs = [R(f'x{i}') for i in range(n)]
    ys = [R(f'y{i}') for i in range(n)]
    base = bounded(*(xs + ys), b=100) + [xs[i] < xs[i + 1] for i in range(n - 1)]

    def make(eng):
        s = Struct('Series1', [Struct('DiscreteDomain', [VecV(list(xs))]), VecV(list(ys))])
        return [Ref.to(s)], None

    def post(eng, c, ret):
        coef = [num(x) for x in ret[0]]
        b, m = coef[0], coef[1]
        ones = [z3.RealVal(1)] * n
        r0 = sum((m * x + b - y for x, y in zip(xs[1:], ys[1:])), m * xs[0] + b - ys[0])
        r1 = sum(((m * x + b - y) * x for x, y in zip(xs[1:], ys[1:])), (m * xs[0] + b - ys[0]) * xs[0])
        return [finite('finite coefficients', coef), eq('residuals sum to zero', r0, 0, scale=10 ** 4), eq('residuals are orthogonal to the abscissae', r1, 0, scale=10 ** 6)]

    return Unit(f'best_fit_line[n={n}]', 'Series1::best_fit_line', make, post, base=base, inputs={**{f'x{i}': xs[i] for i in range(n)}, **{f'y{i}': ys[i] for i in range(n)}},
                replay=('series_best_fit_line', lambda mm: {'xs': [mm[f'x{i}'] for i in range(n)], 'ys': [mm[f'y{i}'] for i in range(n)]}),
                bounds={'samples': n, 'values': 'strictly ascending x, |x|,|y| <= 100'}, timeout_ms=20000)


def j_line(o, rep, out):
    import numpy as np
    a = rep['args']
    if 'ok' not in out:
        return 'panic'
    m, b = out['ok']['m'], out['ok']['b']
    if isinstance(m, str) or isinstance(b, str):
        return 'non-finite line'
    xs, ys = np.array(a['xs']), np.array(a['ys'])
    res = m * xs + b - ys
    sc = 1 + np.abs(ys).max() * (1 + np.abs(xs).max()) * len(xs)
    if abs(res.sum()) > 1e-6 * sc or abs((res * xs).sum()) > 1e-6 * sc:
        return 'best-fit line does not satisfy the normal equations'
    return False


def u_three_points(d1=None, d2_=None):
    if d1 is None:
        p = [[R(f'p{i}x'), R(f'p{i}y')] for i in range(3)]
        base = bounded(*[c for q in p for c in q], b=100)
        kp = []
    else:
        # p1 and p2 offset from p0 along two concrete direction classes by symbolic distances
        a, b, k1, k2 = R('p0x'), R('p0y'), R('k1'), R('k2')
        u1, u2 = unit2(d1), unit2(d2_)
        p = [[a, b], [a + u1[0] * k1, b + u1[1] * k1], [a + u2[0] * k2, b + u2[1] * k2]]
        base = bounded(a, b, b=100) + [k1 > 0, k1 <= 100, k2 > 0, k2 <= 100]
        kp = [k1, k2]

    def make(eng):
        return [pt(list(p[0])), pt(list(p[1])), pt(list(p[2]))], None

    det = (p[0][0] - p[1][0]) * (p[1][1] - p[2][1]) - (p[1][0] - p[2][0]) * (p[0][1] - p[1][1])

    def post(eng, c, ret):
        if ret.v == 'Err':
            return [holds('rejected only for (nearly) collinear points', z3.And(det < rat('1000001/1000000000000'), det > -rat('1000001/1000000000000')))]
        circ = ret.f[0]
        cx, cy = vec_of(circ[0])
        r = num(circ[1][0])
        obs = [finite('finite circle', [cx, cy, r]), holds('accepted only for non-collinear points', z3.Or(det >= rat('999999/1000000000000'), det <= -rat('999999/1000000000000')))]
        if poisoned([cx, cy, r]):
            return obs
        obs.append(holds('radius is non-negative', r >= 0))
        for i in range(3):
            # scale: conditioning of the circumcentre grows like 1/det
            obs.append(eq(f'circle passes through point {i}', d2([cx, cy], p[i]), r * r, scale=10 ** 4))
        return obs

    return Unit(f'from_3_points[{"general" if d1 is None else (DIRS2[d1], DIRS2[d2_])}]', 'Circle2::from_3_points', make, post, base=base, known_pos=kp, inputs={f'p{i}{c}': p[i][k] for i in range(3) for k, c in enumerate('xy')},
                replay=('from_3_points', lambda m: {f'p{i}': [m[f'p{i}x'], m[f'p{i}y']] for i in range(3)}),
                bounds={'points': '|x|,|y| <= 100, any triple'}, timeout_ms=20000)


def j_three(o, rep, out):
    import math
    a = rep['args']
    if 'ok' not in out:
        return 'panic'
    P = [a['p0'], a['p1'], a['p2']]
    det = (P[0][0] - P[1][0]) * (P[1][1] - P[2][1]) - (P[1][0] - P[2][0]) * (P[0][1] - P[1][1])
    r = out['ok']
    if r is None:
        return False if abs(det) < 1.1e-6 else 'non-collinear points rejected'
    if abs(det) < 0.9e-6:
        return 'collinear points accepted'
    for q in P:
        if abs(math.hypot(q[0] - r[0], q[1] - r[1]) - r[2]) > 1e-6 * (1 + r[2]) / min(1.0, abs(det)):
            return 'three-point circle does not pass through its points'
    return False


def u_circle_fit(dirs=(0, 1, 4), gaussian=False, update=False):
    """CircleFit::new (+ set_params): residuals, Jacobian rows and weights describe the same state"""
    n = len(dirs)
    cx, cy, r0 = R('cx'), R('cy'), R('r0')
    ks = [R(f'k{i}') for i in range(n)]
    P = [[cx + unit2(d)[0] * k, cy + unit2(d)[1] * k] for d, k in zip(dirs, ks)]
    nx, ny, nr = R('nx'), R('ny'), R('nr')
    sigma = R('sigma')
    base = bounded(cx, cy, nx, ny) + [r0 > 0, r0 <= 100, nr > 0, nr <= 100, sigma > rat('1/10'), sigma <= 10] + [z3.And(k > rat('1/100'), k <= 100) for k in ks]
    if update:
        base += [d2(q, [nx, ny]) > rat('1/10000') for q in P]       # no sample at the (new) centre: the radial direction is undefined there

    def entry(eng, args):
        pv, mode, init = args
        prob = eng.call('CircleFit::new', [Ref.to(pv), mode, Ref.to(init)])
        pr = Ref.to(prob)
        if update:
            eng.call('<CircleFit<\'_> as LeastSquaresProblem<f64, Dyn, U3>>::set_params', [pr, Ref.to([nx, ny, nr])])
        res = eng.call('<CircleFit<\'_> as LeastSquaresProblem<f64, Dyn, U3>>::residuals', [pr])
        jac = eng.call('<CircleFit<\'_> as LeastSquaresProblem<f64, Dyn, U3>>::jacobian', [pr])
        return {'prob': prob, 'res': res, 'jac': jac}

    def make(eng):
        init = Struct('Circle2', [pt([cx, cy]), Struct('Ball', [r0]), Opaque('aabb')])
        mode = En('Gaussian', [sigma], 'BestFit') if gaussian else En('All', (), 'BestFit')
        return [points_vec(P), mode, init], None

    def post(eng, c, ret):
        prob = ret['prob']
        res = [num(x) for x in vec_of(ret['res'].f[0])] if ret['res'].v == 'Some' else None
        jac = ret['jac'].f[0] if ret['jac'].v == 'Some' else None
        obs = [holds('residuals and jacobian are produced', res is not None and jac is not None)]
        if res is None or jac is None:
            return obs
        weights = [num(x) for x in vec_of(prob[5])]
        ccx, ccy, rr = (nx, ny, nr) if update else (cx, cy, r0)
        obs.append(finite('finite residuals / jacobian / weights', [res, jac.rows, weights]))
        if poisoned([res, jac.rows, weights]):
            return obs
        raw = []
        for i in range(n):
            w = weights[i]
            obs.append(holds(f'weight {i} is 0 or 1', z3.Or(w == 0, w == 1)))
            # residual_i = (|p_i - c| - r) * w_i  <=>  (res_i + r*w)^2 = w^2 * |p_i - c|^2 and res_i + r*w >= 0
            obs.append(eq(f'residual {i} is the weighted radial distance', sq(res[i] + rr * w), w * w * d2(P[i], [ccx, ccy]), scale=10 ** 4))
            obs.append(holds(f'residual {i} + r*w is non-negative', res[i] + rr * w >= 0))
            # jacobian row: d/dc = -(p - c)/|p - c| * w ; d/dr = -w
            jx, jy, jr = [num(x) for x in jac.rows[i]]
            obs.append(eq(f'jacobian [{i}][2] is -weight', jr, -w))
            obs.append(eq(f'jacobian [{i}][0..1] is antiparallel to p - c', jx * (P[i][1] - ccy) - jy * (P[i][0] - ccx), 0, scale=10 ** 3))
            obs.append(eq(f'jacobian [{i}][0..1] has length weight', jx * jx + jy * jy, w * w))
            obs.append(holds(f'jacobian [{i}][0..1] points from p towards c', z3.Implies(w == 1, jx * (P[i][0] - ccx) + jy * (P[i][1] - ccy) < 0)))
        if not gaussian:
            for i in range(n):
                obs.append(holds(f'all samples are used (weight {i} = 1)', weights[i] == 1))
        elif not update:
            # sigma clipping on the radial residuals of the initial circle: r_i = k_i - r0 (points are at distance k_i from the centre)
            rs = [k - r0 for k in ks]
            mean = sum(rs[1:], rs[0]) / n
            var = sum((sq(x - mean) for x in rs[1:]), sq(rs[0] - mean)) / n
            for i in range(n):
                dev2 = sq(rs[i] - mean)
                obs.append(holds(f'sample {i} farther than sigma standard deviations from the mean residual is de-weighted', z3.Implies(dev2 > sigma * sigma * var * rat('1000001/1000000'), weights[i] == 0)))
                obs.append(holds(f'sample {i} within sigma standard deviations keeps weight 1', z3.Implies(z3.And(var > rat('1/1000000'), dev2 < sigma * sigma * var * rat('999999/1000000')), weights[i] == 1)))
        return obs

    name = f'circle_fit[dirs={tuple(DIRS2[d] for d in dirs)},{"gaussian" if gaussian else "all"},{"after set_params" if update else "after new"}]'
    inp = {'cx': cx, 'cy': cy, 'r0': r0, 'nx': nx, 'ny': ny, 'nr': nr, 'sigma': sigma, **{f'p{i}{c}': P[i][k] for i in range(n) for k, c in enumerate('xy')}}

    def rp(m):
        return {'pts': [[m[f'p{i}x'], m[f'p{i}y']] for i in range(n)], 'initial': [m['cx'], m['cy'], m['r0']], 'sigma': m['sigma'] if gaussian else None,
                'x': [m['nx'], m['ny'], m['nr']] if update else None}
    return Unit(name, entry, make, post, base=base, known_pos=list(ks) + [r0, nr, sigma], inputs=inp, replay=('circle_fit_eval', rp), loop_budget=8 * n + 16,
                bounds={'samples': n, 'sample directions from the initial centre': 'concrete classes, symbolic distances in (0.01, 100]', 'mode': 'Gaussian(sigma in (0.1,10])' if gaussian else 'All'},
                timeout_ms=20000, max_paths=2000)


def j_circle_fit(o, rep, out):
    import math
    import numpy as np
    a = rep['args']
    if 'ok' not in out:
        return 'panic'
    r = out['ok']
    pts = a['pts']
    c = a['x'] if a['x'] else a['initial']
    w = r['weights']
    n = len(pts)
    raw0 = [math.hypot(p[0] - a['initial'][0], p[1] - a['initial'][1]) - a['initial'][2] for p in pts]
    raw = [math.hypot(p[0] - c[0], p[1] - c[1]) - c[2] for p in pts]
    if any(isinstance(x, str) for x in r['residuals'] + w):
        return 'non-finite residual/weight'
    if a['sigma'] is None:
        if any(x != 1.0 for x in w):
            return 'a sample is de-weighted in BestFit::All mode'
    else:
        mean = sum(raw) / n
        std = math.sqrt(sum((x - mean) ** 2 for x in raw) / n)
        for i in range(n):
            d = abs(raw[i] - mean)
            if std > 1e-9 and d > a['sigma'] * std * (1 + 1e-6) and w[i] != 0.0:
                return 'sigma clipping keeps a sample farther than sigma standard deviations from the mean residual'
            if std > 1e-9 and d < a['sigma'] * std * (1 - 1e-6) and w[i] != 1.0:
                return 'sigma clipping drops a sample within sigma standard deviations of the mean residual (deviation not taken from the mean)'
    for i in range(n):
        if abs(r['residuals'][i] - raw[i] * w[i]) > 1e-7 * (1 + abs(raw[i])):
            return 'reported residual is not the weighted radial distance of the current parameters (stale cache)'
        v = [pts[i][0] - c[0], pts[i][1] - c[1]]
        d = math.hypot(*v)
        if d == 0:
            continue
        want = [-v[0] / d * w[i], -v[1] / d * w[i], -w[i]]
        if any(abs(x - y) > 1e-7 for x, y in zip(r['jacobian'][i], want)):
            return 'jacobian row is not the derivative of the weighted residual'
    return False


JUDGES = {'polynomial.least_squares': j_poly, 'best_fit_line': j_line, 'from_3_points': j_three, 'circle_fit': j_circle_fit}

UNITS = {
    'quick': [('u_poly', {'K': 2}), ('u_poly', {'K': 3}), ('u_poly', {'K': 2, 'weighted': True}), ('u_poly', {'K': 3, 'weighted': True}), ('u_poly', {'K': 2, 'n': 3, 'end_to_end': True}),
              ('u_best_fit_line', {'n': 3})] + [('u_three_points', {'d1': a, 'd2_': b}) for a, b in ((0, 1), (0, 4), (4, 6), (1, 2), (5, 3), (0, 2))] + [
              ('u_circle_fit', {'dirs': (0, 1, 4)}), ('u_circle_fit', {'dirs': (0, 1, 4), 'update': True}), ('u_circle_fit', {'dirs': (0, 2, 5), 'gaussian': True})],
    'thorough': [('u_poly', {'K': k, 'weighted': w}) for k in (2, 3, 4, 5, 6) for w in (False, True)] + [('u_poly', {'K': 2, 'n': 3, 'end_to_end': True}), ('u_poly', {'K': 2, 'n': 4, 'end_to_end': True}),
                 ('u_poly', {'K': 3, 'n': 4, 'end_to_end': True}), ('u_best_fit_line', {'n': 3}), ('u_best_fit_line', {'n': 4}), ('u_three_points', {})] + [('u_three_points', {'d1': a, 'd2_': b}) for a in range(8) for b in range(8) if a != b] +
                [('u_circle_fit', {'dirs': d, 'gaussian': g, 'update': u}) for d in ((0, 1, 4), (0, 2, 5), (1, 6, 7), (0, 1, 2, 3)) for g in (False, True) for u in (False, True)],
}


def run(v, tier, seed, only=None):
    jobs = [(MOD, f, k) for (f, k) in UNITS[tier] if not only or only in f or only in str(k)]
    res = run_jobs(jobs, seed=seed, procs=14, timeout_s=900 if tier == 'quick' else 3000)
    fold_results(v, res, JUDGES, 'C09')
