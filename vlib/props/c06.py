"""C06 - line / polyline intersection search is complete and sound (engine M).

* cast_ray (the hand-written 4-wide slab test) is executed from MIR on four independent symbolic boxes and a symbolic ray; the
  pruning obligation is posed with a witness: whenever some point origin + t*dir (any real t, negative included) lies in the box of
  a lane, that lane's mask must be true.  This is the statement the tree search needs for *every* tree shape.
* ray_intersect_with_edge / intersection_param: Some(t) is a point of the named edge, None only when there is no crossing.
* polyline_intersections, spanning_ray, max_intersection, farthest_point_direction_distance and the Curve2 entry points are
  executed from MIR on small polylines, with parry's Qbvh traversal replaced by its contract (mirsym/ext_simd.py) and engeom's own
  visitor run from MIR on the nodes, and compared with the exhaustive per-edge computation done in the driver."""
import z3
from fractions import Fraction
from mirsym.driver import *
from mirsym.vals import *
from mirsym.ext import pt, vec_of, unref, items_of
from mirsym.ext_simd import Lanes, simd_aabb
from mirsym.ext_na import unit as unit_val

from .geomlib import rat, sq, bounded, DIRS2, NORM2, unit2, B, chain2, points_vec

MOD = 'vlib.props.c06'
R_ = z3.Real
# the code's literals 1e-12 / 1e-8 are the nearest f64 values, not the decimal fractions
# (engine M reads the MIR text of the literal; the three readings differ by < 1e-16 relative, so every comparison below leaves a
# hair of 1e-9 relative around the threshold: a determinant or a gap inside that hair is a rounding question, outside the claim)
EPS_DET = z3.RealVal(str(Fraction(1e-12)))
EPS_DUP = z3.RealVal(str(Fraction(1e-8)))
HAIR_UP, HAIR_DN = rat('1000000001/1000000000'), rat('999999999/1000000000')


def zabs(x):
    return z3.If(x >= 0, x, -x)


# ------------------------------------------------------------------------------------------------ cast_ray
def u_cast_ray(dirkind='general'):
    o = [R_('ox'), R_('oy')]
    if dirkind == 'general':
        d = [R_('dx'), R_('dy')]
        base = bounded(*d) + [d[0] != 0, d[1] != 0]       # zero components: the vertical / horizontal / zero units
    elif dirkind == 'vertical':
        d = [rat(0), R_('dy')]
        base = bounded(d[1]) + [d[1] != 0]
    elif dirkind == 'horizontal':
        d = [R_('dx'), rat(0)]
        base = bounded(d[0]) + [d[0] != 0]
    else:
        d = [rat(0), rat(0)]
        base = []
    t = R_('t')
    boxes = [([R_(f'b{k}minx'), R_(f'b{k}miny')], [R_(f'b{k}maxx'), R_(f'b{k}maxy')]) for k in range(4)]
    base += bounded(*o) + [z3.And(t >= -1000000, t <= 1000000)]
    for mn, mx in boxes:
        base += bounded(*(mn + mx)) + [mn[0] <= mx[0], mn[1] <= mx[1]]

    def make(eng):
        ray = Struct('SimdRay', [pt([Lanes([c] * 4) for c in o]), [Lanes([c] * 4) for c in d]])
        return [Ref.to(simd_aabb(boxes)), Ref.to(ray)], None

    def post(eng, c, ret):
        mask = ret[0]
        obs = []
        p = [o[i] + t * d[i] for i in range(2)]
        for k, (mn, mx) in enumerate(boxes):
            inside = z3.And(mn[0] <= p[0], p[0] <= mx[0], mn[1] <= p[1], p[1] <= mx[1])
            mk = mask[k] if is_sym(mask[k]) else z3.BoolVal(bool(mask[k]))
            obs.append(holds(f'lane {k}: a box that the line passes through (any parameter, negative included) is never pruned', z3.Implies(inside, mk)))
        return obs

    inp = {'ox': o[0], 'oy': o[1], 't': t}
    for k, (mn, mx) in enumerate(boxes):
        inp.update({f'b{k}minx': mn[0], f'b{k}miny': mn[1], f'b{k}maxx': mx[0], f'b{k}maxy': mx[1]})
    if is_sym(d[0]):
        inp['dx'] = d[0]
    if is_sym(d[1]):
        inp['dy'] = d[1]
    return Unit(f'cast_ray[{dirkind}]', 'polyline2::cast_ray', make, post, base=base, inputs=inp,
                replay=('cast_ray', lambda mm: {'boxes': [[[mm[f'b{k}minx'], mm[f'b{k}miny']], [mm[f'b{k}maxx'], mm[f'b{k}maxy']]] for k in range(4)], 'origin': [mm['ox'], mm['oy']],
                                                'dir': [mm.get('dx', 0.0), mm.get('dy', 0.0)], 't': mm['t']}),
                bounds={'boxes': 'four independent boxes, mins <= maxs, |coords| <= 1e3', 'ray': f'origin |coords| <= 1e3, direction {dirkind} (|components| <= 1e3' + (', both non-zero)' if dirkind == 'general' else ')'), 'witness parameter': '|t| <= 1e6'},
                assumptions=['f64 as exact reals: reciprocal overflow for sub-normal direction components is outside engine M (see the K harness / known findings)',
                             'AutoSimd lanes are independent (simba contract)'], timeout_ms=20000)


def j_cast_ray(o, rep, out):
    if 'ok' not in out:
        return 'panic'
    a = rep['args']
    t = a['t']
    p = [a['origin'][i] + t * a['dir'][i] for i in range(2)]
    for k, (mn, mx) in enumerate(a['boxes']):
        # strictly inside with a margin, so that rounding of the witness point cannot create the finding
        m = 1e-9 * (1 + abs(p[0]) + abs(p[1]))
        if mn[0] + m <= p[0] <= mx[0] - m and mn[1] + m <= p[1] <= mx[1] - m and not out['ok']['mask'][k]:
            return 'a box crossed by the line is pruned' + (' (zero direction component)' if 0.0 in a['dir'] else '')
        if mn[0] <= p[0] <= mx[0] and mn[1] <= p[1] <= mx[1] and not out['ok']['mask'][k] and (a['dir'][0] == 0 or a['dir'][1] == 0):
            return 'a box crossed by the line is pruned (zero direction component)'
    return False


# ------------------------------------------------------------------------------------------------ one edge
def edge_terms(v0, v1, o, d):
    """(det, num0, num1): t_ray = num0/det, t_edge = num1/det"""
    e = [v1[0] - v0[0], v1[1] - v0[1]]
    det = e[0] * d[1] - e[1] * d[0]
    dx, dy = v0[0] - o[0], v0[1] - o[1]
    return det, dy * e[0] - dx * e[1], dy * d[0] - dx * d[1]


def crossing(det, num1, strong=True):
    """the line crosses the closed edge (edge parameter in [0, 1]) and is not parallel to it.  strong: the determinant is clearly
    above the parallel threshold (used where a crossing is demanded); weak: clearly not below it (used where one is reported)"""
    return z3.And(zabs(det) >= EPS_DET * (HAIR_UP if strong else HAIR_DN), z3.If(det > 0, z3.And(num1 >= 0, num1 <= det), z3.And(num1 <= 0, num1 >= det)))


def u_edge(dirn=4, raydir=1):
    v0 = [R_('v0x'), R_('v0y')]
    k = R_('k')
    v1 = [v0[i] + unit2(dirn)[i] * k for i in range(2)]
    o = [R_('ox'), R_('oy')]
    if raydir is None:
        d = [R_('dx'), R_('dy')]
        base = bounded(*d) + [z3.Or(d[0] != 0, d[1] != 0)]
    else:
        d = unit2(raydir)
        base = []
    base += bounded(*(v0 + o)) + [k >= rat('1/1000'), k <= B]

    def make(eng):
        line = Struct('Polyline', [VecV([pt(list(v0)), pt(list(v1))]), En('None')])
        return [Ref.to(line), Ref.to(Struct('Ray', [pt(list(o)), list(d)])), 0], None

    def post(eng, c, ret):
        det, n0, n1 = edge_terms(v0, v1, o, d)
        cr = crossing(det, n1)
        if ret.v == 'None':
            return [holds('None only when the line does not cross the closed edge', z3.Not(cr))]  # cr is the strong form
        t = ret.f[0]
        obs = [finite('finite parameter', [[t]]), holds('Some only when the line crosses the closed edge (edge parameter in [0, 1])', crossing(det, n1, strong=False))]
        if not poisoned([[t]]):
            obs.append(eq('the reported parameter gives a point on the edge line', t * det, n0, scale=4 * B * B))
        return obs

    inp = {'v0x': v0[0], 'v0y': v0[1], 'k': k, 'ox': o[0], 'oy': o[1]}
    if raydir is None:
        inp.update({'dx': d[0], 'dy': d[1]})

    def rep(mm):
        dd = [mm['dx'], mm['dy']] if raydir is None else [float(x) / NORM2[raydir] for x in DIRS2[raydir]]
        return {'points': [[mm['v0x'], mm['v0y']], [mm['v0x'] + float(DIRS2[dirn][0]) / NORM2[dirn] * mm['k'], mm['v0y'] + float(DIRS2[dirn][1]) / NORM2[dirn] * mm['k']]],
                'origin': [mm['ox'], mm['oy']], 'dir': dd}

    return Unit(f'edge[{DIRS2[dirn]},ray={"general" if raydir is None else DIRS2[raydir]}]', 'ray_intersect_with_edge', make, post, base=base, known_pos=[k], inputs=inp,
                replay=('line_polyline', rep), bounds={'edge': 'direction class x length in [1e-3, 1e3]', 'ray': 'any origin, ' + ('any non-zero direction' if raydir is None else 'direction class')})


# ------------------------------------------------------------------------------------------------ whole polylines
def hits_obligations(tag, hits, verts, o, d, check_idx=True):
    """hits = [(t, idx)]: sound, complete, ascending, no duplicates against the exhaustive per-edge computation"""
    ne = len(verts) - 1
    terms = [edge_terms(verts[i], verts[i + 1], o, d) for i in range(ne)]
    obs = []
    for j, (t, idx) in enumerate(hits):
        if check_idx:
            idx = int(as_fraction(idx))
            obs.append(holds(f'{tag}hit {j}: edge index in range', z3.BoolVal(0 <= idx < ne)))
            if not 0 <= idx < ne:
                continue
            det, n0, n1 = terms[idx]
            obs.append(holds(f'{tag}hit {j}: the named edge is crossed (edge parameter in [0, 1])', crossing(det, n1, strong=False)))
            obs.append(eq(f'{tag}hit {j}: the parameter gives a point on the named edge', t * det, n0, scale=4 * B * B))
        else:
            obs.append(holds(f'{tag}hit {j}: the parameter is a crossing of some edge', z3.Or([z3.And(crossing(det, n1, strong=False), zabs(t * det - n0) <= EPS_DUP * HAIR_UP * zabs(det)) for det, n0, n1 in terms])))
    for i, (det, n0, n1) in enumerate(terms):
        found = z3.Or([zabs(t * det - n0) < EPS_DUP * HAIR_UP * zabs(det) for (t, _i) in hits]) if hits else z3.BoolVal(False)
        obs.append(holds(f'{tag}edge {i}: a crossing is never missed', z3.Implies(crossing(det, n1), found)))
    for j in range(len(hits) - 1):
        obs.append(holds(f'{tag}hits {j},{j + 1}: ascending without duplicates', hits[j + 1][0] - hits[j][0] >= EPS_DUP * HAIR_DN))
    return obs


def u_poly(pattern=(0, 1), raydir=1, closed=False):
    n = len(pattern) + 1
    pts, ks, base, kp = chain2(n, pattern)
    base = base + [k >= rat('1/1000') for k in ks]
    if closed:
        base += [pts[-1][c] == pts[0][c] for c in range(2)]
    o = [R_('ox'), R_('oy')]
    d = unit2(raydir)
    base += bounded(*o)
    M = get_mir()
    fns = {k: M.resolve(k) for k in ('polyline_intersections', 'spanning_ray', 'max_intersection', 'farthest_point_direction_distance')}

    def composite(eng, _a):
        line = Struct('Polyline', [points_vec(pts), En('None')])
        ray = Struct('Ray', [pt(list(o)), list(d)])
        out = {'hits': eng.run_fn(fns['polyline_intersections'], [Ref.to(line), Ref.to(ray)])}
        out['span'] = eng.run_fn(fns['spanning_ray'], [Ref.to(line), Ref.to(ray)])
        out['max'] = eng.run_fn(fns['max_intersection'], [Ref.to(line), Ref.to(ray)])
        out['far'] = eng.run_fn(fns['farthest_point_direction_distance'], [Ref.to(line), Ref.to(ray)])
        return out

    def post(eng, c, r):
        hits = [(num(h[0]), h[1]) for h in items_of(r['hits'])]
        obs = [finite('finite parameters', [[t for t, _ in hits]])]
        if poisoned([[t for t, _ in hits]]):
            return obs
        obs += hits_obligations('', hits, pts, o, d)
        sp = r['span']
        obs.append(holds('a spanning ray is produced exactly when there are two crossings', z3.BoolVal((sp.v == 'Some') == (len(hits) == 2))))
        if sp.v == 'Some' and len(hits) >= 2:
            ray = sp.f[0][0]
            so, sd = vec_of(ray[0]), vec_of(ray[1])
            t0, t1 = hits[0][0], hits[-1][0]
            for i in range(2):
                obs.append(eq(f'spanning ray starts at the first crossing [{i}]', so[i], o[i] + t0 * d[i], scale=4 * B))
                obs.append(eq(f'spanning ray ends at the last crossing [{i}]', so[i] + sd[i], o[i] + t1 * d[i], scale=4 * B))
            obs.append(holds('spanning ray keeps the direction of the query line', sd[0] * d[0] + sd[1] * d[1] > 0))
        mx = r['max']
        obs.append(holds('largest intersection exists exactly when there is a crossing', z3.BoolVal((mx.v == 'Some') == (len(hits) > 0))))
        if mx.v == 'Some' and hits:
            obs.append(eq('largest intersection is the last crossing', mx.f[0], hits[-1][0], scale=4 * B))
        proj = [d[0] * (v[0] - o[0]) + d[1] * (v[1] - o[1]) for v in pts]
        far = r['far']
        obs.append(holds('farthest projected vertex: no vertex projects farther', z3.And([far >= p_ - rat('1/1000000') for p_ in proj])))
        obs.append(holds('farthest projected vertex: attained by a vertex', z3.Or([zabs(far - p_) <= rat('1/1000000') for p_ in proj])))
        return obs

    def rep(mm):
        p = [[mm['p0x'], mm['p0y']]]
        for i, dd in enumerate(pattern):
            p.append([p[-1][k] + float(DIRS2[dd][k]) / NORM2[dd] * mm[f'plen{i}'] for k in range(2)])
        if closed:
            p[-1] = list(p[0])
        return {'points': p, 'origin': [mm['ox'], mm['oy']], 'dir': [float(x) / NORM2[raydir] for x in DIRS2[raydir]]}

    inp = {'p0x': pts[0][0], 'p0y': pts[0][1], 'ox': o[0], 'oy': o[1]}
    inp.update({f'plen{i}': ks[i] for i in range(len(ks))})
    return Unit(f'polyline[{[DIRS2[x] for x in pattern]},{"closed" if closed else "open"},ray={DIRS2[raydir]}]', composite, lambda eng: ([], None), post, base=base, known_pos=kp, inputs=inp,
                replay=('line_polyline', rep), loop_budget=64 + 16 * n, max_paths=20000,
                bounds={'edges': f'{n - 1}, direction classes x symbolic length in [1e-3, 1e3]', 'line': 'any origin (|coords| <= 1e3), direction class (axis-parallel included), negative parameters included',
                        'tree': 'one Qbvh shape per edge count (leaves of 4 edges); other shapes rest on the cast_ray units and on parry keeping node boxes around their subtrees'},
                assumptions=['parry Qbvh::traverse_depth_first contract (mirsym/ext_simd.py)', 'parry Polyline::new stores the vertex list'], timeout_ms=20000)


def j_poly(o, rep, out):
    """exhaustive per-edge computation in exact rational arithmetic on the replayed floats, against the real build's answer"""
    if 'ok' not in out:
        return 'panic'
    a, r = rep['args'], out['ok']
    F = Fraction
    P = [[F(x) for x in p] for p in a['points']]
    o_, d = [F(x) for x in a['origin']], [F(x) for x in a['dir']]
    ex = []
    for i in range(len(P) - 1):
        e = [P[i + 1][0] - P[i][0], P[i + 1][1] - P[i][1]]
        det = e[0] * d[1] - e[1] * d[0]
        if abs(det) < F(1, 10 ** 12):
            continue
        dx, dy = P[i][0] - o_[0], P[i][1] - o_[1]
        t0, t1 = (dy * e[0] - dx * e[1]) / det, (dy * d[0] - dx * d[1]) / det
        # crossings whose edge parameter is within rounding of the ends are not used to claim a miss
        ex.append((t0, t1, i))
    hits = r['hits']
    if any(isinstance(h[0], str) for h in hits):
        return 'non-finite parameter'
    tol = 1e-7
    for (t0, t1, i) in ex:
        if 0 <= t1 <= 1 and not any(abs(h[0] - float(t0)) < tol * (1 + abs(float(t0))) for h in hits):
            if (t1 == 0 or t1 == 1) or (F(1, 10 ** 9) < t1 < 1 - F(1, 10 ** 9)):
                return 'a crossing is missed' + (' (line through the end vertex of an edge)' if t1 in (0, 1) else ' (zero direction component)' if 0 in d else '')
    for h in hits:
        if not any(i == h[1] and -1e-9 <= float(t1) <= 1 + 1e-9 and abs(h[0] - float(t0)) < tol * (1 + abs(float(t0))) for (t0, t1, i) in ex):
            return 'a reported parameter is not a crossing of the named edge'
    for x, y in zip(hits, hits[1:]):
        if not y[0] > x[0]:
            return 'list not ascending / duplicates'
    if (r['spanning'] is not None) != (len(hits) == 2):
        return 'spanning ray not produced exactly for two crossings'
    if (r['max'] is not None) != (len(hits) > 0) or (hits and abs(r['max'] - hits[-1][0]) > 1e-9 * (1 + abs(hits[-1][0]))):
        return 'largest intersection is not the last crossing'
    if r['spanning'] is not None and len(hits) == 2:
        so, sd = r['spanning']['origin'], r['spanning']['dir']
        for i in range(2):
            if abs(so[i] - float(o_[i] + F(hits[0][0]) * d[i])) > 1e-6 * (1 + abs(so[i])) or abs(so[i] + sd[i] - float(o_[i] + F(hits[1][0]) * d[i])) > 1e-6 * (1 + abs(so[i])):
                return 'spanning ray does not start / end on the curve'
    far = max(float(d[0] * (p[0] - o_[0]) + d[1] * (p[1] - o_[1])) for p in P) / float((d[0] ** 2 + d[1] ** 2)) ** 0.5
    if abs(r['farthest'] - far) > 1e-6 * (1 + abs(far)):
        return 'farthest projected vertex is wrong'
    if 'curve_hits' in r:
        if [h[0] for h in r['curve_hits']] != [h[0] for h in hits] or r['curve_spanning'] != (r['spanning'] is not None):
            return 'Curve2 entry points disagree with the polyline functions'
        if len(r['curve_sp_hits']) != len(hits) or any(abs(x - h[0]) > 1e-7 * (1 + abs(h[0])) for x, h in zip(r['curve_sp_hits'], hits)):
            return 'surface-point intersection disagrees with the line intersections'
    return False


def u_curve(pattern=(0, 1), raydir=4):
    """Curve2 entry points (ray_intersections, try_create_spanning_ray, Intersection<&SurfacePoint2>) agree with the exhaustive computation"""
    from .c01 import setup
    n = len(pattern) + 1
    tol, pts, ks, base, kp = setup(n, pattern, 2, 'open')
    base = base + [k >= rat('1/1000') for k in ks]
    o = [R_('ox'), R_('oy')]
    d = unit2(raydir)
    base += bounded(*o)

    def composite(eng, _a):
        r = eng.call('Curve2::from_points', [Ref.to(points_vec(pts)), tol, False])
        if r.v != 'Ok':
            return {'curve': None}
        c = r.f[0]
        ray = Struct('Ray', [pt(list(o)), list(d)])
        out = {'curve': c, 'hits': eng.call('Curve2::ray_intersections', [Ref.to(c), Ref.to(ray)])}
        out['span'] = eng.call('Curve2::try_create_spanning_ray', [Ref.to(c), Ref.to(ray)])
        out['sp'] = eng.call('<Curve2 as Intersection<&SurfacePoint2, Vec<f64>>>::intersection', [Ref.to(c), Ref.to(Struct('SurfacePoint', [pt(list(o)), unit_val(list(d))]))])
        return out

    def post(eng, c, r):
        if r['curve'] is None:
            return [holds('construction succeeds', z3.BoolVal(False))]
        hits = [(num(h[0]), h[1]) for h in items_of(r['hits'])]
        obs = hits_obligations('ray_intersections: ', hits, pts, o, d)
        obs.append(holds('try_create_spanning_ray: produced exactly when there are two crossings', z3.BoolVal((r['span'].v == 'Some') == (len(hits) == 2))))
        sp = [(num(t), None) for t in items_of(r['sp'])]
        obs += hits_obligations("surface point's normal line: ", sp, pts, o, d, check_idx=False)
        return obs

    def rep(mm):
        p = [[mm['p0x'], mm['p0y']]]
        for i, dd in enumerate(pattern):
            p.append([p[-1][k] + float(DIRS2[dd][k]) / NORM2[dd] * mm[f'plen{i}'] for k in range(2)])
        return {'points': p, 'origin': [mm['ox'], mm['oy']], 'dir': [float(x) / NORM2[raydir] for x in DIRS2[raydir]], 'tol': mm['tol']}

    inp = {'p0x': pts[0][0], 'p0y': pts[0][1], 'ox': o[0], 'oy': o[1], 'tol': tol}
    inp.update({f'plen{i}': ks[i] for i in range(len(ks))})
    return Unit(f'curve_api[{[DIRS2[x] for x in pattern]},ray={DIRS2[raydir]}]', composite, lambda eng: ([], None), post, base=base, known_pos=kp, inputs=inp, replay=('line_polyline', rep),
                loop_budget=64 + 16 * n, max_paths=20000, bounds={'edges': n - 1, 'line': 'any origin, direction class'},
                assumptions=['parry Qbvh::traverse_depth_first contract (mirsym/ext_simd.py)'], timeout_ms=20000)


JUDGES = {'cast_ray': j_cast_ray, 'edge': j_poly, 'polyline': j_poly, 'curve_api': j_poly}

UNITS = {
    'quick': [('u_cast_ray', {'dirkind': k}) for k in ('general', 'vertical', 'horizontal', 'zero')] +
             [('u_edge', {'dirn': a, 'raydir': b}) for (a, b) in ((4, 1), (0, 1), (1, 1), (6, 0), (5, None), (0, None))] +
             [('u_poly', {'pattern': p, 'raydir': r, 'closed': c}) for (p, r, c) in (((0, 1), 1, False), ((0, 1), 0, False), ((1, 7, 1), 0, False), ((0, 5), 4, False), ((4, 3), 1, False),
                                                                                   ((0, 1, 2, 3), 1, True), ((1, 7, 1), 5, False), ((0, 1, 2), 3, False), ((0, 1, 0, 1, 0), 1, False), ((0, 1, 0, 1, 0), 0, False))] +
             [('u_curve', {'pattern': (0, 1), 'raydir': 4}), ('u_curve', {'pattern': (1, 7), 'raydir': 1})],
    'thorough': [('u_cast_ray', {'dirkind': k}) for k in ('general', 'vertical', 'horizontal', 'zero')] +
                [('u_edge', {'dirn': a, 'raydir': b}) for a in range(8) for b in (0, 1, 4, 6, None)] +
                [('u_poly', {'pattern': p, 'raydir': r, 'closed': False}) for p in ((0, 1), (1, 7, 1), (0, 5), (4, 3), (0, 1, 2), (1, 7, 1, 7), (0, 5, 0, 6), (0, 1, 0, 1, 0)) for r in (0, 1, 2, 3, 4, 6)] + [('u_poly', {'pattern': (1, 7, 1, 7, 1), 'raydir': 0, 'closed': False})] +
                [('u_poly', {'pattern': (0, 1, 2, 3), 'raydir': r, 'closed': True}) for r in (0, 1, 4, 7)] +
                [('u_curve', {'pattern': p, 'raydir': r}) for p in ((0, 1), (1, 7), (4, 0, 5)) for r in (0, 1, 4)],
}


def run(v, tier, seed, only=None):
    jobs = [(MOD, f, k) for (f, k) in UNITS[tier] if not only or any(o in f for o in only.split(','))]
    res = run_jobs(jobs, seed=seed, procs=14, timeout_s=900 if tier == 'quick' else 3000)
    fold_results(v, res, JUDGES, 'C06')
