"""C12 - mesh connectivity results are exact partitions and always terminate (engine M; integer-only queries,
hash containers as sets with symbolic iteration order)."""
import itertools
import z3
from mirsym.driver import *
from mirsym.vals import *
from mirsym.ext import pt, vec_of, unref, items_of

MOD = 'vlib.props.c12'
I = z3.Int


def cnt(conds):
    return z3.Sum([z3.If(c, 1, 0) for c in conds]) if conds else z3.IntVal(0)


def ival(x):
    return x if is_sym(x) else z3.IntVal(int(x))


# ------------------------------------------------------------------------------------------------ index chaining
def u_chain(n=3, ids=None):
    ids = ids or (n + 2)
    P = [[I(f'p{i}a'), I(f'p{i}b')] for i in range(n)]
    base = [z3.And(v >= 0, v < ids) for p in P for v in p]
    # a pair is a segment between two different vertices, and no segment is listed twice (either orientation)
    base += [p[0] != p[1] for p in P]
    for i in range(n):
        for j in range(i + 1, n):
            base.append(z3.Not(z3.Or(z3.And(P[i][0] == P[j][0], P[i][1] == P[j][1]), z3.And(P[i][0] == P[j][1], P[i][1] == P[j][0]))))

    def make(eng):
        return [Ref.to(VecV([[p[0], p[1]] for p in P]))], None

    def post(eng, c, ret):
        chains = [[ival(x) for x in ch.items] for ch in ret.items]
        obs = [holds('every chain has at least two vertices', all(len(ch) >= 2 for ch in chains))]
        steps = [(ch[i], ch[i + 1]) for ch in chains for i in range(len(ch) - 1)]
        obs.append(holds('as many chain steps as input pairs', len(steps) == n))
        # every input pair is one chain step in its own orientation, exactly once (multiset equality)
        for i, p in enumerate(P):
            same_in = cnt([z3.And(q[0] == p[0], q[1] == p[1]) for q in P])
            same_out = cnt([z3.And(a == p[0], b == p[1]) for (a, b) in steps])
            obs.append(holds(f'pair {i} used exactly once, in its own orientation', same_in == same_out))
        # maximality: a vertex with exactly one incoming and one outgoing pair is interior to a chain (or the seam of a closed one)
        for v in range(ids):
            n_in = cnt([p[1] == v for p in P])
            n_out = cnt([p[0] == v for p in P])
            interior = []
            for ch in chains:
                for i in range(1, len(ch) - 1):
                    interior.append(ch[i] == v)
                if len(ch) >= 3:
                    interior.append(z3.And(ch[0] == v, ch[-1] == v))
            obs.append(holds(f'vertex {v} with one pair in and one out is interior to a chain', z3.Implies(z3.And(n_in == 1, n_out == 1), z3.Or(interior) if interior else z3.BoolVal(False))))
        return obs

    return Unit(f'chained_indices[n={n}]', 'indices::chained_indices', make, post, base=base,
                inputs={f'p{i}{s}': P[i][k] for i in range(n) for k, s in enumerate('ab')},
                replay=('chained_indices', lambda m: {'pairs': [[int(m[f'p{i}a']), int(m[f'p{i}b'])] for i in range(n)]}),
                loop_budget=4 * n + 6, bounds={'pairs': n, 'vertex ids': f'0..{ids - 1}', 'loop budget': 4 * n + 6},
                assumptions=['pairs join two different vertices and no segment is listed twice (as parry\'s plane/mesh intersection produces them)'], max_paths=60000, int_only=True)


def j_chain(o, rep, out):
    if 'timeout' in out:
        return 'does not terminate'
    if 'panic' in out:
        return 'panic'
    pairs = rep['args']['pairs']
    chains = out['ok']
    steps = [(c[i], c[i + 1]) for c in chains for i in range(len(c) - 1)]
    if sorted(map(tuple, pairs)) != sorted(steps):
        return 'chain steps differ from the input pairs'
    ids = set(x for p in pairs for x in p)
    for v in ids:
        if sum(1 for p in pairs if p[1] == v) == 1 and sum(1 for p in pairs if p[0] == v) == 1:
            ok = any(v in c[1:-1] for c in chains) or any(len(c) >= 3 and c[0] == v and c[-1] == v for c in chains)
            if not ok:
                return 'chains are not maximal'
    return False


# ------------------------------------------------------------------------------------------------ edge table / boundary loops
def sym_faces(F, V):
    Fs = [[I(f'f{i}{k}') for k in range(3)] for i in range(F)]
    base = [z3.And(v >= 0, v < V) for f in Fs for v in f]
    base += [z3.Distinct(*f) for f in Fs]
    return Fs, base


def und(a, b, c, d):
    return z3.Or(z3.And(a == c, b == d), z3.And(a == d, b == c))


# contact configurations of a small face list (letters are pairwise distinct symbolic vertex ids, so every relative order
# of the labels is covered); 'general' = unconstrained ids (only feasible for one face)
TEMPLATES = {
    'one': ['abc'],
    'disjoint': ['abc', 'def'],
    'vertex_contact': ['abc', 'ade'],
    'vertex_contact_rot': ['abc', 'dae'],
    'shared_edge': ['abc', 'bad'],
    'shared_edge_rot': ['abc', 'dba'],
    'shared_edge_flipped': ['abc', 'abd'],
    'pillow': ['abc', 'acb'],
    'same_face_twice': ['abc', 'abc'],
    'strip3': ['abc', 'bad', 'dae'],
    'strip3_flipped': ['abc', 'abd', 'dae'],
    'two_components': ['abc', 'bad', 'efg'],
    'fan3_closed': ['abc', 'acd', 'adb'],
    'fan3_flipped': ['abc', 'adc', 'ade'],
    'tetra_flipped': ['abc', 'bad', 'cbd', 'adc'],
    'bowtie3': ['abc', 'ade', 'afg'],
    'edge_three_times': ['abc', 'abd', 'abe'],
    'tetra': ['abc', 'bad', 'cbd', 'acd'],
}


def template_faces(name):
    t = TEMPLATES[name]
    letters = sorted(set(''.join(t)))
    ids = {l: I('v_' + l) for l in letters}
    V = len(letters)
    base = [z3.And(v >= 0, v < V) for v in ids.values()] + ([z3.Distinct(*ids.values())] if len(ids) > 1 else [])
    return [[ids[ch] for ch in f] for f in t], base, V, ids


def u_edges(F=2, V=None, contact=None, template=None, ordered=False):
    if template:
        Fs, base, V, _ids = template_faces(template)
        F = len(Fs)
        if ordered:
            # labels increase in the order of their first appearance in the face list (one label order per template instead of all
            # relative orders; a stated bound, always satisfiable)
            seen = []
            for ch in ''.join(TEMPLATES[template]):
                if ch not in seen:
                    seen.append(ch)
            base += [_ids[x] < _ids[y] for x, y in zip(seen, seen[1:])]
    else:
        V = V or max(3, 3 * F - 1)
        Fs, base = sym_faces(F, V)
    dir_edges = [(f[1], f[2], i) for i, f in enumerate(Fs)] + [(f[2], f[0], i) for i, f in enumerate(Fs)] + [(f[0], f[1], i) for i, f in enumerate(Fs)]

    def mult(a, b):
        return cnt([und(a, b, c, d) for (c, d, _i) in dir_edges])

    manifold = z3.And([mult(a, b) <= 2 for (a, b, _i) in dir_edges])
    # consistently wound: no directed edge is used twice.  For inconsistent winding the property only asks that the
    # computation finishes (directed boundary cycles need not exist), so the exactness clauses are guarded by this.
    consistent = z3.And([z3.Not(z3.And(dir_edges[i][0] == dir_edges[j][0], dir_edges[i][1] == dir_edges[j][1]))
                         for i in range(len(dir_edges)) for j in range(i + 1, len(dir_edges))])

    def make(eng):
        return [Ref.to(VecV([[f[0], f[1], f[2]] for f in Fs]))], None

    def post(eng, c, ret):
        obs = []
        if ret.v == 'Err':
            obs.append(holds('Err only for an edge shared by more than two faces', z3.Not(manifold)))
            return obs
        obs.append(holds('Ok only for manifold input', manifold))
        edges, face_edges, loops = ret.f[0]
        E = [[ival(e[0]), ival(e[1])] for e in edges.items]
        # each undirected edge of the faces is listed exactly once, with its ends ordered
        for (a, b, _i) in dir_edges:
            obs.append(holds('every face edge is in the table exactly once', cnt([und(a, b, e[0], e[1]) for e in E]) == 1))
        for e in E:
            obs.append(holds('table edges are ordered and belong to a face', z3.And(e[0] < e[1], z3.Or([und(a, b, e[0], e[1]) for (a, b, _i) in dir_edges]))))
        for k in range(len(E) - 1):
            obs.append(holds('table is sorted', z3.Or(E[k][0] < E[k + 1][0], z3.And(E[k][0] == E[k + 1][0], E[k][1] < E[k + 1][1]))))
        # face -> its three edges (order: 1-2, 2-0, 0-1)
        for i, fe in enumerate(face_edges.items):
            f = Fs[i]
            for k, (a, b) in enumerate(((f[1], f[2]), (f[2], f[0]), (f[0], f[1]))):
                idx = fe[k]
                idx = idx if not is_sym(idx) else None
                if idx is None or not (0 <= idx < len(E)):
                    obs.append(holds(f'face {i} edge index in range', False))
                else:
                    obs.append(holds(f'face {i} maps to its own edges', und(a, b, E[idx][0], E[idx][1])))
        # boundary loops: every boundary edge exactly once over all loops, as consecutive (cyclic) vertices of closed cycles -
        # for consistent and inconsistent winding alike (the property names both)
        steps = []
        open_steps = []
        for lp in loops.items:
            L = [ival(x) for x in lp.items]
            for k in range(len(L)):
                steps.append((L[k], L[(k + 1) % len(L)]))
                if k + 1 < len(L):
                    open_steps.append((L[k], L[k + 1]))
            obs.append(holds('a loop has at least three vertices', z3.BoolVal(len(L) >= 3)))
        for (a, b, _i) in dir_edges:
            is_b = mult(a, b) == 1
            obs.append(holds('each boundary edge is in exactly one loop, once', z3.Implies(is_b, cnt([und(a, b, c, d) for (c, d) in steps]) == 1)))
        for (c, d) in open_steps:
            obs.append(holds('loop steps are boundary edges', z3.Or([z3.And(und(a, b, c, d), mult(a, b) == 1) for (a, b, _i) in dir_edges])))
        for (c, d) in steps:
            obs.append(holds('every step of a loop, the closing one included, is a boundary edge (closed vertex cycles)', z3.Or([z3.And(und(a, b, c, d), mult(a, b) == 1) for (a, b, _i) in dir_edges])))
        return obs

    nb = 2 * 3 * F + 4
    return Unit(f'identify_edges[{template or "general"}{",ordered" if ordered else ""},F={F},V={V}]', 'edges::identify_edges', make, post, base=base,
                inputs={f'f{i}{k}': Fs[i][k] for i in range(F) for k in range(3)},
                replay=('identify_edges', lambda m: {'faces': [[int(m[f'f{i}{k}']) for k in range(3)] for i in range(F)]}),
                loop_budgets={'boundary_loops': nb}, loop_budget=64,
                bounds={'faces': F, 'contact configuration': template or 'any', 'vertex ids': f'0..{V - 1} (symbolic, every relative order)', 'boundary_loops loop budget': nb, 'hash iteration order': 'symbolic (all orders)'},
                assumptions=['faces have three distinct vertices'], max_paths=40000, timeout_ms=10000, int_only=True)


def j_edges(o, rep, out):
    if 'timeout' in out:
        return 'boundary_loops does not terminate (faces touching at a single vertex)'
    if 'panic' in out:
        return 'panic'
    fs = rep['args']['faces']
    r = out['ok']
    und_ = lambda a, b: (min(a, b), max(a, b))
    de = [und_(f[1], f[2]) for f in fs] + [und_(f[2], f[0]) for f in fs] + [und_(f[0], f[1]) for f in fs]
    from collections import Counter
    c = Counter(de)
    if 'err' in r:
        return False if max(c.values()) > 2 else 'Err for a manifold mesh'
    if max(c.values()) > 2:
        return 'Ok for a non-manifold mesh'
    if sorted(map(tuple, r['edges'])) != sorted(c.keys()) or [tuple(e) for e in r['edges']] != sorted(c.keys()):
        return 'edge table wrong'
    for i, f in enumerate(fs):
        want = [und_(f[1], f[2]), und_(f[2], f[0]), und_(f[0], f[1])]
        got = [tuple(r['edges'][k]) for k in r['face_edges'][i]]
        if want != got:
            return 'face to edge map wrong'
    dirs = Counter()
    for f in fs:
        for e in ((f[1], f[2]), (f[2], f[0]), (f[0], f[1])):
            dirs[e] += 1
    consistent = max(dirs.values()) <= 1
    steps = Counter()
    open_steps = []
    for L in r['loops']:
        for k in range(len(L)):
            steps[und_(L[k], L[(k + 1) % len(L)])] += 1
            if k + 1 < len(L):
                open_steps.append(und_(L[k], L[k + 1]))
    bnd = Counter({e: 1 for e, k in c.items() if k == 1})
    if any(e not in bnd for e in open_steps):
        return 'a loop runs along an edge that is not a boundary edge' + ('' if consistent else ' (inconsistent winding)')
    if any(steps[e] != 1 for e in bnd):
        return 'boundary loops do not cover the boundary edges exactly once' + ('' if consistent else ' (inconsistent winding)')
    if steps != bnd or any(len(L) < 3 for L in r['loops']):
        return 'boundary loops are not closed cycles of boundary edges' + ('' if consistent else ' (inconsistent winding)')
    return False


# ------------------------------------------------------------------------------------------------ patches
def mesh_val(Fs):
    faces = VecV([[f[0], f[1], f[2]] for f in Fs])
    return Struct('Mesh', [Struct('TriMesh', [Opaque('vertices'), faces]), False, En('None')])


def u_patches(F=2, V=None, template=None):
    if template:
        Fs, base, V, _ids = template_faces(template)
        F = len(Fs)
    else:
        V = V or max(3, 3 * F - 1)
        Fs, base = sym_faces(F, V)

    def share(i, j):
        ei = [(Fs[i][0], Fs[i][1]), (Fs[i][1], Fs[i][2]), (Fs[i][2], Fs[i][0])]
        ej = [(Fs[j][0], Fs[j][1]), (Fs[j][1], Fs[j][2]), (Fs[j][2], Fs[j][0])]
        return z3.Or([und(a, b, c, d) for (a, b) in ei for (c, d) in ej])

    # property domain: no edge shared by more than two faces
    dir_edges = [(f[1], f[2]) for f in Fs] + [(f[2], f[0]) for f in Fs] + [(f[0], f[1]) for f in Fs]
    base.append(z3.And([cnt([und(a, b, c, d) for (c, d) in dir_edges]) <= 2 for (a, b) in dir_edges]))

    def make(eng):
        return [Ref.to(mesh_val(Fs))], None

    def post(eng, c, ret):
        patches = [[x for x in p.items] for p in ret.items]
        flat = [x for p in patches for x in p]
        obs = [holds('every face is in exactly one patch', sorted(int(as_fraction(x)) for x in flat) == list(range(F)))]
        where = {}
        for k, p in enumerate(patches):
            for x in p:
                where[int(as_fraction(x))] = k
        if len(where) != F:
            return obs
        # connectivity through shared (either-direction) edges: transitive closure over <= F faces
        conn = [[share(i, j) if i != j else z3.BoolVal(True) for j in range(F)] for i in range(F)]
        for _ in range(F):
            conn = [[z3.Or([z3.And(conn[i][k], conn[k][j]) for k in range(F)]) for j in range(F)] for i in range(F)]
        for i in range(F):
            for j in range(i + 1, F):
                obs.append(holds(f'faces {i},{j} share a patch iff edge-connected', conn[i][j] == z3.BoolVal(where[i] == where[j])))
        return obs

    return Unit(f'patch_indices[{template or "general"},F={F},V={V}]', 'patches::compute_patch_indices', make, post, base=base,
                inputs={f'f{i}{k}': Fs[i][k] for i in range(F) for k in range(3)},
                replay=('patch_indices', lambda m: {'faces': [[int(m[f'f{i}{k}']) for k in range(3)] for i in range(F)]}),
                loop_budget=12 * F + 8, bounds={'faces': F, 'vertex ids': f'0..{V - 1}', 'hash iteration order': 'symbolic (all orders)'},
                assumptions=['faces have three distinct vertices; no edge shared by more than two faces; inconsistent winding allowed'], max_paths=40000, int_only=True)


def j_patches(o, rep, out):
    if 'timeout' in out:
        return 'does not terminate'
    if 'panic' in out:
        return 'panic'
    fs = rep['args']['faces']
    n = len(fs)
    und_ = lambda a, b: (min(a, b), max(a, b))
    es = [set([und_(f[0], f[1]), und_(f[1], f[2]), und_(f[2], f[0])]) for f in fs]
    parent = list(range(n))

    def find(x):
        while parent[x] != x:
            x = parent[x]
        return x
    for i in range(n):
        for j in range(i + 1, n):
            if es[i] & es[j]:
                parent[find(i)] = find(j)
    want = sorted(sorted(k for k in range(n) if find(k) == r) for r in set(find(k) for k in range(n)))
    got = sorted(sorted(p) for p in out['ok'])
    if got != want:
        flipped = any(len(es[i] & es[j]) > 0 and any((a, b) in [(fs[j][0], fs[j][1]), (fs[j][1], fs[j][2]), (fs[j][2], fs[j][0])] for (a, b) in [(fs[i][0], fs[i][1]), (fs[i][1], fs[i][2]), (fs[i][2], fs[i][0])]) for i in range(n) for j in range(i + 1, n))
        return 'faces sharing an edge in the same direction (inconsistent winding) end up in different patches' if flipped else 'patches are not the edge-connected components'
    return False


# ------------------------------------------------------------------------------------------------ voxel clusters
def u_clusters(n=2, W=3):
    Vx = [[I(f'v{i}{c}') for c in 'xyz'] for i in range(n)]
    base = [z3.And(c >= 0, c < W) for v in Vx for c in v]
    base += [z3.Or([Vx[i][k] != Vx[j][k] for k in range(3)]) for i in range(n) for j in range(i + 1, n)]

    def make(eng):
        return [MapV([([v[0], v[1], v[2]], None) for v in Vx], is_set=True)], None

    def adj(i, j):
        return z3.And([z3.And(Vx[i][k] - Vx[j][k] <= 1, Vx[j][k] - Vx[i][k] <= 1) for k in range(3)])

    def post(eng, c, ret):
        clusters = [[[ival(x) for x in vox] for vox in cl.items] for cl in ret.items]
        flat = [v for cl in clusters for v in cl]
        obs = [holds('as many voxels out as in', len(flat) == n)]
        for i in range(n):
            obs.append(holds(f'voxel {i} is in exactly one cluster', cnt([z3.And([v[k] == Vx[i][k] for k in range(3)]) for v in flat]) == 1))
        conn = [[adj(i, j) if i != j else z3.BoolVal(True) for j in range(n)] for i in range(n)]
        for _ in range(n):
            conn = [[z3.Or([z3.And(conn[i][k], conn[k][j]) for k in range(n)]) for j in range(n)] for i in range(n)]
        for i in range(n):
            for j in range(i + 1, n):
                same = z3.Or([z3.And(z3.Or([z3.And([v[k] == Vx[i][k] for k in range(3)]) for v in cl]), z3.Or([z3.And([v[k] == Vx[j][k] for k in range(3)]) for v in cl])) for cl in clusters])
                obs.append(holds(f'voxels {i},{j} share a cluster iff 26-connected', conn[i][j] == same))
        return obs

    return Unit(f'voxel_clusters[n={n}]', 'raster3::clusters_from_sparse', make, post, base=base,
                inputs={f'v{i}{c}': Vx[i][k] for i in range(n) for k, c in enumerate('xyz')},
                replay=('clusters', lambda m: {'voxels': [[int(m[f'v{i}{c}']) for c in 'xyz'] for i in range(n)]}),
                loop_budget=40 * n + 40, bounds={'voxels': n, 'window': f'{W}^3', 'hash iteration order': 'symbolic'}, max_paths=60000, int_only=True)


def j_clusters(o, rep, out):
    if 'timeout' in out:
        return 'does not terminate'
    if 'panic' in out:
        return 'panic'
    vs = [tuple(v) for v in rep['args']['voxels']]
    n = len(vs)
    parent = list(range(n))

    def find(x):
        while parent[x] != x:
            x = parent[x]
        return x
    for i in range(n):
        for j in range(i + 1, n):
            if all(abs(vs[i][k] - vs[j][k]) <= 1 for k in range(3)):
                parent[find(i)] = find(j)
    want = sorted(sorted(vs[k] for k in range(n) if find(k) == r) for r in set(find(k) for k in range(n)))
    got = sorted(sorted(tuple(v) for v in cl) for cl in out['ok'])
    return False if want == got else 'clusters are not the 26-connected components'


# ------------------------------------------------------------------------------------------------ generators
def winding_obligations(faces, verts=None, centre=None, axis_only=False):
    obs = []
    de = [(f[0], f[1]) for f in faces] + [(f[1], f[2]) for f in faces] + [(f[2], f[0]) for f in faces]
    from collections import Counter
    c = Counter(de)
    und_c = Counter((min(a, b), max(a, b)) for (a, b) in de)
    obs.append(holds('every edge is shared by exactly two faces or is a boundary edge', all(v <= 2 for v in und_c.values())))
    obs.append(holds('shared edges are traversed once in each direction (consistent winding)', all(c[(a, b)] <= 1 for (a, b) in de)))
    return obs


def u_box():
    w, h, d = z3.Real('w'), z3.Real('h'), z3.Real('d')
    base = [w > 0, h > 0, d > 0, w <= 1000, h <= 1000, d <= 1000]

    def make(eng):
        return [w, h, d], None

    def post(eng, c, ret):
        verts = [vec_of(p) for p in ret[0].items]
        faces = [[int(as_fraction(x)) for x in f] for f in ret[1].items]
        obs = winding_obligations(faces)
        obs.append(holds('a closed box has 12 faces and every edge twice', len(faces) == 12))
        n = len(verts)
        cx = [sum((v[k] for v in verts[1:]), verts[0][k]) / n for k in range(3)]
        for i, f in enumerate(faces):
            a, b, cc = verts[f[0]], verts[f[1]], verts[f[2]]
            u = [b[k] - a[k] for k in range(3)]
            v = [cc[k] - a[k] for k in range(3)]
            nrm = [u[1] * v[2] - u[2] * v[1], u[2] * v[0] - u[0] * v[2], u[0] * v[1] - u[1] * v[0]]
            out = sum(nrm[k] * (a[k] - cx[k]) for k in range(3))
            obs.append(holds(f'face {i} normal points away from the centre', out > 0))
        return obs

    return Unit('box_geom', 'mesh::box_geom', make, post, base=base, inputs={'w': w, 'h': h, 'd': d},
                replay=('box_geom', lambda m: {'w': m['w'], 'h': m['h'], 'd': m['d']}), bounds={'w,h,d': '(0, 1e3]'})


def j_box(o, rep, out):
    if 'ok' not in out:
        return 'panic'
    import numpy as np
    V = np.array(out['ok']['vertices'])
    c = V.mean(axis=0)
    from collections import Counter
    de = Counter()
    for f in out['ok']['faces']:
        for a, b in ((f[0], f[1]), (f[1], f[2]), (f[2], f[0])):
            de[(a, b)] += 1
        n = np.cross(V[f[1]] - V[f[0]], V[f[2]] - V[f[0]])
        if np.dot(n, V[f[0]] - c) <= 0:
            return 'box face normal points inward'
    if any(v > 1 for v in de.values()):
        return 'box winding inconsistent'
    return False


def u_cylinder(steps=4):
    r, h = z3.Real('r'), z3.Real('h')
    base = [r > 0, h > 0, r <= 1000, h <= 1000]
    captured = {}

    def obs_new(eng, callee, args):
        captured['verts'] = args[0]
        captured['faces'] = args[1]
        return Struct('Mesh', [Struct('TriMesh', [args[0], args[1]]), args[2], En('None')])

    def make(eng):
        captured.clear()
        return [r, h, steps], None

    def post(eng, c, ret):
        verts = [vec_of(p) for p in captured['verts'].items]
        faces = [[int(as_fraction(x)) for x in f] for f in captured['faces'].items]
        obs = winding_obligations(faces)
        obs.append(holds('two triangles per step', len(faces) == 2 * steps))
        if steps == 4:
            for i, f in enumerate(faces):
                a, b, cc = verts[f[0]], verts[f[1]], verts[f[2]]
                u = [b[k] - a[k] for k in range(3)]
                v = [cc[k] - a[k] for k in range(3)]
                nrm = [u[1] * v[2] - u[2] * v[1], u[2] * v[0] - u[0] * v[2], u[0] * v[1] - u[1] * v[0]]
                mid = [(a[k] + b[k] + cc[k]) for k in range(2)]
                obs.append(holds(f'side face {i} normal points away from the axis', nrm[0] * mid[0] + nrm[1] * mid[1] > 0))
        return obs

    return Unit(f'create_cylinder[steps={steps}]', 'Mesh::create_cylinder', make, post, base=base, inputs={'r': r, 'h': h},
                replay=('cylinder', lambda m: {'r': m['r'], 'h': m['h'], 'steps': steps}), observers={'Mesh::new': obs_new},
                bounds={'steps': steps, 'r,h': '(0, 1e3]'}, assumptions=['Mesh::new (parry TriMesh construction) stores vertices and faces unchanged'])


def j_cylinder(o, rep, out):
    if 'ok' not in out:
        return 'panic'
    import numpy as np
    V = np.array(out['ok']['vertices'])
    from collections import Counter
    de = Counter()
    inward = False
    for f in out['ok']['faces']:
        for a, b in ((f[0], f[1]), (f[1], f[2]), (f[2], f[0])):
            de[(a, b)] += 1
        n = np.cross(V[f[1]] - V[f[0]], V[f[2]] - V[f[0]])
        m = (V[f[0]] + V[f[1]] + V[f[2]])[:2]
        if np.dot(n[:2], m) <= 0:
            inward = True
    if any(v > 1 for v in de.values()) or inward:
        return 'cylinder: the two triangles of a quad are wound oppositely (one faces inward)'
    return False


JUDGES = {'chained_indices': j_chain, 'identify_edges': j_edges, 'patch_indices': j_patches, 'voxel_clusters': j_clusters, 'box_geom': j_box,
          'create_cylinder': j_cylinder}

UNITS = {
    'quick': [('u_chain', {'n': 2}), ('u_chain', {'n': 3}), ('u_edges', {'F': 1})] + [('u_edges', {'template': t}) for t in ('vertex_contact', 'vertex_contact_rot', 'shared_edge', 'shared_edge_flipped', 'pillow', 'fan3_flipped')] + [('u_edges', {'template': 'disjoint', 'ordered': True}), ('u_patches', {'F': 2}), ('u_patches', {'template': 'strip3'}), ('u_patches', {'template': 'strip3_flipped'}),
              ('u_clusters', {'n': 2}), ('u_box', {}), ('u_cylinder', {'steps': 3}), ('u_cylinder', {'steps': 4}), ('u_cylinder', {'steps': 5})],
    'thorough': [('u_chain', {'n': 2}), ('u_chain', {'n': 3}), ('u_chain', {'n': 4}), ('u_edges', {'F': 1})] + [('u_edges', {'template': t}) for t in TEMPLATES if t not in ('one', 'disjoint', 'bowtie3', 'tetra')] + [('u_edges', {'template': t, 'ordered': True}) for t in ('disjoint', 'bowtie3', 'tetra')] + [
                 ('u_patches', {'F': 2}), ('u_patches', {'F': 3, 'V': 4})] + [('u_patches', {'template': t}) for t in ('strip3', 'strip3_flipped', 'fan3_closed', 'bowtie3', 'two_components', 'tetra')] + [ ('u_clusters', {'n': 2}), ('u_clusters', {'n': 3}),
                 ('u_box', {})] + [('u_cylinder', {'steps': s}) for s in (3, 4, 5, 6, 8)],
}


def run(v, tier, seed, only=None):
    jobs = [(MOD, f, k) for (f, k) in UNITS[tier] if not only or only in f]
    res = run_jobs(jobs, seed=seed, procs=14, timeout_s=600 if tier == 'quick' else 3000)
    fold_results(v, res, JUDGES, 'C12')
