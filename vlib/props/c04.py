"""C04 - curve portions, splits, trims and reversal conserve length and end points (engine M).
The source curve is built by executing Curve2::from_points from its MIR (see c01.py); the operation under test runs on it."""
import itertools
import z3
from mirsym.driver import *
from mirsym.vals import *
from mirsym.ext import pt, vec_of, unref, items_of
from .geomlib import *
from .c01 import setup, curve_inputs, model_pts, curve_oracle

MOD = 'vlib.props.c04'


def setup4(n, pattern, closed):
    """C04 bound: edges at least 10*tol long (curves whose edges are comparable to the tolerance collapse under de-duplication)"""
    tol, pts, ks, base, kp = setup(n, pattern, 2, closed)
    return tol, pts, ks, base + [k >= 10 * tol for k in ks], kp


def curve_parts(c):
    c = unref(c)
    return [vec_of(p) for p in c[0][0].items], [num(x) for x in c[1].items], c[2], num(c[3])


def point_at(verts, lens, l):
    """the point of the source curve at arc length l as a z3 term per coordinate (piecewise linear, posed without division)
    -> list of (guard, point) alternatives"""
    alts = []
    for i in range(len(verts) - 1):
        alts.append((i, z3.And(lens[i] <= l, l <= lens[i + 1])))
    return alts


def on_source(verts, lens, p, lo=None, hi=None):
    """p lies on the source polyline: exists edge i and f in [0,1]: p = v_i + f (v_{i+1}-v_i); posed via collinearity + betweenness"""
    segs = []
    for i in range(len(verts) - 1):
        a, b = verts[i], verts[i + 1]
        cross = (p[0] - a[0]) * (b[1] - a[1]) - (p[1] - a[1]) * (b[0] - a[0])
        dot = (p[0] - a[0]) * (b[0] - a[0]) + (p[1] - a[1]) * (b[1] - a[1])
        segs.append(z3.And(cross == 0, dot >= 0, dot <= d2(a, b)))
    return z3.Or(segs)


def at_length_point(eng, cref, l):
    st = eng.call('Curve2::at_length', [cref, l])
    if st.v == 'None':
        return None
    return vec_of(unref(st.f[0])[0])


def u_between(n=3, pattern=(0, 1), closed='open', op='between'):
    tol, pts, ks, base, kp = setup4(n, pattern, closed)
    l0, l1, ctl = R('l0'), R('l1'), R('control')
    base = base + [l0 >= -B, l0 <= 10 * B, l1 >= -B, l1 <= 10 * B, ctl >= -B, ctl <= 10 * B]
    force = closed == 'forced'
    is_closed = closed in ('forced', 'natural')

    def entry(eng, args):
        pv, t = args
        r = eng.call('Curve2::from_points', [Ref.to(pv), t, force])
        if r.v != 'Ok':
            return None
        c = r.f[0]
        cr = Ref.to(c)
        out = {'curve': c}
        if op == 'between':
            out['res'] = eng.call('Curve2::between_lengths', [cr, l0, l1])
        elif op == 'by_control':
            out['res'] = eng.call('Curve2::between_lengths_by_control', [cr, l0, l1, ctl])
        elif op == 'trim_front':
            out['res'] = eng.call('Curve2::trim_front', [cr, l0])
        elif op == 'trim_back':
            out['res'] = eng.call('Curve2::trim_back', [cr, l0])
        out['p0'] = at_length_point(eng, cr, l0)
        out['p1'] = at_length_point(eng, cr, l1)
        return out

    def make(eng):
        return [points_vec(pts), tol], None

    def post(eng, c, ret):
        if ret is None:
            return [holds('construction succeeds', False)]
        verts, lens, _cl, _t = curve_parts(ret['curve'])
        L = lens[-1]
        res = ret['res']
        # the effective request
        if op == 'trim_front':
            a, b = l0, L
        elif op == 'trim_back':
            a, b = z3.RealVal(0), L - l0
        elif op == 'by_control':
            lo, hi = z3.If(l0 <= l1, l0, l1), z3.If(l0 <= l1, l1, l0)
            inside = z3.And(lo < ctl, ctl < hi)
            a, b = z3.If(inside, lo, hi), z3.If(inside, hi, lo)
        else:
            a, b = l0, l1
        in_range = z3.And(a >= 0, a <= L, b >= 0, b <= L)
        span = z3.If(b > a, b - a, L - (a - b))
        obs = []
        if res.v == 'None':
            # ill-posed: out of range, shorter than tol (up to the de-duplication slack), reversed on an open curve
            # (the piece must also survive tolerance de-duplication: its end points further apart than 2 tol as points)
            pa_, pb_ = (ret['p0'], ret['p1']) if op == 'between' else (at_length_point(eng, Ref.to(ret['curve']), a), at_length_point(eng, Ref.to(ret['curve']), b))
            chord_ok = z3.BoolVal(False) if (pa_ is None or pb_ is None or poisoned([pa_, pb_])) else (d2(pa_, pb_) > 4 * tol * tol)
            wellposed = z3.And(in_range, z3.If(b >= a, b - a, a - b) > 2 * tol, span > 2 * tol, z3.Or(z3.BoolVal(is_closed), b > a), chord_ok)
            if op == 'by_control':
                wellposed = z3.And(wellposed, ctl >= 0, ctl <= L, z3.Or(inside, z3.BoolVal(is_closed)), ctl != lo, ctl != hi,
                                   z3.Or(inside, ctl < lo, ctl > hi))
            obs.append(holds('nothing is returned only for an ill-posed request', z3.Not(wellposed)))
            return obs
        rverts, rlens, rclosed, _rt = curve_parts(res.f[0])
        obs.append(holds('a piece is returned only for lengths inside the curve', in_range))
        obs.append(holds('a piece is returned only for a request longer than the tolerance', z3.If(b >= a, b - a, a - b) >= tol))
        if not is_closed:
            obs.append(holds('no piece for a reversed request on an open curve', b > a))
        if op == 'by_control':
            obs.append(holds('control position inside the curve', z3.And(ctl >= 0, ctl <= L)))
            # the piece contains the control position: control lies in [a, b] travelling forward from a
            contains = z3.If(b > a, z3.And(a <= ctl, ctl <= b), z3.Or(ctl >= a, ctl <= b))
            obs.append(holds('the returned piece contains the control position', contains))
        RL = rlens[-1]
        obs.append(le('piece length is the arc-length difference (upper)', RL, span + 4 * tol, scale=1))
        obs.append(le('piece length is the arc-length difference (lower)', span - 4 * tol, RL, scale=1))
        # end points
        pa = at_length_point(eng, Ref.to(ret['curve']), a) if op != 'between' else ret['p0']
        pb = at_length_point(eng, Ref.to(ret['curve']), b) if op != 'between' else ret['p1']
        if pa is not None and not poisoned(pa):
            obs.append(holds('piece starts at the point at the first length', z3.And(rverts[0][0] == pa[0], rverts[0][1] == pa[1])))
        if pb is not None and not poisoned(pb):
            obs.append(le('piece ends at the point at the second length (within tol)', d2(rverts[-1], pb), tol * tol, scale=1))
        for j, p in enumerate(rverts):
            obs.append(holds(f'piece vertex {j} lies on the source curve', on_source(verts, lens, p)))
        # interior vertices are source vertices in source order
        for j in range(1, len(rverts) - 1):
            obs.append(holds(f'interior piece vertex {j} is a source vertex', z3.Or([z3.And(rverts[j][0] == v[0], rverts[j][1] == v[1]) for v in verts])))
        return obs

    name = f'Curve2.{op}[n={n},dirs={tuple(DIRS2[k] for k in pattern)},{closed}]'
    rp_args = lambda m: {'pts': model_pts(m, n, 2), 'tol': m['tol'], 'force_closed': force, 'op': op, 'l0': m['l0'], 'l1': m['l1'], 'control': m['control']}
    return Unit(name, entry, make, post, base=base, known_pos=kp, inputs=curve_inputs(pts, tol, {'l0': l0, 'l1': l1, 'control': ctl}),
                replay=('curve2_portion', rp_args), loop_budgets={'between_lengths': 2 * n + 8}, loop_budget=6 * n + 24,
                bounds={'vertices': n, 'closedness': closed, 'lengths': 'any reals', 'between_lengths loop budget': 2 * n + 8, 'length tolerance in the oracle': '4*tol (each end can lose up to 2*tol when points within tol of a kept vertex are dropped / de-duplicated)'},
                assumptions=['parry Polyline::new stores the given vertices unchanged'], timeout_ms=10000, max_paths=6000, lin_inc=True)


def _cum(points):
    import math
    r = [0.0]
    for i in range(len(points) - 1):
        r.append(r[-1] + math.dist(points[i], points[i + 1]))
    return r


def _pt_at(verts, lens, l):
    for i in range(len(verts) - 1):
        if lens[i] - 1e-12 <= l <= lens[i + 1] + 1e-12:
            f = (l - lens[i]) / (lens[i + 1] - lens[i])
            return [verts[i][c] + f * (verts[i + 1][c] - verts[i][c]) for c in range(2)]
    return None


def _on(verts, p, eps):
    import math
    for i in range(len(verts) - 1):
        a, b = verts[i], verts[i + 1]
        ab = [b[0] - a[0], b[1] - a[1]]
        t = ((p[0] - a[0]) * ab[0] + (p[1] - a[1]) * ab[1]) / (ab[0] ** 2 + ab[1] ** 2)
        t = max(0.0, min(1.0, t))
        if math.dist(p, [a[0] + t * ab[0], a[1] + t * ab[1]]) <= eps:
            return True
    return False


def j_between(o, rep, out):
    import math
    if 'timeout' in out:
        return 'does not terminate'
    if 'ok' not in out:
        return 'panic'
    a, r = rep['args'], out['ok']
    if 'err' in r:
        return 'construction failed'
    src = r['source']
    verts, lens, L, closed, tol = src['points'], src['lengths'], src['length'], src['is_closed'], a['tol']
    op = a['op']
    l0, l1, ctl = a['l0'], a['l1'], a['control']
    if op == 'trim_front':
        x, y = l0, L
    elif op == 'trim_back':
        x, y = 0.0, L - l0
    elif op == 'by_control':
        lo, hi = min(l0, l1), max(l0, l1)
        x, y = (lo, hi) if lo < ctl < hi else (hi, lo)
    else:
        x, y = l0, l1
    inr = 0 <= x <= L and 0 <= y <= L
    span = (y - x) if y > x else L - (x - y)
    res = r['result']
    if res is None:
        pa_, pb_ = _pt_at(verts, lens, x) if inr else None, _pt_at(verts, lens, y) if inr else None
        well = inr and abs(y - x) > 2 * tol + 1e-9 and span > 2 * tol + 1e-9 and (closed or y > x) and pa_ is not None and pb_ is not None and math.dist(pa_, pb_) > 2 * tol + 1e-9
        if op == 'by_control':
            well = well and 0 <= ctl <= L and ((min(l0, l1) < ctl < max(l0, l1)) or closed) and ctl not in (l0, l1)
        return 'nothing returned for a well-posed request' if well else False
    if not inr:
        return 'a piece returned for lengths outside the curve'
    if not closed and not y > x:
        return 'a piece returned for a reversed request on an open curve'
    if op == 'by_control':
        cont = (x <= ctl <= y) if y > x else (ctl >= x or ctl <= y)
        if not cont or not (0 <= ctl <= L):
            return 'the returned piece does not contain the control position'
    if abs(res['length'] - span) > 4 * tol + 1e-7 * (1 + L):
        return 'piece length differs from the arc-length difference'
    pa, pb = _pt_at(verts, lens, x), _pt_at(verts, lens, y)
    if pa and math.dist(res['points'][0], pa) > 1e-7 * (1 + L):
        return 'piece does not start at the point at the first length'
    if pb and math.dist(res['points'][-1], pb) > tol + 1e-7 * (1 + L):
        return 'piece does not end at the point at the second length'
    for p in res['points']:
        if not _on(verts, p, 1e-7 * (1 + L)):
            return 'piece vertex off the source curve'
    for p in res['points'][1:-1]:
        if not any(math.dist(p, v) <= 1e-9 for v in verts):
            return 'interior piece vertex is not a source vertex'
    return False


def u_reversed(n=3, pattern=(0, 1), closed='open'):
    tol, pts, ks, base, kp = setup4(n, pattern, closed)
    l = R('l')
    force = closed == 'forced'

    def entry(eng, args):
        pv, t = args
        r = eng.call('Curve2::from_points', [Ref.to(pv), t, force])
        if r.v != 'Ok':
            return None
        c = r.f[0]
        rv = eng.call('Curve2::reversed', [Ref.to(c)])
        L = num(c[1].items[-1])
        return {'curve': c, 'rev': rv, 'p': at_length_point(eng, Ref.to(rv), l), 'q': at_length_point(eng, Ref.to(c), L - l)}

    def make(eng):
        return [points_vec(pts), tol], None

    def post(eng, c, ret):
        if ret is None:
            return [holds('construction succeeds', False)]
        verts, lens, cl, _t = curve_parts(ret['curve'])
        rverts, rlens, rcl, _rt = curve_parts(ret['rev'])
        obs = [eq('reversal preserves the length', rlens[-1], lens[-1], scale=B), holds('reversal preserves the number of vertices', len(rverts) == len(verts))]
        if len(rverts) == len(verts):
            for i in range(len(verts)):
                obs.append(holds(f'vertex {i} of the reversal is vertex {len(verts) - 1 - i} of the source', z3.And(rverts[i][0] == verts[-1 - i][0], rverts[i][1] == verts[-1 - i][1])))
        p, q = ret['p'], ret['q']
        L = lens[-1]
        obs.append(holds('stations exist on both for l in [0, L]', z3.Implies(z3.And(l >= 0, l <= L), z3.BoolVal(p is not None and q is not None))))
        if p is not None and q is not None and not poisoned([p, q]):
            obs.append(eq('point at l on the reversal is the point at L-l on the source (x)', p[0], q[0], scale=B))
            obs.append(eq('point at l on the reversal is the point at L-l on the source (y)', p[1], q[1], scale=B))
        return obs

    name = f'Curve2.reversed[n={n},dirs={tuple(DIRS2[k] for k in pattern)},{closed}]'
    return Unit(name, entry, make, post, base=base + [l >= -B, l <= 10 * B], known_pos=kp, inputs=curve_inputs(pts, tol, {'l': l}),
                replay=('curve2_portion', lambda m: {'pts': model_pts(m, n, 2), 'tol': m['tol'], 'force_closed': force, 'op': 'reversed', 'l0': m['l'], 'l1': 0.0, 'control': 0.0}),
                loop_budget=6 * n + 24, bounds={'vertices': n, 'closedness': closed}, timeout_ms=10000)


def j_reversed(o, rep, out):
    import math
    if 'ok' not in out:
        return 'panic'
    r = out['ok']
    if 'err' in r:
        return 'construction failed'
    src, res = r['source'], r['result']
    L = src['length']
    if abs(res['length'] - L) > 1e-7 * (1 + L):
        return 'reversal changes the length'
    if len(res['points']) != len(src['points']) or any(math.dist(p, q) > 1e-9 for p, q in zip(res['points'], reversed(src['points']))):
        return 'reversal does not reverse the vertices'
    want = [L - x for x in reversed(src['lengths'])]
    if any(abs(x - y) > 1e-7 * (1 + L) for x, y in zip(res['lengths'], want)):
        return 'point at l on the reversal is not the point at L-l on the source (cumulative lengths not rebuilt)'
    return False


def u_split(n=3, pattern=(0, 1), closed='open'):
    tol, pts, ks, base, kp = setup4(n, pattern, closed)
    l0, l1 = R('l0'), R('l1')
    force = closed == 'forced'
    is_closed = closed in ('forced', 'natural')

    def entry(eng, args):
        pv, t = args
        r = eng.call('Curve2::from_points', [Ref.to(pv), t, force])
        if r.v != 'Ok':
            return None
        c = r.f[0]
        if is_closed:
            res = eng.call('Curve2::split_closed_at_lengths', [Ref.to(c), l0, l1])
        else:
            res = eng.call('Curve2::split_open_at_length', [Ref.to(c), l0])
        return {'curve': c, 'res': res}

    def make(eng):
        return [points_vec(pts), tol], None

    def post(eng, c, ret):
        if ret is None:
            return [holds('construction succeeds', False)]
        verts, lens, _cl, _t = curve_parts(ret['curve'])
        L = lens[-1]
        res = ret['res']
        obs = []
        if res.v == 'Err':
            cr_ = Ref.to(ret['curve'])
            if is_closed:
                pa_, pb_ = at_length_point(eng, cr_, l0), at_length_point(eng, cr_, l1)
                chord = z3.BoolVal(False) if (pa_ is None or pb_ is None or poisoned([pa_, pb_])) else d2(pa_, pb_) > 4 * tol * tol
                well = z3.And(l0 >= 0, l0 <= L, l1 >= 0, l1 <= L, z3.If(l1 >= l0, l1 - l0, l0 - l1) > 2 * tol, L - z3.If(l1 >= l0, l1 - l0, l0 - l1) > 2 * tol, chord)
            else:
                well = z3.And(l0 > 2 * tol, l0 < L - 2 * tol)
            obs.append(holds('a split fails only for an ill-posed request', z3.Not(well)))
            return obs
        a, b = res.f[0]
        av, al, _x, _y = curve_parts(a)
        bv, bl, _x2, _y2 = curve_parts(b)
        obs.append(le('piece lengths sum to the whole (upper)', al[-1] + bl[-1], L + 8 * tol, scale=1))
        obs.append(le('piece lengths sum to the whole (lower)', L - 8 * tol, al[-1] + bl[-1], scale=1))
        obs.append(le('pieces meet at the split point', d2(av[-1], bv[0]), tol * tol, scale=1))
        if is_closed:
            obs.append(le('pieces meet at the other split point', d2(bv[-1], av[0]), tol * tol, scale=1))
        else:
            obs.append(holds('first piece starts at the front', z3.And(av[0][0] == verts[0][0], av[0][1] == verts[0][1])))
            obs.append(le('second piece ends at the back', d2(bv[-1], verts[-1]), tol * tol, scale=1))
        return obs

    name = f'Curve2.split[n={n},dirs={tuple(DIRS2[k] for k in pattern)},{closed}]'
    return Unit(name, entry, make, post, base=base + [l0 >= -B, l0 <= 10 * B, l1 >= -B, l1 <= 10 * B], known_pos=kp, inputs=curve_inputs(pts, tol, {'l0': l0, 'l1': l1}),
                replay=('curve2_portion', lambda m: {'pts': model_pts(m, n, 2), 'tol': m['tol'], 'force_closed': force, 'op': 'split_closed' if is_closed else 'split_open', 'l0': m['l0'], 'l1': m['l1'], 'control': 0.0}),
                loop_budgets={'between_lengths': 2 * n + 8}, loop_budget=6 * n + 24, bounds={'vertices': n, 'closedness': closed}, timeout_ms=10000, max_paths=6000, lin_inc=True)


def j_split(o, rep, out):
    import math
    if 'timeout' in out:
        return 'does not terminate'
    if 'ok' not in out:
        return 'panic'
    a, r = rep['args'], out['ok']
    if 'err' in r:
        return 'construction failed'
    src, res = r['source'], r['result']
    L, tol = src['length'], a['tol']
    if res is None:
        if src['is_closed']:
            d = abs(a['l1'] - a['l0'])
            pa_, pb_ = _pt_at(src['points'], src['lengths'], a['l0']), _pt_at(src['points'], src['lengths'], a['l1'])
            well = 0 <= a['l0'] <= L and 0 <= a['l1'] <= L and d > 2 * tol + 1e-9 and L - d > 2 * tol + 1e-9 and pa_ is not None and pb_ is not None and math.dist(pa_, pb_) > 2 * tol + 1e-9
        else:
            well = 2 * tol + 1e-9 < a['l0'] < L - 2 * tol - 1e-9
        return 'split failed for a well-posed request' if well else False
    x, y = res
    if abs(x['length'] + y['length'] - L) > 8 * tol + 1e-7 * (1 + L):
        return 'piece lengths do not sum to the whole'
    if math.dist(x['points'][-1], y['points'][0]) > tol + 1e-7 * (1 + L):
        return 'pieces do not meet at the split point'
    return False


JUDGES = {'Curve2.between': j_between, 'Curve2.by_control': j_between, 'Curve2.trim_front': j_between, 'Curve2.trim_back': j_between,
          'Curve2.reversed': j_reversed, 'Curve2.split': j_split}

OPEN3 = [(0, 1), (0, 0), (0, 4), (4, 5), (3, 2)]
OPEN4 = [(0, 1, 2), (0, 4, 0)]
NAT = [(0, 5, 6), (0, 1, 6)]


def units_for(tier):
    u = []
    o3 = OPEN3 if tier == 'quick' else list(itertools.product(range(8), repeat=2))
    o4 = OPEN4 if tier == 'quick' else OPEN4 + [(4, 5, 6), (0, 0, 1), (1, 2, 3), (6, 7, 4)]
    for p in o3:
        u.append(('u_between', {'n': 3, 'pattern': p, 'closed': 'open', 'op': 'between'}))
    for p in o4:
        u.append(('u_between', {'n': 4, 'pattern': p, 'closed': 'open', 'op': 'between'}))
    for i, p in enumerate(NAT):
        u.append(('u_between', {'n': len(p) + 1, 'pattern': p, 'closed': 'natural', 'op': 'between'}))
        u.append(('u_reversed', {'n': len(p) + 1, 'pattern': p, 'closed': 'natural'}))
        if tier == 'thorough' or i == 0:
            u.append(('u_between', {'n': len(p) + 1, 'pattern': p, 'closed': 'natural', 'op': 'by_control'}))
            u.append(('u_split', {'n': len(p) + 1, 'pattern': p, 'closed': 'natural'}))
    for p in o3[:3]:
        u.append(('u_between', {'n': 3, 'pattern': p, 'closed': 'open', 'op': 'by_control'}))
        u.append(('u_between', {'n': 3, 'pattern': p, 'closed': 'open', 'op': 'trim_front'}))
        u.append(('u_between', {'n': 3, 'pattern': p, 'closed': 'open', 'op': 'trim_back'}))
        u.append(('u_split', {'n': 3, 'pattern': p, 'closed': 'open'}))
        u.append(('u_reversed', {'n': 3, 'pattern': p, 'closed': 'open'}))
    if tier == 'thorough':
        u.append(('u_between', {'n': 3, 'pattern': (0, 1), 'closed': 'forced', 'op': 'between'}))
        for op_ in ('between', 'by_control'):
            u.append(('u_between', {'n': 5, 'pattern': (0, 1, 2, 3), 'closed': 'natural', 'op': op_}))
    u.append(('u_reversed', {'n': 4, 'pattern': (0, 4, 0), 'closed': 'open'}))
    return u


def run(v, tier, seed, only=None):
    jobs = [(MOD, f, k) for (f, k) in units_for(tier) if not only or only in f or only in str(k)]
    res = run_jobs(jobs, seed=seed, procs=14, timeout_s=900 if tier == 'quick' else 3000)
    fold_results(v, res, JUDGES, 'C04')
