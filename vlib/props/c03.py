"""C03 - measurements do not depend on the coordinate frame (engine M).

Every transform API of engeom is executed from MIR on a symbolic entity and a symbolic isometry T = (R, t); the result is compared
with the entity whose raw coordinates were moved by T in the driver (points R p + t, normals R n), and every scalar measurement is
re-evaluated (by the real code) in the moved frame.  Rotations: a class of exact rational rotation matrices (so the arithmetic stays
linear in the symbolic coordinates), and in 2D / thorough 3D a fully symbolic rotation (c^2 + s^2 = 1, resp. R R^T = I, det R = 1).
Translations are symbolic, |t| <= 1e3."""
import re
import z3
from mirsym.driver import *
from mirsym.vals import *
from mirsym.ext import pt, vec_of, unref, items_of, Mat, iso_parts, quat, rot2
from mirsym.ext_na import unit as unit_val

from .geomlib import rat, sq, bounded, DIRS2, NORM2, DIRS3, NORM3, unit2, unit3, B, chain2, chain3, points_vec, d2
from .c19 import dot, cross, plane_val

MOD = 'vlib.props.c03'
R_ = z3.Real


def _m(rows, den):
    return [[rat(f'{x}/{den}') for x in r] for r in rows]


# proper rotations (det +1) with rational entries
ROT3 = [_m([[1, 0, 0], [0, 1, 0], [0, 0, 1]], 1), _m([[1, 2, 2], [2, 1, -2], [-2, 2, -1]], 3), _m([[2, 3, 6], [3, -6, 2], [6, 2, -3]], 7),
        _m([[0, -1, 0], [1, 0, 0], [0, 0, 1]], 1), _m([[2, -1, 2], [2, 2, -1], [-1, 2, 2]], 3)]
ROT2 = [(rat(1), rat(0)), (rat(0), rat(1)), (rat('3/5'), rat('4/5')), (rat('-5/13'), rat('12/13')), (rat('-4/5'), rat('-3/5'))]


def matvec(Rm, v):
    return [sum((Rm[i][k] * v[k] for k in range(1, len(v))), Rm[i][0] * v[0]) for i in range(len(Rm))]


def matT(Rm):
    return [[Rm[j][i] for j in range(len(Rm))] for i in range(len(Rm))]


def matmul(A, Bm):
    return [[sum((A[i][k] * Bm[k][j] for k in range(1, len(A))), A[i][0] * Bm[0][j]) for j in range(len(A))] for i in range(len(A))]


class Iso:
    """driver-side isometry: rotation matrix rows + translation; builds the MIR value and the replay json"""

    def __init__(self, dim, rot, px='t'):
        self.dim = dim
        self.t = [R_(px + 'xyz'[i]) for i in range(dim)]
        self.base = bounded(*self.t)
        self.inp = {px + 'xyz'[i]: self.t[i] for i in range(dim)}
        self.px = px
        self.rot = rot
        if dim == 2:
            if rot is None:
                c, s = R_(px + '_c'), R_(px + '_s')
                self.base += [c * c + s * s == 1]
                self.inp.update({px + '_c': c, px + '_s': s})
            else:
                c, s = ROT2[rot]
            self.cs = (c, s)
            self.R = [[c, -s], [s, c]]
        else:
            if rot is None:
                Rm = [[R_(f'{px}_r{i}{j}') for j in range(3)] for i in range(3)]
                for i in range(3):
                    for j in range(i, 3):
                        self.base.append(dot(Rm[i], Rm[j]) == (1 if i == j else 0))
                        self.base.append(dot([Rm[k][i] for k in range(3)], [Rm[k][j] for k in range(3)]) == (1 if i == j else 0))
                self.base.append(dot(Rm[0], cross(Rm[1], Rm[2])) == 1)
                self.inp.update({f'{px}_r{i}{j}': Rm[i][j] for i in range(3) for j in range(3)})
                self.R = Rm
            else:
                self.R = ROT3[rot]

    def val(self):
        tr = Struct('Translation', [list(self.t)])
        if self.dim == 2:
            return Struct('Isometry', [rot2(*self.cs), tr])
        return Struct('Isometry', [quat(Mat([list(r) for r in self.R])), tr])

    def pt(self, p):
        rp = matvec(self.R, p)
        return [rp[i] + self.t[i] for i in range(self.dim)]

    def vec(self, v):
        return matvec(self.R, v)

    def inv_pt(self, p):
        return matvec(matT(self.R), [p[i] - self.t[i] for i in range(self.dim)])

    def inverse_val(self):
        Rt = matT(self.R)
        ti = [-x for x in matvec(Rt, self.t)]
        tr = Struct('Translation', [list(ti)])
        if self.dim == 2:
            return Struct('Isometry', [rot2(self.cs[0], -self.cs[1]), tr])
        return Struct('Isometry', [quat(Mat([list(r) for r in Rt])), tr])

    def json(self, mm):
        def fl(x):
            x = z3.simplify(x) if is_sym(x) else x
            fr = as_fraction(x)
            return float(fr)
        px = self.px
        t = [mm[px + 'xyz'[i]] for i in range(self.dim)]
        if self.dim == 2:
            if self.rot is None:
                return {'c': mm[px + '_c'], 's': mm[px + '_s'], 't': t}
            return {'c': fl(self.cs[0]), 's': fl(self.cs[1]), 't': t}
        if self.rot is None:
            return {'r': [[mm[f'{px}_r{i}{j}'] for j in range(3)] for i in range(3)], 't': t}
        return {'r': [[fl(x) for x in r] for r in self.R], 't': t}

    def label(self):
        return 'symbolic rotation' if self.rot is None else f'rotation #{self.rot}'


def veq(name, got, want, scale=4 * B):
    return [eq(f'{name} [{i}]', got[i], want[i], scale=scale) for i in range(len(want))]


def sp_val(p, n):
    return Struct('SurfacePoint', [pt(list(p)), unit_val(list(n))])


def j_pairs(o, rep, out):
    """generic judge: the kernel evaluates the same clause on the real build (API result vs. directly moved coordinates)"""
    if 'ok' not in out:
        return 'panic'
    worst = None
    for name, got, want in out['ok']['pairs']:
        if isinstance(got, str) or isinstance(want, str):
            return re.sub(r'\d+', 'N', name) + ' (non-finite)'
        if abs(got - want) > 1e-6 * (1 + abs(want)):
            worst = worst or re.sub(r'\d+', 'N', name)
    return worst or False


# ------------------------------------------------------------------------------------------------ surface points
def u_sp(D=3, rot=1, dn=6):
    T = Iso(D, rot)
    p = [R_('p' + 'xyz'[i]) for i in range(D)]
    q = [R_('q' + 'xyz'[i]) for i in range(D)]
    n = unit3(dn) if D == 3 else unit2(dn)
    base = T.base + bounded(*(p + q))
    M = get_mir()
    sfx = str(D)
    f_tr, f_sc, f_pl, f_pr = [M.resolve('SurfacePoint::' + k) for k in ('transformed', 'scalar_projection', 'planar_distance', 'projection')]
    f_mul_ref = M.resolve(f'<&Iso{sfx} as Mul<&SurfacePoint{sfx}>>::mul')
    f_mul_val = M.resolve(f'<&Iso{sfx} as Mul<SurfacePoint{sfx}>>::mul')

    def composite(eng, _a):
        sp = sp_val(p, n)
        iso = T.val()
        o = {'tr': eng.run_fn(f_tr, [Ref.to(sp), Ref.to(iso)]), 'mul_ref': eng.run_fn(f_mul_ref, [Ref.to(iso), Ref.to(sp)]), 'mul_val': eng.run_fn(f_mul_val, [Ref.to(iso), sp_val(p, n)])}
        q2 = pt(T.pt(q))
        o['sc'] = eng.run_fn(f_sc, [Ref.to(sp), Ref.to(pt(list(q)))])
        o['sc2'] = eng.run_fn(f_sc, [Ref.to(o['tr']), Ref.to(q2)])
        o['pl'] = eng.run_fn(f_pl, [Ref.to(sp), Ref.to(pt(list(q)))])
        o['pl2'] = eng.run_fn(f_pl, [Ref.to(o['tr']), Ref.to(q2)])
        o['pr'] = eng.run_fn(f_pr, [Ref.to(sp), Ref.to(pt(list(q)))])
        o['pr2'] = eng.run_fn(f_pr, [Ref.to(o['tr']), Ref.to(q2)])
        o['back'] = eng.run_fn(f_tr, [Ref.to(o['tr']), Ref.to(T.inverse_val())])
        return o

    def post(eng, c, r):
        obs = []
        for k, nm in (('tr', 'transformed'), ('mul_ref', 'iso * &sp'), ('mul_val', 'iso * sp')):
            obs += veq(f'{nm}: point moves by T', vec_of(r[k][0]), T.pt(p))
            obs += veq(f'{nm}: normal only rotates', vec_of(r[k][1]), T.vec(n))
        obs.append(eq('scalar projection is invariant', r['sc2'], r['sc'], scale=4 * B))
        obs.append(eq('planar distance is invariant', r['pl2'], r['pl'], scale=4 * B))
        obs += veq('projection commutes with T', vec_of(r['pr2']), T.pt(vec_of(r['pr'])))
        obs += veq('T then its inverse restores the point', vec_of(r['back'][0]), p)
        obs += veq('T then its inverse restores the normal', vec_of(r['back'][1]), n, scale=1)
        return obs

    inp = dict(T.inp)
    inp.update({'p' + 'xyz'[i]: p[i] for i in range(D)})
    inp.update({'q' + 'xyz'[i]: q[i] for i in range(D)})
    nf = [float(x) / (NORM3[dn] if D == 3 else NORM2[dn]) for x in (DIRS3[dn] if D == 3 else DIRS2[dn])]
    return Unit(f'surface_point[D={D},{T.label()},normal={DIRS3[dn] if D == 3 else DIRS2[dn]}]', composite, lambda eng: ([], None), post, base=base, inputs=inp,
                replay=(f'sp_transform{D}', lambda mm: {'iso': T.json(mm), 'p': [mm['p' + 'xyz'[i]] for i in range(D)], 'q': [mm['q' + 'xyz'[i]] for i in range(D)], 'n': nf}),
                bounds={'rotation': T.label(), 'translation, points': '|coords| <= 1e3', 'normal': 'direction class (exactly unit)'}, timeout_ms=20000)


# ------------------------------------------------------------------------------------------------ planes
def u_plane(rot=1, rot2_=2, dn=6):
    T, T2 = Iso(3, rot), Iso(3, rot2_, px='u')
    d = R_('d')
    q = [R_('q' + 'xyz'[i]) for i in range(3)]
    n = unit3(dn)
    base = T.base + T2.base + bounded(d, *q)
    M = get_mir()
    f_tb, f_sd, f_pp = [M.resolve('Plane3::' + k) for k in ('transform_by', 'signed_distance_to_point', 'project_point')]

    def composite(eng, _a):
        pl = plane_val(n, d)
        o = {'t': eng.run_fn(f_tb, [Ref.to(pl), Ref.to(T.val())])}
        o['sd'] = eng.run_fn(f_sd, [Ref.to(pl), Ref.to(pt(list(q)))])
        o['sd2'] = eng.run_fn(f_sd, [Ref.to(o['t']), Ref.to(pt(T.pt(q)))])
        o['pp'] = eng.run_fn(f_pp, [Ref.to(pl), Ref.to(pt(list(q)))])
        o['pp2'] = eng.run_fn(f_pp, [Ref.to(o['t']), Ref.to(pt(T.pt(q)))])
        o['back'] = eng.run_fn(f_tb, [Ref.to(o['t']), Ref.to(T.inverse_val())])
        o['seq'] = eng.run_fn(f_tb, [Ref.to(o['t']), Ref.to(T2.val())])
        # composition T2 * T built in the driver
        Rc = matmul(T2.R, T.R)
        tc = [matvec(T2.R, T.t)[i] + T2.t[i] for i in range(3)]
        comp = Struct('Isometry', [quat(Mat([list(r) for r in Rc])), Struct('Translation', [tc])])
        o['comp'] = eng.run_fn(f_tb, [Ref.to(pl), Ref.to(comp)])
        return o

    def post(eng, c, r):
        obs = []
        tn, td = vec_of(r['t'][0]), r['t'][1]
        obs += veq('normal only rotates', tn, T.vec(n), scale=1)
        # the moved plane contains the moved point-on-plane n*d
        obs.append(eq('offset of the moved plane: it contains T(n d)', td, dot(T.vec(n), T.pt([n[i] * d for i in range(3)])), scale=4 * B))
        obs.append(eq('signed distance is invariant', r['sd2'], r['sd'], scale=4 * B))
        obs += veq('projection commutes with T', vec_of(r['pp2']), T.pt(vec_of(r['pp'])))
        obs += veq('T then its inverse restores the normal', vec_of(r['back'][0]), n, scale=1)
        obs.append(eq('T then its inverse restores the offset', r['back'][1], d, scale=4 * B))
        obs += veq('composition equals sequence (normal)', vec_of(r['seq'][0]), vec_of(r['comp'][0]), scale=1)
        obs.append(eq('composition equals sequence (offset)', r['seq'][1], r['comp'][1], scale=8 * B))
        return obs

    inp = {**T.inp, **T2.inp, 'd': d, 'qx': q[0], 'qy': q[1], 'qz': q[2]}
    return Unit(f'plane[{T.label()},then {T2.label()},normal={DIRS3[dn]}]', composite, lambda eng: ([], None), post, base=base, inputs=inp,
                replay=('plane_transform', lambda mm: {'iso': T.json(mm), 'iso2': T2.json(mm), 'n': [float(x) / NORM3[dn] for x in DIRS3[dn]], 'd': mm['d'], 'q': [mm['qx'], mm['qy'], mm['qz']]}),
                bounds={'rotations': f'{T.label()}, {T2.label()}', 'translations, offset, query': '|.| <= 1e3'}, timeout_ms=20000)


# ------------------------------------------------------------------------------------------------ point lists
def u_points(D=3, n=3, rot=1):
    T = Iso(D, rot)
    P = [[R_(f'p{i}{"xyz"[k]}') for k in range(D)] for i in range(n)]
    base = T.base + bounded(*[c for p in P for c in p])
    M = get_mir()
    f_tp = M.resolve('transform_points')
    f_slice = M.resolve('<&[Point3] as TransformBy<Iso3, Vec<Point3>>>::transform_by')
    f_vec = M.resolve('<&Vec<Point3> as TransformBy<Iso3, Vec<Point3>>>::transform_by')

    def composite(eng, _a):
        pv = VecV([pt(list(p)) for p in P])
        o = {'tp': eng.run_fn(f_tp, [Ref.to(pv), Ref.to(T.val())])}
        if D == 3:
            o['slice'] = eng.run_fn(f_slice, [Ref.to(Ref.to(pv)), Ref.to(T.val())])
            o['vec'] = eng.run_fn(f_vec, [Ref.to(Ref.to(pv)), Ref.to(T.val())])
        return o

    def post(eng, c, r):
        obs = []
        for k, v in r.items():
            items = items_of(v)
            obs.append(holds(f'{k}: as many points out as in', z3.BoolVal(len(items) == n)))
            for i in range(min(n, len(items))):
                obs += veq(f'{k}: point {i} moves by T', vec_of(items[i]), T.pt(P[i]))
        return obs

    inp = dict(T.inp)
    inp.update({f'p{i}{"xyz"[k]}': P[i][k] for i in range(n) for k in range(D)})
    return Unit(f'transform_points[D={D},n={n},{T.label()}]', composite, lambda eng: ([], None), post, base=base, inputs=inp, const_generics={'D': D},
                replay=(f'transform_points{D}', lambda mm: {'iso': T.json(mm), 'points': [[mm[f'p{i}{"xyz"[k]}'] for k in range(D)] for i in range(n)]}),
                bounds={'rotation': T.label(), 'points': f'{n}, |coords| <= 1e3'}, loop_budget=8 * n + 16)


# ------------------------------------------------------------------------------------------------ curves
def u_curve(dim=2, pattern=(0, 1), rot=2, closed='open'):
    from .c01 import setup
    n = len(pattern) + 1
    tol, pts, ks, base, kp = setup(n, pattern, dim, closed)
    T = Iso(dim, rot)
    base = base + T.base
    force = closed == 'forced'
    ty = 'Curve2' if dim == 2 else 'Curve3'

    def composite(eng, args):
        r = eng.call(f'{ty}::from_points', [Ref.to(points_vec(pts)), tol] + ([force] if dim == 2 else []))
        if r.v != 'Ok':
            return {'curve': None}
        c = r.f[0]
        return {'curve': c, 'moved': eng.call(f'{ty}::transformed_by', [Ref.to(c), Ref.to(T.val())])}

    def post(eng, c, r):
        if r['curve'] is None:
            return [holds('construction succeeds', z3.BoolVal(False))]
        cv, mv = r['curve'], r['moved']
        v0 = [vec_of(p) for p in cv[0][0].items]
        v1 = [vec_of(p) for p in mv[0][0].items]
        obs = [holds('same number of vertices', z3.BoolVal(len(v0) == len(v1)))]
        if len(v0) != len(v1):
            return obs
        for i in range(len(v0)):
            obs += veq(f'vertex {i} moves by T', v1[i], T.pt(v0[i]))
        l0, l1 = [num(x) for x in cv[1].items], [num(x) for x in mv[1].items]
        for i in range(len(l0)):
            obs.append(eq(f'cumulative length {i} is invariant', l1[i], l0[i], scale=4 * B))
        if dim == 2:
            a, b = cv[2], mv[2]
            obs.append(holds('closedness is kept', (a if is_sym(a) else z3.BoolVal(bool(a))) == (b if is_sym(b) else z3.BoolVal(bool(b)))))
            obs.append(holds('tolerance is kept', mv[3] == cv[3]))
        else:
            obs.append(holds('tolerance is kept', mv[2] == cv[2]))
        return obs

    dirs, norms = (DIRS2, NORM2) if dim == 2 else (DIRS3, NORM3)

    def rep(mm):
        p = [[mm[f'p0{"xyz"[k]}'] for k in range(dim)]]
        for i, d in enumerate(pattern):
            p.append([p[-1][k] + float(dirs[d][k]) / norms[d] * mm[f'plen{i}'] for k in range(dim)])
        a = {'iso': T.json(mm), 'points': p, 'tol': mm['tol'], 'l': 0.0, 'q': [0.0] * dim}
        if dim == 2:
            a['force_closed'] = force
        return a

    inp = dict(T.inp)
    inp.update({f'p0{"xyz"[k]}': pts[0][k] for k in range(dim)})
    inp.update({f'plen{i}': ks[i] for i in range(len(ks))})
    inp['tol'] = tol
    return Unit(f'curve_transformed[{ty},{[dirs[d] for d in pattern]},{closed},{T.label()}]', composite, lambda eng: ([], None), post, base=base, known_pos=kp, inputs=inp,
                replay=(f'curve_transformed{dim}', rep), loop_budget=16 * n + 32,
                bounds={'vertices': n, 'edges': 'direction classes x symbolic length in (tol, 1e3]', 'rotation': T.label(), 'tol': '(0, 0.01]'},
                assumptions=['parry Polyline::new stores the vertex list (dependency contract)'], timeout_ms=20000)


# ------------------------------------------------------------------------------------------------ point clouds
def u_cloud(n=2, rot=1, normals=True, dns=(6, 2, 9)):
    T = Iso(3, rot)
    P = [[R_(f'p{i}{"xyz"[k]}') for k in range(3)] for i in range(n)]
    N = [unit3(dns[i % len(dns)]) for i in range(n)]
    base = T.base + bounded(*[c for p in P for c in p])
    M = get_mir()
    f_tr = M.resolve('PointCloud::transform')

    def composite(eng, _a):
        pc = Struct('PointCloud', [VecV([pt(list(p)) for p in P]), En('Some', [VecV([unit_val(list(x)) for x in N])]) if normals else En('None'), En('None')])
        ref = Ref.to(pc)
        eng.run_fn(f_tr, [ref, Ref.to(T.val())])
        moved = [[vec_of(p) for p in items_of(pc[0])], [vec_of(x) for x in items_of(pc[1].f[0])] if pc[1].v == 'Some' else None]
        eng.run_fn(f_tr, [ref, Ref.to(T.inverse_val())])
        back = [[vec_of(p) for p in items_of(pc[0])], [vec_of(x) for x in items_of(pc[1].f[0])] if pc[1].v == 'Some' else None]
        return {'moved': moved, 'back': back}

    def post(eng, c, r):
        obs = []
        mp, mn = r['moved']
        bp, bn = r['back']
        obs.append(holds('as many points out as in', z3.BoolVal(len(mp) == n)))
        obs.append(holds('normals present exactly when given', z3.BoolVal((mn is not None) == normals)))
        for i in range(min(n, len(mp))):
            obs += veq(f'point {i} moves by T', mp[i], T.pt(P[i]))
            obs += veq(f'T then its inverse restores point {i}', bp[i], P[i])
            if normals and mn is not None:
                obs += veq(f'normal {i} only rotates', mn[i], T.vec(N[i]), scale=1)
                obs += veq(f'T then its inverse restores normal {i}', bn[i], N[i], scale=1)
        return obs

    inp = dict(T.inp)
    inp.update({f'p{i}{"xyz"[k]}': P[i][k] for i in range(n) for k in range(3)})
    return Unit(f'point_cloud[n={n},{"with" if normals else "no"} normals,{T.label()}]', composite, lambda eng: ([], None), post, base=base, inputs=inp,
                replay=('cloud_transform', lambda mm: {'iso': T.json(mm), 'points': [[mm[f'p{i}{"xyz"[k]}'] for k in range(3)] for i in range(n)],
                                                       'normals': [[float(x) / NORM3[dns[i % len(dns)]] for x in DIRS3[dns[i % len(dns)]]] for i in range(n)] if normals else None}),
                bounds={'points': f'{n}, |coords| <= 1e3', 'normals': 'direction classes (exactly unit)' if normals else 'none', 'rotation': T.label()}, loop_budget=8 * n + 16)


# ------------------------------------------------------------------------------------------------ segments, distances
def u_segment(rot=2, dirn=4):
    T = Iso(2, rot)
    a = [R_('ax'), R_('ay')]
    k = R_('k')
    b = [a[i] + unit2(dirn)[i] * k for i in range(2)]
    base = T.base + bounded(*a) + [k >= rat('1/1000'), k <= B]

    def make(eng):
        return [Ref.to(Struct('Segment2', [pt(list(a)), pt(list(b))])), Ref.to(T.val())], None

    def post(eng, c, ret):
        return veq('a moves by T', vec_of(ret[0]), T.pt(a)) + veq('b moves by T', vec_of(ret[1]), T.pt(b))

    return Unit(f'segment[{T.label()},{DIRS2[dirn]}]', '<Segment2 as TransformBy<Iso2, Segment2>>::transform_by', make, post, base=base, known_pos=[k],
                inputs={**T.inp, 'ax': a[0], 'ay': a[1], 'k': k},
                replay=('segment_transform', lambda mm: {'iso': T.json(mm), 'a': [mm['ax'], mm['ay']], 'b': [mm['ax'] + float(DIRS2[dirn][0]) / NORM2[dirn] * mm['k'], mm['ay'] + float(DIRS2[dirn][1]) / NORM2[dirn] * mm['k']]}),
                bounds={'rotation': T.label(), 'segment': 'direction class x length in [1e-3, 1e3]'})


def u_distance(rot=1, d2_=4, d3=6):
    """Distance2::to_3d / Distance3::to_2d through an isometry"""
    T = Iso(3, rot)
    a2, b2 = [R_('a2x'), R_('a2y')], [R_('b2x'), R_('b2y')]
    a3, b3 = [R_('a3x'), R_('a3y'), R_('a3z')], [R_('b3x'), R_('b3y'), R_('b3z')]
    n2, n3 = unit2(d2_), unit3(d3)
    base = T.base + bounded(*(a2 + b2 + a3 + b3))
    M = get_mir()
    f3, f2 = M.resolve('Distance2::to_3d'), M.resolve('Distance3::to_2d')
    fv3 = M.resolve('<Distance<3> as Measurement>::value')
    # the rotated direction must keep an in-plane component, or to_2d has nothing to normalise (documented: re-normalised)
    rd = T.vec(n3)

    def composite(eng, _a):
        dist2 = Struct('Distance', [pt(list(a2)), pt(list(b2)), unit_val(list(n2))])
        dist3 = Struct('Distance', [pt(list(a3)), pt(list(b3)), unit_val(list(n3))])
        o = {'to3': eng.run_fn(f3, [Ref.to(dist2), Ref.to(T.val())])}
        eng.const_generics['D'] = 3
        o['v3'] = eng.run_fn(fv3, [Ref.to(o['to3'])])
        o['to2'] = eng.run_fn(f2, [Ref.to(dist3), Ref.to(T.val())])
        return o

    def post(eng, c, r):
        obs = []
        lift = lambda p: [p[0], p[1], rat(0)]
        obs += veq('to_3d: a is lifted and moved by T', vec_of(r['to3'][0]), T.pt(lift(a2)))
        obs += veq('to_3d: b is lifted and moved by T', vec_of(r['to3'][1]), T.pt(lift(b2)))
        obs += veq('to_3d: direction only rotates', vec_of(r['to3'][2]), T.vec(lift(n2)), scale=1)
        obs.append(eq('to_3d keeps the measured value', r['v3'], (b2[0] - a2[0]) * n2[0] + (b2[1] - a2[1]) * n2[1], scale=4 * B))
        ta, tb = T.pt(a3), T.pt(b3)
        obs += veq('to_2d: a is moved by T, then z dropped', vec_of(r['to2'][0]), ta[:2])
        obs += veq('to_2d: b is moved by T, then z dropped', vec_of(r['to2'][1]), tb[:2])
        dd = vec_of(r['to2'][2])
        if not poisoned(dd):
            obs.append(eq('to_2d: direction is the rotated direction projected to the plane (parallel)', dd[0] * rd[1], dd[1] * rd[0], scale=1))
            obs.append(holds('to_2d: direction keeps its sense', dd[0] * rd[0] + dd[1] * rd[1] > 0))
            obs.append(eq('to_2d: direction is unit', dd[0] * dd[0] + dd[1] * dd[1], rat(1)))
        else:
            obs.append(finite('to_2d: finite direction', [dd]))
        return obs

    inp = dict(T.inp)
    for nm, v in (('a2', a2), ('b2', b2), ('a3', a3), ('b3', b3)):
        inp.update({nm + 'xyz'[i]: v[i] for i in range(len(v))})
    base.append(rd[0] * rd[0] + rd[1] * rd[1] >= rat('1/1000000'))
    return Unit(f'distance_2d_3d[{T.label()},{DIRS2[d2_]},{DIRS3[d3]}]', composite, lambda eng: ([], None), post, base=base, inputs=inp,
                replay=('distance_convert', lambda mm: {'iso': T.json(mm), 'a2': [mm['a2x'], mm['a2y']], 'b2': [mm['b2x'], mm['b2y']], 'dir2': [float(x) / NORM2[d2_] for x in DIRS2[d2_]],
                                                        'a3': [mm['a3x'], mm['a3y'], mm['a3z']], 'b3': [mm['b3x'], mm['b3y'], mm['b3z']], 'dir3': [float(x) / NORM3[d3] for x in DIRS3[d3]]}),
                bounds={'rotation': T.label(), 'points': '|coords| <= 1e3', 'directions': 'direction classes; the rotated 3D direction keeps an in-plane component >= 1e-3'}, timeout_ms=20000)


JUDGES = {'*': j_pairs}

UNITS = {
    'quick': [('u_sp', {'D': 3, 'rot': r, 'dn': dn}) for (r, dn) in ((1, 6), (2, 0), (4, 9), (3, 7))] + [('u_sp', {'D': 2, 'rot': r, 'dn': dn}) for (r, dn) in ((2, 4), (3, 0), (None, 6), (None, 1))] +
             [('u_plane', {'rot': a, 'rot2_': b, 'dn': dn}) for (a, b, dn) in ((1, 2, 6), (2, 4, 0), (3, 1, 9), (4, 3, 7))] +
             [('u_points', {'D': D, 'n': n, 'rot': r}) for (D, n, r) in ((3, 3, 1), (3, 2, 2), (2, 3, 2), (2, 2, None), (3, 2, 4))] +
             [('u_curve', {'dim': 2, 'pattern': p, 'rot': r, 'closed': c}) for (p, r, c) in (((0, 1), 2, 'open'), ((4, 1, 2), 3, 'open'), ((0, 1, 2), 2, 'forced'), ((0, 1, 2, 3), 4, 'natural'), ((0, 5), None, 'open'))] +
             [('u_curve', {'dim': 3, 'pattern': p, 'rot': r}) for (p, r) in (((0, 1), 1), ((6, 1, 2), 2), ((0, 7), 4))] +
             [('u_cloud', {'n': 2, 'rot': r, 'normals': nm}) for (r, nm) in ((1, True), (2, True), (4, False), (3, True))] +
             [('u_segment', {'rot': r, 'dirn': d}) for (r, d) in ((2, 4), (None, 0), (3, 6))] +
             [('u_distance', {'rot': r, 'd2_': a, 'd3': b}) for (r, a, b) in ((1, 4, 6), (2, 0, 9), (0, 6, 0), (4, 1, 7))],
    'thorough': [('u_sp', {'D': 3, 'rot': r, 'dn': dn}) for r in (0, 1, 2, 3, 4, None) for dn in (0, 2, 6, 9)] + [('u_sp', {'D': 2, 'rot': r, 'dn': dn}) for r in (0, 1, 2, 3, 4, None) for dn in (0, 4, 6)] +
                [('u_plane', {'rot': a, 'rot2_': b, 'dn': dn}) for a in (1, 2, 3, 4) for b in (0, 1, 2, 4) for dn in (0, 6, 9) if (a + b + dn) % 2 == 0] + [('u_plane', {'rot': None, 'rot2_': 0, 'dn': 6})] +
                [('u_points', {'D': D, 'n': n, 'rot': r}) for D in (2, 3) for n in (2, 4) for r in (1, 2, 3, 4, None)] +
                [('u_curve', {'dim': 2, 'pattern': p, 'rot': r, 'closed': c}) for p in ((0, 1), (4, 1, 2), (0, 1, 2, 3), (6, 0, 5)) for r in (1, 2, 3, 4, None) for c in ('open', 'forced')] +
                [('u_curve', {'dim': 2, 'pattern': (0, 1, 2, 3), 'rot': r, 'closed': 'natural'}) for r in (2, 3, None)] +
                [('u_curve', {'dim': 3, 'pattern': p, 'rot': r}) for p in ((0, 1), (6, 1, 2), (0, 7), (9, 2, 6)) for r in (1, 2, 3, 4)] +
                [('u_cloud', {'n': n, 'rot': r, 'normals': nm}) for n in (2, 3) for r in (1, 2, 3, 4, None) for nm in (True, False)] +
                [('u_segment', {'rot': r, 'dirn': d}) for r in (0, 1, 2, 3, 4, None) for d in (0, 4, 6)] +
                [('u_distance', {'rot': r, 'd2_': a, 'd3': b}) for r in (0, 1, 2, 3, 4) for (a, b) in ((4, 6), (0, 9), (6, 0), (1, 7))],
}


def run(v, tier, seed, only=None):
    jobs = [(MOD, f, k) for (f, k) in UNITS[tier] if not only or any(o in f for o in only.split(','))]
    res = run_jobs(jobs, seed=seed, procs=14, timeout_s=600 if tier == 'quick' else 2400)
    fold_results(v, res, JUDGES, 'C03')
