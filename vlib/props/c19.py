"""C19 - basis, frame and plane constructions are orthonormal and right-handed (engine M).

Frames: the six two-vector constructors are executed from MIR up to the call of UnitQuaternion::from_matrix (a dependency;
contract: a proper rotation matrix is converted to the quaternion of that rotation); the matrix handed over is observed and
must be a proper rotation with the documented primary / secondary axes.  Planes: every method is executed from MIR.
Principal axes: SvdBasis::from_points is executed up to DMatrix::svd (dependency; contract: V^T has orthonormal rows, singular
values are non-negative and non-increasing, and V S^2 V^T = A^T A); the matrix handed to svd must be the (weighted) centred
points, and everything after the call (basis, singular values, centre, n, to/from basis, rank, variances) is checked against
that contract."""
import z3
from mirsym.driver import *
from mirsym.vals import *
from mirsym.ext import pt, vec_of, unref, items_of, Mat, iso_parts
from mirsym.ext_na import unit as unit_val

from .geomlib import rat, sq, bounded, DIRS3, NORM3, unit3, B

MOD = 'vlib.props.c19'
R = z3.Real
CTORS = {'xy': (0, 1), 'xz': (0, 2), 'yz': (1, 2), 'yx': (1, 0), 'zx': (2, 0), 'zy': (2, 1)}


def dot(a, b):
    return sum((x * y for x, y in zip(a[1:], b[1:])), a[0] * b[0])


def cross(a, b):
    return [a[1] * b[2] - a[2] * b[1], a[2] * b[0] - a[0] * b[2], a[0] * b[1] - a[1] * b[0]]


def det3(c0, c1, c2):
    return dot(c0, cross(c1, c2))


def parallel_dirs(d0, d1):
    a, b = DIRS3[d0], DIRS3[d1]
    return all(x == 0 for x in cross(a, b))


# ------------------------------------------------------------------------------------------------ frame constructors
def u_frame(ctor='xy', d0=0, d1=1, general=False, origin=True):
    pi, si = CTORS[ctor]
    k0 = R('k0')
    u0 = unit3(d0)
    e0 = [c * k0 for c in u0]
    base = [k0 >= rat('1/1000'), k0 <= B]
    kp = [k0]
    inp = {'k0': k0}
    if general:
        e1 = [R('e1x'), R('e1y'), R('e1z')]
        base += bounded(*e1)
        cr = cross(u0, e1)
        # the second vector is at least 1e-3 long and at least ~1e-3 rad away from the first (anything nearer is conditioning)
        base += [dot(cr, cr) >= rat('1/1000000') * dot(e1, e1), dot(e1, e1) >= rat('1/1000000')]
        inp.update({'e1x': e1[0], 'e1y': e1[1], 'e1z': e1[2]})
    else:
        k1 = R('k1')
        e1 = [c * k1 for c in unit3(d1)]
        base += [k1 >= rat('1/1000'), k1 <= B]
        kp.append(k1)
        inp['k1'] = k1
    o = [R('ox'), R('oy'), R('oz')]
    if origin:
        base += bounded(*o)
        inp.update({'ox': o[0], 'oy': o[1], 'oz': o[2]})
    seen = {}

    def obs_fm(eng, callee, args):
        seen['m'] = args[0]

    def make(eng):
        seen.clear()
        return [Ref.to(list(e0)), Ref.to(list(e1)), En('Some', [pt(o)]) if origin else En('None')], None

    def post(eng, c, ret):
        if ret.v != 'Ok':
            return [holds('a non-degenerate pair of vectors gives a frame (Err only for zero or parallel input)', z3.BoolVal(False))]
        m = seen.get('m')
        if m is None:
            return [holds('the rotation is built by UnitQuaternion::from_matrix', z3.BoolVal(False))]
        cols = [[m.rows[i][j] for i in range(3)] for j in range(3)]
        obs = [finite('finite rotation matrix', cols)]
        if poisoned(cols):
            return obs
        for i in range(3):
            for j in range(i, 3):
                obs.append(eq(f'columns {i},{j} of the matrix handed to from_matrix are orthonormal', dot(cols[i], cols[j]), rat(1 if i == j else 0)))
        obs.append(eq('determinant +1 (right-handed)', det3(*cols), rat(1)))
        for t in range(3):
            obs.append(eq(f'primary axis is the normalised first argument [{t}]', cols[pi][t], u0[t]))
        obs.append(holds('secondary axis lies in the half-plane of the second argument', dot(cols[si], e1) > 0))
        # the secondary axis is in the plane of the two arguments: no component along first x second
        obs.append(eq('secondary axis lies in the plane of the two arguments', dot(cols[si], cross(u0, e1)), rat(0), scale=B))
        rot, tr = iso_parts(ret.f[0])
        rm = rot[0] if isinstance(rot, Struct) and rot.name == 'Quat' else None
        if rm is None:
            obs.append(holds('result rotation is the quaternion of that matrix', z3.BoolVal(False)))
        else:
            obs.append(holds('result rotation is the quaternion of that matrix', z3.And([rm.rows[i][j] == m.rows[i][j] for i in range(3) for j in range(3)])))
        tv = vec_of(tr)
        for t in range(3):
            obs.append(eq(f'origin maps to the given point [{t}]', tv[t], o[t] if origin else rat(0)))
        return obs

    nm = f'frame[{ctor},first={DIRS3[d0]},second={"general" if general else DIRS3[d1]}{"" if origin else ",no origin"}]'
    return Unit(nm, f'Iso3::try_from_basis_{ctor}', make, post, base=base, known_pos=kp, inputs=inp, observers={'from_matrix_obs': obs_fm},
                replay=('frame', lambda mm: {'ctor': ctor, 'e0': [float(c) * mm['k0'] / NORM3[d0] for c in DIRS3[d0]],
                                             'e1': [mm['e1x'], mm['e1y'], mm['e1z']] if general else [float(c) * mm['k1'] / NORM3[d1] for c in DIRS3[d1]],
                                             'origin': [mm['ox'], mm['oy'], mm['oz']] if origin else None}),
                bounds={'first argument': 'direction class x symbolic length in [1e-3, 1e3]',
                        'second argument': ('any vector, |e1| in [1e-3, 1e3*sqrt3], at least 1e-3 rad from the first' if general else 'direction class x symbolic length in [1e-3, 1e3]'),
                        'origin': '|coords| <= 1e3' if origin else 'None'},
                assumptions=['UnitQuaternion::from_matrix returns the rotation of a proper rotation matrix (dependency contract); the matrix handed to it is what is checked',
                             'f64 as exact reals'], timeout_ms=20000)


def u_frame_degenerate(ctor='xy', d0=0, kind='parallel'):
    """zero or parallel inputs: Err, never a frame"""
    k0 = R('k0')
    u0 = unit3(d0)
    s = R('s')
    base = [k0 <= B, s >= -B, s <= B]
    if kind == 'parallel':
        base += [k0 >= rat('1/1000')]
        e0 = [c * k0 for c in u0]
        e1 = [c * s for c in u0]
    elif kind == 'zero_first':
        base += [k0 >= rat('1/1000')]
        e0 = [rat(0)] * 3
        e1 = [c * k0 for c in u0]
    else:
        base += [k0 >= rat('1/1000')]
        e0 = [c * k0 for c in u0]
        e1 = [rat(0)] * 3

    def make(eng):
        return [Ref.to(list(e0)), Ref.to(list(e1)), En('None')], None

    def post(eng, c, ret):
        return [holds('zero or parallel input is refused (Err), no garbage frame', z3.BoolVal(ret.v == 'Err'))]

    return Unit(f'frame_degenerate[{ctor},{kind},{DIRS3[d0]}]', f'Iso3::try_from_basis_{ctor}', make, post, base=base, known_pos=[k0], inputs={'k0': k0, 's': s},
                replay=('frame', lambda mm: {'ctor': ctor, 'e0': [float(x) * mm['k0'] / NORM3[d0] for x in DIRS3[d0]] if kind != 'zero_first' else [0, 0, 0],
                                             'e1': [float(x) * mm['s'] / NORM3[d0] for x in DIRS3[d0]] if kind == 'parallel' else ([0, 0, 0] if kind == 'zero_second' else [float(x) * mm['k0'] / NORM3[d0] for x in DIRS3[d0]]),
                                             'origin': None}),
                bounds={'input': kind, 'lengths': '[1e-3, 1e3]; parallel factor any real in [-1e3, 1e3] (0 included)'})


def j_frame(o, rep, out):
    import numpy as np
    a = rep['args']
    if 'panic' in out or 'timeout' in out:
        return 'panic'
    out = out['ok']
    if 'refused' in o['name']:
        return False if 'err' in out else 'frame returned for zero or parallel input'
    if 'err' in out:
        return 'Err for a non-degenerate pair'
    r = out['ok']
    m = np.array([[float(x) if not isinstance(x, str) else np.nan for x in row] for row in r['m']])
    if not np.isfinite(m).all():
        return 'non-finite rotation'
    e0, e1 = np.array(a['e0'], float), np.array(a['e1'], float)
    pi, si = CTORS[a['ctor']]
    if np.abs(m.T @ m - np.eye(3)).max() > 1e-9 or abs(np.linalg.det(m) - 1) > 1e-9:
        return 'not a proper rotation'
    if np.abs(m[:, pi] - e0 / np.linalg.norm(e0)).max() > 1e-9:
        return 'primary axis is not the normalised first argument'
    if m[:, si] @ e1 <= 0:
        return 'secondary axis not in the half-plane of the second argument'
    if abs(m[:, si] @ np.cross(e0 / np.linalg.norm(e0), e1)) > 1e-7 * (1 + np.linalg.norm(e1)):
        return 'secondary axis leaves the plane of the arguments'
    og = np.array(a['origin'], float) if a['origin'] is not None else np.zeros(3)
    if np.abs(np.array(r['origin_image'], float) - og).max() > 1e-9 * (1 + np.abs(og).max()):
        return 'origin not mapped to the given point'
    return False


# ------------------------------------------------------------------------------------------------ planes
def plane_val(n, d):
    return Struct('Plane3', [unit_val(list(n)), d])


def u_plane(kind='three', d0=0, d1=1, dn=0):
    """planes from three points / normal and point / surface point: contain the defining points, projection is idempotent and
    lands on the plane, signed distance flips under normal inversion while the defining points stay on the inverted plane"""
    q = [R('qx'), R('qy'), R('qz')]
    p1 = [R('px'), R('py'), R('pz')]
    base = bounded(*q) + bounded(*p1)
    inp = {'qx': q[0], 'qy': q[1], 'qz': q[2], 'px': p1[0], 'py': p1[1], 'pz': p1[2]}
    kp = []
    M = get_mir()
    if kind == 'three':
        ka, kb = R('ka'), R('kb')
        base += [ka >= rat('1/1000'), ka <= B, kb >= rat('1/1000'), kb <= B]
        kp = [ka, kb]
        inp.update({'ka': ka, 'kb': kb})
        p2 = [p1[i] + unit3(d0)[i] * ka for i in range(3)]
        p3 = [p1[i] + unit3(d1)[i] * kb for i in range(3)]
        defining = [p1, p2, p3]
        entry = M.resolve('<Plane3 as From<(&Point3, &Point3, &Point3)>>::from')
        args_of = lambda: [(Ref.to(pt(p1)), Ref.to(pt(p2)), Ref.to(pt(p3)))]
        nrm = None
    else:
        nrm = unit3(dn)
        defining = [p1]
        if kind == 'normal':
            entry = M.resolve('<Plane3 as From<(&UnitVec3, &Point3)>>::from')
            args_of = lambda: [(Ref.to(unit_val(list(nrm))), Ref.to(pt(p1)))]
        else:
            entry = M.resolve('<Plane3 as From<&SurfacePoint3>>::from')
            args_of = lambda: [Ref.to(Struct('SurfacePoint', [pt(p1), unit_val(list(nrm))]))]
    f_sd, f_proj, f_inv, f_dist = [M.resolve('Plane3::' + n) for n in ('signed_distance_to_point', 'project_point', 'inverted_normal', 'distance_to_point')]

    def composite(eng, _args):
        pl = eng.run_fn(entry, args_of())
        inv = eng.run_fn(f_inv, [Ref.to(pl)])
        out = {'plane': pl, 'inv': inv,
               'sd_def': [eng.run_fn(f_sd, [Ref.to(pl), Ref.to(pt(p))]) for p in defining],
               'sd_def_inv': [eng.run_fn(f_sd, [Ref.to(inv), Ref.to(pt(p))]) for p in defining],
               'sd_q': eng.run_fn(f_sd, [Ref.to(pl), Ref.to(pt(q))]), 'sd_q_inv': eng.run_fn(f_sd, [Ref.to(inv), Ref.to(pt(q))]),
               'dist_q': eng.run_fn(f_dist, [Ref.to(pl), Ref.to(pt(q))])}
        pr = eng.run_fn(f_proj, [Ref.to(pl), Ref.to(pt(q))])
        out['proj'] = pr
        out['sd_proj'] = eng.run_fn(f_sd, [Ref.to(pl), Ref.to(pr)])
        out['proj2'] = eng.run_fn(f_proj, [Ref.to(pl), Ref.to(pr)])
        return out

    def make(eng):
        return [], None

    def post(eng, c, r):
        n, d = vec_of(r['plane'][0]), r['plane'][1]
        ni, di = vec_of(r['inv'][0]), r['inv'][1]
        obs = [finite('finite plane', [n, [d], ni, [di]])]
        if poisoned([n, [d], ni, [di], r['sd_def'], r['sd_q'], vec_of(r['proj'])]):
            obs.append(finite('finite measurements', [r['sd_def'], [r['sd_q']], vec_of(r['proj'])]))
            return obs
        S = 4 * B
        obs.append(eq('unit normal', dot(n, n), rat(1)))
        if nrm is not None:
            obs.append(holds('normal is the given normal', z3.And([n[i] == nrm[i] for i in range(3)])))
        else:
            e1 = [unit3(d0)[i] for i in range(3)]
            e2 = [unit3(d1)[i] for i in range(3)]
            obs.append(holds('normal of a three-point plane follows the right-hand rule (p2-p1) x (p3-p1)', dot(n, cross(e1, e2)) > 0))
        for i, v in enumerate(r['sd_def']):
            obs.append(eq(f'defining point {i} lies on the plane', v, rat(0), scale=S))
        for i, v in enumerate(r['sd_def_inv']):
            obs.append(eq(f'defining point {i} lies on the inverted plane', v, rat(0), scale=S))
        obs.append(eq('signed distance flips under normal inversion', r['sd_q_inv'], -r['sd_q'], scale=S))
        obs.append(holds('inverted plane has the opposite normal', z3.And([ni[i] == -n[i] for i in range(3)])))
        obs.append(eq('distance is the absolute signed distance', r['dist_q'], z3.If(r['sd_q'] >= 0, r['sd_q'], -r['sd_q']), scale=S))
        pr = vec_of(r['proj'])
        obs.append(eq('projection lies on the plane', r['sd_proj'], rat(0), scale=S))
        pr2 = vec_of(r['proj2'])
        for t in range(3):
            obs.append(eq(f'projection is idempotent [{t}]', pr2[t], pr[t], scale=S))
        # the projection moves the point along the normal by the signed distance
        for t in range(3):
            obs.append(eq(f'projection moves along the normal by the signed distance [{t}]', q[t] - pr[t], n[t] * r['sd_q'], scale=S))
        # signed distance is the true signed distance to the plane through the first defining point
        obs.append(eq('signed distance measured from the defining point along the normal', r['sd_q'], dot(n, [q[i] - p1[i] for i in range(3)]), scale=S))
        return obs

    def rep(mm):
        a = {'kind': kind, 'q': [mm['qx'], mm['qy'], mm['qz']]}
        p = [mm['px'], mm['py'], mm['pz']]
        if kind == 'three':
            a.update({'p1': p, 'p2': [p[i] + float(DIRS3[d0][i]) / NORM3[d0] * mm['ka'] for i in range(3)], 'p3': [p[i] + float(DIRS3[d1][i]) / NORM3[d1] * mm['kb'] for i in range(3)]})
        else:
            a.update({'p': p, 'n': [float(x) / NORM3[dn] for x in DIRS3[dn]]})
        return a

    nm = f'plane[{kind},{(DIRS3[d0], DIRS3[d1]) if kind == "three" else DIRS3[dn]}]'
    return Unit(nm, composite, make, post, base=base, known_pos=kp, inputs=inp, replay=('plane', rep),
                bounds={'points': '|coords| <= 1e3', 'edges of the defining triangle': 'direction classes x symbolic length in [1e-3, 1e3]' if kind == 'three' else 'n/a',
                        'normal': 'direction class (exactly unit)' if kind != 'three' else 'computed'},
                assumptions=['f64 as exact reals'], timeout_ms=20000)


def j_plane(o, rep, out):
    import numpy as np
    if 'ok' not in out:
        return 'panic'
    r = out['ok']
    a = rep['args']
    S = 1 + max(abs(x) for x in a['q']) + max(abs(x) for x in (a.get('p1') or a['p']))

    def num(x):
        return float(x) if not isinstance(x, str) else float('nan')
    vals = [num(x) for x in r['sd_defining'] + r['sd_defining_inv'] + [r['sd_q'], r['sd_q_inv'], r['sd_proj']] + r['proj'] + r['proj_proj'] + r['plane']['normal'] + [r['plane']['d']]]
    if not np.isfinite(vals).all():
        return 'non-finite plane or measurement'
    tol = 1e-7 * S
    if max(abs(num(x)) for x in r['sd_defining']) > tol:
        return 'defining point off the plane'
    if max(abs(num(x)) for x in r['sd_defining_inv']) > tol:
        return 'defining point off the inverted plane'
    if abs(num(r['sd_q']) + num(r['sd_q_inv'])) > tol:
        return 'signed distance does not flip under normal inversion'
    if abs(num(r['sd_proj'])) > tol or max(abs(num(x) - num(y)) for x, y in zip(r['proj'], r['proj_proj'])) > tol:
        return 'projection not on the plane / not idempotent'
    n = np.array([num(x) for x in r['plane']['normal']])
    if abs(np.linalg.norm(n) - 1) > 1e-9:
        return 'normal not unit'
    p = np.array(a.get('p1') or a['p'], float)
    qq = np.array(a['q'], float)
    if abs(num(r['sd_q']) - n @ (qq - p)) > tol:
        return 'signed distance is not the distance along the normal'
    if abs(num(r['dist_q']) - abs(num(r['sd_q']))) > tol:
        return 'distance is not |signed distance|'
    if max(abs((qq - np.array([num(x) for x in r['proj']])) - n * num(r['sd_q']))) > tol:
        return 'projection does not move along the normal'
    if a['kind'] == 'three':
        e1, e2 = np.array(a['p2'], float) - p, np.array(a['p3'], float) - p
        if n @ np.cross(e1, e2) <= 0:
            return 'normal against the right-hand rule'
    else:
        if np.abs(n - np.array(a['n'], float)).max() > 1e-12:
            return 'normal changed'
    return False


def u_plane_intersection(dn=0, ds=0):
    """Plane3::intersection_distance: Some(t) => sp.point + t*sp.normal lies on the plane; None only when the normal does not face the plane normal"""
    d = R('d')
    p = [R('px'), R('py'), R('pz')]
    n, s = unit3(dn), unit3(ds)
    base = bounded(d, *p)

    def make(eng):
        return [Ref.to(plane_val(n, d)), Ref.to(Struct('SurfacePoint', [pt(p), unit_val(list(s))]))], None

    def post(eng, c, ret):
        dn_ = dot(n, s)
        if ret.v == 'None':
            return [holds('None only when the surface normal does not face along the plane normal (n.s <= 1e-6)', dn_ <= rat('1/1000000') + rat('1/10000000000000'))]
        t = ret.f[0]
        hit = [p[i] + s[i] * t for i in range(3)]
        return [finite('finite distance', [[t]]), holds('Some only when n.s > 1e-6', dn_ > rat('1/1000000') - rat('1/10000000000000')),
                eq('the point at that distance along the normal lies on the plane', dot(n, hit), d, scale=4 * B)]

    return Unit(f'plane_intersection[{DIRS3[dn]},{DIRS3[ds]}]', 'Plane3::intersection_distance', make, post, base=base,
                inputs={'d': d, 'px': p[0], 'py': p[1], 'pz': p[2]},
                replay=('plane_intersection', lambda mm: {'n': [float(x) / NORM3[dn] for x in DIRS3[dn]], 's': [float(x) / NORM3[ds] for x in DIRS3[ds]], 'd': mm['d'], 'p': [mm['px'], mm['py'], mm['pz']]}), bounds={'normals': 'direction classes', 'd, point': '|.| <= 1e3'})


# ------------------------------------------------------------------------------------------------ principal axes
ORTHO = {2: [[[1, 0], [0, 1]], [[rat('3/5'), rat('4/5')], [rat('-4/5'), rat('3/5')]], [[rat('-5/13'), rat('12/13')], [rat('12/13'), rat('5/13')]]],
         3: [[[1, 0, 0], [0, 1, 0], [0, 0, 1]],
             [[rat('1/3'), rat('2/3'), rat('2/3')], [rat('2/3'), rat('1/3'), rat('-2/3')], [rat('2/3'), rat('-2/3'), rat('1/3')]],
             [[rat('2/7'), rat('3/7'), rat('6/7')], [rat('3/7'), rat('-6/7'), rat('2/7')], [rat('6/7'), rat('2/7'), rat('-3/7')]]]}


def u_svd_matrix(D=2, n=3, weights='none'):
    """SvdBasis::from_points up to DMatrix::svd: centre, the matrix handed to the decomposition, and how its output is stored"""
    P = [[R(f'p{i}{"xyz"[t]}') for t in range(D)] for i in range(n)]
    base = bounded(*[c for p in P for c in p])
    inp = {f'p{i}{"xyz"[t]}': P[i][t] for i in range(n) for t in range(D)}
    if weights == 'free':
        W = [R(f'w{i}') for i in range(n)]
        base += [z3.And(w >= rat('1/100'), w <= 100) for w in W]
        inp.update({f'w{i}': W[i] for i in range(n)})
    elif weights == 'uniform':
        w = R('w')
        W = [w] * n
        base += [w >= rat('1/100'), w <= 100]
        inp['w'] = w
    else:
        W = None
    cap = {}
    Vs = [[R(f'V{i}{j}') for j in range(D)] for i in range(D)]
    Ss = [R(f'S{i}') for i in range(D)]

    def svd_obs(eng, callee, args):
        cap['A'] = args[0]
        return Struct('SVD', [En('None'), En('Some', [Mat([list(r) for r in Vs])]), list(Ss)])

    def make(eng):
        cap.clear()
        return [Ref.to(VecV([pt(list(p)) for p in P])), En('Some', [Ref.to(VecV(list(W)))]) if W else En('None')], None

    def post(eng, c, ret):
        obs = []
        A = cap.get('A')
        obs.append(holds('the centred points reach DMatrix::svd', z3.BoolVal(A is not None)))
        if A is None:
            return obs
        basis, sv, centre, cnt = ret[0], ret[1], vec_of(ret[2]), ret[3]
        ws = W or [rat(1)] * n
        tot = sum(ws[1:], ws[0])
        S = 4 * B
        for t in range(D):
            wsum = sum((ws[i] * P[i][t] for i in range(1, n)), ws[0] * P[0][t])
            obs.append(eq(f'centre is the {"weighted " if W else ""}mean [{t}]', centre[t] * tot, wsum, scale=S * 100 * n))
        rows = [[num(A.rows[i][t]) for t in range(D)] for i in range(n)]
        obs.append(finite('finite matrix', rows))
        if poisoned(rows):
            return obs
        dev = [[P[i][t] - centre[t] for t in range(D)] for i in range(n)]
        if not W:
            for i in range(n):
                for t in range(D):
                    obs.append(eq(f'row {i} of the matrix handed to svd is p{i} - centre [{t}]', rows[i][t], dev[i][t], scale=S))
        else:
            # fix-independent reading of "weighted": each row is a non-negative multiple of the deviation p_i - centre (so the
            # decomposition is translation invariant); with uniform weights the factor is common to all rows (same basis as unweighted)
            for i in range(n):
                for a in range(D):
                    for b in range(a + 1, D):
                        obs.append(eq(f'row {i} of the matrix handed to svd is parallel to p{i} - centre [{a}{b}]', rows[i][a] * dev[i][b], rows[i][b] * dev[i][a], scale=S * S * 100))
                obs.append(le(f'row {i} points along p{i} - centre', rat(0), dot(rows[i], dev[i]) if D == 3 else rows[i][0] * dev[i][0] + rows[i][1] * dev[i][1], scale=S * S * 100))
            if weights == 'uniform':
                for i in range(n):
                    for j in range(i + 1, n):
                        obs.append(eq(f'uniform weights scale rows {i},{j} by a common factor', rows[i][0] * dev[j][1], rows[j][1] * dev[i][0], scale=S * S * 100))
        for i in range(D):
            bi = vec_of(basis[i])
            obs.append(holds(f'basis vector {i} is row {i} of V^T', z3.And([bi[j] == Vs[i][j] for j in range(D)])))
            obs.append(holds(f'singular value {i} stored in order', sv[i] == Ss[i]))
        obs.append(holds('n is the number of points', cnt == n))
        return obs

    def rep(mm):
        return {'points': [[mm[f'p{i}{"xyz"[t]}'] for t in range(D)] for i in range(n)],
                'weights': None if not W else ([mm[f'w{i}'] for i in range(n)] if weights == 'free' else [mm['w']] * n), 'q': [0.0] * D}

    return Unit(f'svd_matrix[D={D},n={n},weights={weights}]', 'SvdBasis::from_points', make, post, base=base, inputs=inp, observers={'svd_obs': svd_obs},
                const_generics={'D': D}, replay=('svd_basis', rep), loop_budget=16 * (n + D) + 32,
                bounds={'dimension': D, 'points': f'{n}, |coords| <= 1e3', 'weights': {'none': 'none', 'free': 'each in [0.01, 100]', 'uniform': 'all equal, in [0.01, 100]'}[weights]},
                assumptions=['DMatrix::svd is a dependency: its output is an arbitrary (V^T, singular values); what engeom hands to it and how it stores the output is what is decided'],
                timeout_ms=20000)


def j_svd_matrix(o, rep, out):
    """confirm on the real build: centre = weighted mean; the decomposition (singular values) must not move under a translation
    of the points, and must equal the unweighted one for uniform weights"""
    import numpy as np
    from mirsym.driver import replay_call
    if 'ok' not in out:
        return 'panic'
    r, a = out['ok'], rep['args']
    pts = np.array(a['points'], float)
    w = np.array(a['weights'], float) if a['weights'] else np.ones(len(pts))
    ctr = np.array([float(x) if not isinstance(x, str) else np.nan for x in r['center']])
    want = (pts * w[:, None]).sum(0) / w.sum()
    S = 1 + np.abs(pts).max()
    if not np.isfinite(ctr).all() or np.abs(ctr - want).max() > 1e-7 * S:
        return 'centre is not the weighted mean'
    sv = np.array([float(x) if not isinstance(x, str) else np.nan for x in r['sv']])
    shift = np.array([37.0, -21.0, 11.0][:pts.shape[1]])
    a2 = dict(a)
    a2['points'] = (pts + shift).tolist()
    o2 = replay_call(rep['kernel'], a2, 'debug')
    if 'ok' not in o2:
        return 'panic'
    sv2 = np.array([float(x) if not isinstance(x, str) else np.nan for x in o2['ok']['sv']])
    if np.abs(sv - sv2).max() > 1e-6 * (1 + np.abs(sv).max()):
        return 'weighted decomposition changes under a translation of the points (rows are not w-scaled deviations from the centre)' if a['weights'] else 'decomposition changes under a translation of the points'
    if a['weights'] and np.ptp(w) == 0:
        a3 = dict(a)
        a3['weights'] = None
        o3 = replay_call(rep['kernel'], a3, 'debug')
        b1, b3 = np.array(r['basis'], float), np.array(o3['ok']['basis'], float)
        if min(np.abs(b1 - b3).max(), np.abs(b1 + b3).max()) > 1e-6 and np.abs(np.abs((b1 * b3).sum(1)) - 1).max() > 1e-6:
            return 'uniform weights change the basis'
    if r['n'] != len(pts):
        return 'n is not the number of points'
    return False


def u_basis_ops(D=2, v=0):
    """to-basis / from-basis / variances / rank / largest / smallest on a basis with orthonormal rows (v = index of a rational orthonormal
    matrix, or None = symbolic orthonormal matrix)"""
    if v is None:
        V = [[R(f'V{i}{j}') for j in range(D)] for i in range(D)]
        base = []
        for i in range(D):
            for j in range(i, D):
                base.append(sum((V[i][k] * V[j][k] for k in range(1, D)), V[i][0] * V[j][0]) == (1 if i == j else 0))
                base.append(sum((V[k][i] * V[k][j] for k in range(1, D)), V[0][i] * V[0][j]) == (1 if i == j else 0))
        inp = {f'V{i}{j}': V[i][j] for i in range(D) for j in range(D)}
    else:
        V = [[z3.RealVal(x) if isinstance(x, int) else x for x in row] for row in ORTHO[D][v]]
        base, inp = [], {}
    q = [R('q' + 'xyz'[t]) for t in range(D)]
    c0 = [R('c' + 'xyz'[t]) for t in range(D)]
    sv = [R(f'S{i}') for i in range(D)]
    tol = R('tol')
    nn = z3.Int('n')
    base += bounded(*(q + c0)) + [s >= 0 for s in sv] + [s <= B for s in sv] + [sv[i] >= sv[i + 1] for i in range(D - 1)] + [tol >= 0, tol <= B, nn >= D + 1, nn <= 100000]
    inp.update({'q' + 'xyz'[t]: q[t] for t in range(D)})
    inp.update({'c' + 'xyz'[t]: c0[t] for t in range(D)})
    inp.update({f'S{i}': sv[i] for i in range(D)})
    inp.update({'tol': tol, 'n': nn})
    M = get_mir()
    fns = {nm: M.resolve('SvdBasis::' + nm) for nm in ('point_to_basis', 'point_from_basis', 'vec_to_basis', 'basis_variances', 'rank', 'largest', 'smallest')}

    def basis_val():
        return Struct('SvdBasis', [[list(r) for r in V], list(sv), pt(list(c0)), nn])

    def composite(eng, _a):
        b = basis_val()
        out = {'tb': eng.run_fn(fns['point_to_basis'], [Ref.to(b), Ref.to(pt(list(q)))])}
        out['rt'] = eng.run_fn(fns['point_from_basis'], [Ref.to(b), Ref.to(out['tb'])])
        out['ctr'] = eng.run_fn(fns['point_to_basis'], [Ref.to(b), Ref.to(pt(list(c0)))])
        out['origin_back'] = eng.run_fn(fns['point_from_basis'], [Ref.to(b), Ref.to(pt([rat(0)] * D))])
        out['vb'] = eng.run_fn(fns['vec_to_basis'], [Ref.to(b), Ref.to(list(q))])
        out['var'] = eng.run_fn(fns['basis_variances'], [Ref.to(b)])
        out['rank'] = eng.run_fn(fns['rank'], [Ref.to(b), tol])
        out['largest'] = eng.run_fn(fns['largest'], [Ref.to(b)])
        out['smallest'] = eng.run_fn(fns['smallest'], [Ref.to(b)])
        return out

    def make(eng):
        return [], None

    def post(eng, c, r):
        S = 4 * B
        tb, rt, ctr, ob, vb = [vec_of(r[k]) for k in ('tb', 'rt', 'ctr', 'origin_back', 'vb')]
        obs = [finite('finite coordinates', [tb, rt, ctr, ob, vb])]
        if poisoned([tb, rt, ctr, ob, vb]):
            return obs
        for i in range(D):
            obs.append(eq(f'to-basis coordinate {i} is the projection of (q - centre) on basis vector {i}', tb[i], sum((V[i][k] * (q[k] - c0[k]) for k in range(1, D)), V[i][0] * (q[0] - c0[0])), scale=S))
            obs.append(eq(f'round trip through to-basis and from-basis restores the point [{i}]', rt[i], q[i], scale=S))
            obs.append(eq(f'the centre has basis coordinates 0 [{i}]', ctr[i], rat(0), scale=S))
            obs.append(eq(f'the basis origin maps back to the centre [{i}]', ob[i], c0[i], scale=S))
            obs.append(eq(f'vec_to_basis is the projection on basis vector {i} (no centring)', vb[i], sum((V[i][k] * q[k] for k in range(1, D)), V[i][0] * q[0]), scale=S))
            obs.append(eq(f'variance along axis {i} is sv^2 / n', num(r['var'][i]) * z3.ToReal(nn), sv[i] * sv[i], scale=S * S))
        obs.append(holds('rank counts the singular values above the tolerance', r['rank'] == sum((z3.If(s > tol, 1, 0) for s in sv[1:]), z3.If(sv[0] > tol, 1, 0))))
        obs.append(holds('largest() is the first basis vector', z3.And([vec_of(r['largest'])[k] == V[0][k] for k in range(D)])))
        obs.append(holds('smallest() is the last basis vector', z3.And([vec_of(r['smallest'])[k] == V[D - 1][k] for k in range(D)])))
        return obs

    def rep(mm):
        rows = [[mm[f'V{i}{j}'] for j in range(D)] for i in range(D)] if v is None else [[float(z3.simplify(x).as_fraction()) for x in row] for row in V]
        return {'basis': rows, 'sv': [mm[f'S{i}'] for i in range(D)], 'center': [mm['c' + 'xyz'[t]] for t in range(D)], 'q': [mm['q' + 'xyz'[t]] for t in range(D)],
                'tol': mm['tol'], 'n': int(mm['n'])}

    return Unit(f'basis_ops[D={D},V={"symbolic orthonormal" if v is None else v}]', composite, make, post, base=base, inputs=inp, replay=('basis_ops', rep), const_generics={'D': D},
                loop_budget=64, bounds={'basis': 'symbolic orthonormal matrix' if v is None else 'rational orthonormal matrix #%d' % v, 'centre, point': '|coords| <= 1e3',
                                        'singular values': 'non-increasing in [0, 1e3]', 'n': '[D+1, 1e5]'},
                assumptions=['the basis rows are orthonormal (contract of the decomposition, see svd_matrix units)'], timeout_ms=20000)


def u_mean(D=3, n=3, weighted=False):
    P = [[R(f'p{i}{"xyz"[t]}') for t in range(D)] for i in range(n)]
    W = [R(f'w{i}') for i in range(n)] if weighted else None
    base = bounded(*[c for p in P for c in p]) + ([z3.And(w >= rat('1/100'), w <= 100) for w in W] if W else [])

    def make(eng):
        a = [Ref.to(VecV([pt(list(p)) for p in P]))]
        if W:
            a.append(Ref.to(VecV(list(W))))
        return a, None

    def post(eng, c, ret):
        m = vec_of(ret)
        ws = W or [rat(1)] * n
        tot = sum(ws[1:], ws[0])
        return [eq(f'mean [{t}]', m[t] * tot, sum((ws[i] * P[i][t] for i in range(1, n)), ws[0] * P[0][t]), scale=B * 100 * n) for t in range(D)]

    inp = {f'p{i}{"xyz"[t]}': P[i][t] for i in range(n) for t in range(D)}
    if W:
        inp.update({f'w{i}': W[i] for i in range(n)})
    return Unit(f'mean_point[D={D},n={n},{"weighted" if weighted else "unweighted"}]', 'mean_point_weighted' if weighted else 'mean_point', make, post, base=base, inputs=inp,
                const_generics={'D': D}, replay=('mean_point', lambda mm: {'points': [[mm[f'p{i}{"xyz"[t]}'] for t in range(D)] + [0.0] * (3 - D) for i in range(n)],
                                                                           'weights': [mm[f'w{i}'] for i in range(n)] if W else None}), loop_budget=8 * n + 16)


def j_mean(o, rep, out):
    import numpy as np
    if 'ok' not in out:
        return 'panic'
    a = rep['args']
    pts = np.array(a['points'], float)
    w = np.array(a['weights'], float) if a['weights'] else np.ones(len(pts))
    want = (pts * w[:, None]).sum(0) / w.sum()
    got = np.array([float(x) if not isinstance(x, str) else np.nan for x in out['ok']])
    return 'mean point is not the (weighted) mean' if not np.isfinite(got).all() or np.abs(got - want).max() > 1e-7 * (1 + np.abs(pts).max()) else False


def j_basis_ops(o, rep, out):
    import numpy as np
    if 'ok' not in out:
        return 'panic'
    r, a = out['ok'], rep['args']
    V, c, q, sv = np.array(a['basis'], float), np.array(a['center'], float), np.array(a['q'], float), np.array(a['sv'], float)
    S = 1 + np.abs(c).max() + np.abs(q).max()
    g = lambda k: np.array([float(x) if not isinstance(x, str) else np.nan for x in r[k]])
    tol = 1e-6 * S
    if not all(np.isfinite(g(k)).all() for k in ('to_basis', 'round_trip', 'center_in_basis', 'origin_back', 'vec_to_basis', 'variances')):
        return 'non-finite basis coordinates'
    if np.abs(g('to_basis') - V @ (q - c)).max() > tol:
        return 'to-basis coordinates are not the projections of (q - centre)'
    if np.abs(g('round_trip') - q).max() > tol:
        return 'to-basis / from-basis round trip does not restore the point'
    if np.abs(g('center_in_basis')).max() > tol:
        return 'the centre does not have basis coordinates 0'
    if np.abs(g('origin_back') - c).max() > tol:
        return 'the basis origin does not map back to the centre'
    if np.abs(g('vec_to_basis') - V @ q).max() > tol:
        return 'vec_to_basis is not the projection on the basis vectors'
    if np.abs(g('variances') * a['n'] - sv * sv).max() > 1e-6 * (1 + (sv * sv).max()):
        return 'variance is not sv^2 / n'
    if r['rank'] != int((sv > a['tol']).sum()):
        return 'rank does not count the singular values above the tolerance'
    if np.abs(g('largest') - V[0]).max() > 0 or np.abs(g('smallest') - V[-1]).max() > 0:
        return 'largest / smallest are not the first / last basis vector'
    return False


def j_plane_intersection(o, rep, out):
    import numpy as np
    if 'ok' not in out:
        return 'panic'
    r, a = out['ok'], rep['args']
    dn = float(np.dot(a['n'], a['s']))
    if 'none' in r:
        return 'no intersection reported although the normal faces the plane' if dn > 1e-6 + 1e-12 else False
    if dn <= 1e-6 - 1e-12:
        return 'intersection reported for a normal facing away'
    if isinstance(r['some'], str) or isinstance(r['sd_hit'], str) or abs(r['sd_hit']) > 1e-6 * (1 + abs(a['d']) + max(abs(x) for x in a['p'])) / max(dn, 1e-6):
        return 'point at the reported distance is not on the plane'
    return False


JUDGES = {'frame': j_frame, 'frame_degenerate': j_frame, 'plane': j_plane, 'svd_matrix': j_svd_matrix, 'mean_point': j_mean, 'basis_ops': j_basis_ops, 'plane_intersection': j_plane_intersection}

_SVD_Q = ([('u_svd_matrix', {'D': D, 'n': n, 'weights': w}) for (D, n) in ((2, 3), (3, 4)) for w in ('none', 'free', 'uniform')] +
          [('u_basis_ops', {'D': D, 'v': v}) for D in (2, 3) for v in (0, 1, 2)] + [('u_basis_ops', {'D': 2, 'v': None})] +
          [('u_mean', {'D': D, 'n': n, 'weighted': w}) for (D, n) in ((2, 3), (3, 4)) for w in (False, True)])
_SVD_T = ([('u_svd_matrix', {'D': D, 'n': n, 'weights': w}) for (D, n) in ((2, 3), (2, 5), (3, 4), (3, 6)) for w in ('none', 'free', 'uniform')] +
          [('u_basis_ops', {'D': D, 'v': v}) for D in (2, 3) for v in (0, 1, 2, None)] +
          [('u_mean', {'D': D, 'n': n, 'weighted': w}) for (D, n) in ((2, 3), (2, 6), (3, 4), (3, 7)) for w in (False, True)])
_PAIRS_Q = [(0, 1), (0, 6), (6, 1), (7, 9), (3, 8), (2, 10), (9, 4), (5, 7)]
UNITS = {
    'quick': [('u_frame', {'ctor': c, 'd0': a, 'd1': b}) for i, c in enumerate(CTORS) for (a, b) in (_PAIRS_Q[i % 8], _PAIRS_Q[(i + 3) % 8], _PAIRS_Q[(2 * i + 5) % 8])] +
             [('u_frame', {'ctor': c, 'd0': 0 if i % 2 else 6, 'general': True}) for i, c in enumerate(CTORS)] +
             [('u_frame', {'ctor': 'zx', 'd0': 1, 'd1': 6, 'origin': False})] +
             [('u_frame_degenerate', {'ctor': c, 'd0': (0, 6, 9)[i % 3], 'kind': k}) for i, c in enumerate(CTORS) for k in ('parallel', 'zero_first', 'zero_second')] +
             [('u_plane', {'kind': 'three', 'd0': a, 'd1': b}) for (a, b) in ((0, 1), (6, 1), (7, 9), (2, 10))] +
             [('u_plane', {'kind': k, 'dn': dn}) for k in ('normal', 'sp') for dn in (2, 6, 10)] +
             [('u_plane_intersection', {'dn': a, 'ds': b}) for (a, b) in ((0, 0), (0, 6), (6, 7), (2, 5), (9, 1))] + _SVD_Q,
    'thorough': [('u_frame', {'ctor': c, 'd0': a, 'd1': b}) for c in CTORS for a in range(len(DIRS3)) for b in range(len(DIRS3)) if not parallel_dirs(a, b) and (a * 5 + b) % 3 == 0] +
                [('u_frame', {'ctor': c, 'd0': a, 'general': True}) for c in CTORS for a in (0, 1, 2, 6, 7, 9)] +
                [('u_frame_degenerate', {'ctor': c, 'd0': a, 'kind': k}) for c in CTORS for a in (0, 2, 6, 9) for k in ('parallel', 'zero_first', 'zero_second')] +
                [('u_plane', {'kind': 'three', 'd0': a, 'd1': b}) for a in range(len(DIRS3)) for b in range(len(DIRS3)) if not parallel_dirs(a, b) and (a + b) % 2 == 0] +
                [('u_plane', {'kind': k, 'dn': dn}) for k in ('normal', 'sp') for dn in range(len(DIRS3))] +
                [('u_plane_intersection', {'dn': a, 'ds': b}) for a in range(len(DIRS3)) for b in range(len(DIRS3)) if (a + 2 * b) % 4 == 0] + _SVD_T,
}


def run(v, tier, seed, only=None):
    jobs = [(MOD, f, k) for (f, k) in UNITS[tier] if not only or any(o in f for o in only.split(','))]
    res = run_jobs(jobs, seed=seed, procs=14, timeout_s=600 if tier == 'quick' else 2400)
    fold_results(v, res, JUDGES, 'C19')
