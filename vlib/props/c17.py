"""C17 - series operations preserve order, length and the piecewise-linear function (engine M, exact reals).
Construction / lookup invariants over all f64 are decided by engine K (kani/src/c17.rs)."""
import z3
from mirsym.driver import *
from mirsym.vals import *
from mirsym.ext import pt, vec_of, unref, items_of

MOD = 'vlib.props.c17'
R = z3.Real
B = 1000


def sym_series(n, strict=True):
    xs = [R(f'x{i}') for i in range(n)]
    ys = [R(f'y{i}') for i in range(n)]
    base = [z3.And(v >= -B, v <= B) for v in xs + ys]
    for i in range(n - 1):
        base.append(xs[i] < xs[i + 1] if strict else xs[i] <= xs[i + 1])
    return xs, ys, base


def series_val(xs, ys):
    return Struct('Series1', [Struct('DiscreteDomain', [VecV(list(xs))]), VecV(list(ys))])


def series_parts(s):
    s = unref(s)
    return [num(v) for v in s[0][0].items], list(s[1].items)


def on_graph(xs, ys, x, y):
    """(x, y) lies on the piecewise-linear graph through the samples (posed without division)"""
    segs = []
    for i in range(len(xs) - 1):
        segs.append(z3.And(xs[i] <= x, x <= xs[i + 1], (y - ys[i]) * (xs[i + 1] - xs[i]) == (ys[i + 1] - ys[i]) * (x - xs[i])))
    if len(xs) == 1:
        segs.append(z3.And(x == xs[0], y == ys[0]))
    return z3.Or(segs)


def structure_obls(rx, ry, tag=''):
    obs = [holds(tag + 'as many ordinates as abscissae', len(rx) == len(ry)), finite(tag + 'finite abscissae', rx)]
    if not poisoned(rx):
        for i in range(len(rx) - 1):
            obs.append(holds(tag + f'abscissae ascending at {i}', rx[i] <= rx[i + 1]))
    return obs


def inputs_of(xs, ys, **extra):
    d = {str(v): v for v in xs + ys}
    d.update(extra)
    return d


def rp_series(count, kernel, **names):
    def f(m):
        a = {"xs": [m[f"x{i}"] for i in range(count)], "ys": [m[f"y{i}"] for i in range(count)]}
        for k, src in names.items():
            a[k] = m[src] if isinstance(src, str) else src
        return a
    return (kernel, f)


# ------------------------------------------------------------------------------------------------ between
def u_between(n=3):
    xs, ys, base = sym_series(n)
    a, b = R('a'), R('b')
    base += [xs[0] <= a, a < b, b <= xs[-1]]

    def make(eng):
        return [Ref.to(series_val(xs, ys)), a, b], None

    def post(eng, c, ret):
        rx, ry = series_parts(ret)
        obs = structure_obls(rx, ry)
        if poisoned(rx) or poisoned(ry) or not rx:
            obs.append(finite('finite ordinates', ry))
            obs.append(holds('result is not empty', len(rx) > 0))
            return obs
        obs.append(holds('slice starts exactly at the requested lower bound', rx[0] == a))
        obs.append(holds('slice ends exactly at the requested upper bound', rx[-1] == b))
        for j in range(len(rx)):
            obs.append(holds(f'slice sample {j} lies on the parent graph', on_graph(xs, ys, rx[j], num(ry[j]))))
        for i in range(n):
            obs.append(holds(f'parent knot {i} inside the interval is kept', z3.Implies(z3.And(a < xs[i], xs[i] < b), z3.Or([z3.And(rx[j] == xs[i], num(ry[j]) == ys[i]) for j in range(len(rx))]))))
        return obs

    return Unit(f'between[n={n}]', 'Series1::between', make, post, base=base, inputs=inputs_of(xs, ys, a=a, b=b), replay=rp_series(n, 'series_between', a='a', b='b'),
                bounds={'samples': n, 'values': '|x|,|y| <= 1e3, strictly ascending x', 'interval': 'x_min <= a < b <= x_max'})


def _graph_ok(xs, ys, x, y, tol=1e-6):
    import math
    if any(isinstance(v, str) for v in (x, y)):
        return False
    for i in range(len(xs) - 1):
        if xs[i] - 1e-12 <= x <= xs[i + 1] + 1e-12:
            if xs[i + 1] == xs[i]:
                if min(ys[i], ys[i + 1]) - tol <= y <= max(ys[i], ys[i + 1]) + tol:
                    return True
                continue
            w = ys[i] + (ys[i + 1] - ys[i]) * (x - xs[i]) / (xs[i + 1] - xs[i])
            if abs(w - y) <= tol * (1 + abs(w)):
                return True
    if len(xs) == 1:
        return x == xs[0] and y == ys[0]
    return False


def _series_sane(r):
    xs_, ys_ = r['x'], r['y']
    if len(xs_) != len(ys_):
        return 'abscissae and ordinates differ in number'
    if any(isinstance(v, str) for v in xs_):
        return 'non-finite abscissa'
    if any(xs_[i] > xs_[i + 1] for i in range(len(xs_) - 1)):
        return 'abscissae not ascending'
    return None


def j_between(o, rep, out):
    if 'ok' not in out:
        return 'panic'
    a = rep['args']
    r = out['ok']
    s = _series_sane(r)
    if s:
        return s
    if not r['x'] or r['x'][0] != a['a'] or r['x'][-1] != a['b']:
        return 'slice does not end exactly at the requested bounds'
    for x, y in zip(r['x'], r['y']):
        if not _graph_ok(a['xs'], a['ys'], x, y):
            return 'slice sample off the parent graph'
    for x, y in zip(a['xs'], a['ys']):
        if a['a'] < x < a['b'] and not any(x == u and y == w for u, w in zip(r['x'], r['y'])):
            return 'parent knot inside the interval dropped'
    return False


# ------------------------------------------------------------------------------------------------ interpolate
def u_interpolate(n=3):
    xs, ys, base = sym_series(n)
    x = R('x')
    base += [x >= -2 * B, x <= 2 * B]

    def make(eng):
        return [Ref.to(series_val(xs, ys)), x], None

    def post(eng, c, ret):
        obs = []
        if isinstance(ret, Poison):
            obs.append(holds('NaN only outside the domain', z3.Or(x < xs[0], x > xs[-1])))
            return obs
        y = num(ret)
        obs.append(holds('a value only inside the domain', z3.And(x >= xs[0], x <= xs[-1])))
        obs.append(holds('value lies on the piecewise-linear graph', on_graph(xs, ys, x, y)))
        for i in range(n):
            obs.append(holds(f'stored value at knot {i}', z3.Implies(x == xs[i], y == ys[i])))
        return obs

    return Unit(f'interpolate[n={n}]', 'Series1::interpolate', make, post, base=base, inputs=inputs_of(xs, ys, x=x), replay=rp_series(n, 'series_interpolate', x='x'),
                bounds={'samples': n, 'values': '|x|,|y| <= 1e3, strictly ascending x'})


def j_interpolate(o, rep, out):
    if 'ok' not in out:
        return 'panic'
    a, y = rep['args'], out['ok']
    inside = a['xs'][0] <= a['x'] <= a['xs'][-1]
    if isinstance(y, str):
        return 'NaN inside the domain' if inside else False
    if not inside:
        return 'value outside the domain'
    return False if _graph_ok(a['xs'], a['ys'], a['x'], y) else 'interpolated value off the graph'


# ------------------------------------------------------------------------------------------------ split + areas
def u_split(n=3):
    xs, ys, base = sym_series(n)
    x = R('x')
    base += [x >= -2 * B, x <= 2 * B]

    def entry(eng, args):
        s, xv = args
        parts = eng.call('Series1::split_at_x', [s, xv])
        total = eng.call('Series1::area_under', [s])
        areas = []
        for p in parts:
            p = unref(p)
            areas.append(eng.call('Series1::area_under', [Ref.to(p.f[0])]) if p.v == 'Some' else None)
        return [parts, total, areas]

    def make(eng):
        return [Ref.to(series_val(xs, ys)), x], None

    def post(eng, c, ret):
        parts, total, areas = ret
        l, r = parts
        obs = [holds('left piece exists iff x is not below the domain', (l.v == 'Some') == (x >= xs[0])) if False else holds('left piece missing only when x is below the domain', z3.Implies(z3.BoolVal(l.v == 'None'), x < xs[0])),
               holds('right piece missing only when x is above the domain', z3.Implies(z3.BoolVal(r.v == 'None'), x > xs[-1]))]
        if l.v == 'Some' and r.v == 'Some':
            lx, ly = series_parts(l.f[0])
            rx, ry = series_parts(r.f[0])
            obs += structure_obls(lx, ly, 'left: ') + structure_obls(rx, ry, 'right: ')
            if not poisoned([lx, ly, rx, ry]) and lx and rx:
                inside = z3.And(x >= xs[0], x <= xs[-1])
                obs.append(holds('pieces meet exactly at the split abscissa', z3.Implies(inside, z3.And(lx[-1] == x, rx[0] == x, lx[0] == xs[0], rx[-1] == xs[-1]))))
                for j in range(len(lx)):
                    obs.append(holds(f'left sample {j} on the parent graph', z3.Implies(inside, on_graph(xs, ys, lx[j], num(ly[j])))))
                for j in range(len(rx)):
                    obs.append(holds(f'right sample {j} on the parent graph', z3.Implies(inside, on_graph(xs, ys, rx[j], num(ry[j])))))
                obs.append(eq('areas of the pieces add up to the whole', num(areas[0]) + num(areas[1]), num(total), scale=B * B))
        return obs

    return Unit(f'split_at_x[n={n}]', entry, make, post, base=base, inputs=inputs_of(xs, ys, x=x), replay=rp_series(n, 'series_split', x='x'),
                bounds={'samples': n, 'values': '|x|,|y| <= 1e3, strictly ascending x'})


def j_split(o, rep, out):
    if 'ok' not in out:
        return 'panic'
    a, r = rep['args'], out['ok']
    x = a['x']
    if r['left'] is None and not x < a['xs'][0]:
        return 'left piece missing'
    if r['right'] is None and not x > a['xs'][-1]:
        return 'right piece missing'
    if r['left'] and r['right'] and a['xs'][0] <= x <= a['xs'][-1]:
        for p in (r['left'], r['right']):
            s = _series_sane(p)
            if s:
                return s
            for u, w in zip(p['x'], p['y']):
                if not _graph_ok(a['xs'], a['ys'], u, w):
                    return 'piece sample off the parent graph'
        if r['left']['x'][-1] != x or r['right']['x'][0] != x:
            return 'pieces do not meet at the split abscissa'
        if abs(r['area_left'] + r['area_right'] - r['area']) > 1e-6 * (1 + abs(r['area'])):
            return 'areas of the pieces do not add up'
    return False


# ------------------------------------------------------------------------------------------------ crossings
def u_crossings(n=3):
    xs, ys, base = sym_series(n)
    lv = R('level')
    base += [lv >= -B, lv <= B]
    # neighbouring knots at least 1e-6 apart so the 1e-10 de-duplication cannot merge distinct crossings of different segments
    base += [xs[i + 1] - xs[i] >= z3.RealVal('1/1000000') for i in range(n - 1)]

    def make(eng):
        return [Ref.to(series_val(xs, ys)), lv], None

    def post(eng, c, ret):
        cr = [v for v in ret.items]
        obs = [finite('crossings are finite', cr)]
        if poisoned(cr):
            return obs
        cr = [num(v) for v in cr]
        for j in range(len(cr) - 1):
            obs.append(holds('crossings ascending and distinct', cr[j] < cr[j + 1]))
        for j, xc in enumerate(cr):
            obs.append(holds(f'crossing {j} is a point where the interpolant equals the level', on_graph(xs, ys, xc, lv)))
        near = lambda u: z3.Or([z3.And(xc - u <= z3.RealVal('1/1000000000'), u - xc <= z3.RealVal('1/1000000000')) for xc in cr]) if cr else z3.BoolVal(False)
        for i in range(n):
            obs.append(holds(f'knot {i} on the level is reported', z3.Implies(ys[i] == lv, near(xs[i]))))
        for i in range(n - 1):
            trans = z3.Or(z3.And(ys[i] < lv, lv < ys[i + 1]), z3.And(ys[i] > lv, lv > ys[i + 1]))
            e9 = z3.RealVal('1/1000000000')
            # (a crossing within the 1e-10 de-duplication distance of a neighbouring segment's crossing may be merged with it)
            inseg = z3.Or([z3.And(xs[i] - e9 <= xc, xc <= xs[i + 1] + e9) for xc in cr]) if cr else z3.BoolVal(False)
            obs.append(holds(f'transversal crossing of segment {i} is reported', z3.Implies(trans, inseg)))
        return obs

    return Unit(f'y_crossings[n={n}]', 'Series1::y_crossings', make, post, base=base, inputs=inputs_of(xs, ys, level=lv), replay=rp_series(n, 'series_crossings', level='level'),
                bounds={'samples': n, 'values': '|x|,|y| <= 1e3, knots >= 1e-6 apart'})


def j_crossings(o, rep, out):
    a = rep['args']
    flat = any(a['ys'][i] == a['level'] and a['ys'][i + 1] == a['level'] for i in range(len(a['ys']) - 1))
    if 'ok' not in out:
        return 'panic (NaN crossing) on a flat segment lying on the level' if flat else 'panic'
    cr = out['ok']
    if any(isinstance(v, str) for v in cr):
        return 'non-finite crossing' + (' on a flat segment lying on the level' if flat else '')
    if any(cr[i] >= cr[i + 1] for i in range(len(cr) - 1)):
        return 'crossings not ascending'
    for xc in cr:
        if not _graph_ok(a['xs'], a['ys'], xc, a['level']):
            return 'reported crossing is not on the level'
    for x, y in zip(a['xs'], a['ys']):
        if y == a['level'] and not any(abs(xc - x) <= 1e-9 for xc in cr):
            return 'knot on the level not reported'
    for i in range(len(a['xs']) - 1):
        y0, y1 = a['ys'][i], a['ys'][i + 1]
        if (y0 < a['level'] < y1 or y0 > a['level'] > y1) and not any(a['xs'][i] - 1e-9 <= xc <= a['xs'][i + 1] + 1e-9 for xc in cr):
            return 'transversal crossing not reported'
    return False


# ------------------------------------------------------------------------------------------------ resampled_n
def u_resampled(n=3, m=3):
    xs, ys, base = sym_series(n)

    def make(eng):
        return [Ref.to(series_val(xs, ys)), m], None

    def post(eng, c, ret):
        rx, ry = series_parts(ret)
        obs = structure_obls(rx, ry) + [holds('requested number of samples', len(rx) == m), finite('finite ordinates', ry)]
        if poisoned([rx, ry]) or len(rx) != m:
            return obs
        obs.append(holds('first sample is the first end point', z3.And(rx[0] == xs[0], num(ry[0]) == ys[0])))
        obs.append(holds('last sample is the last end point', z3.And(rx[-1] == xs[-1], num(ry[-1]) == ys[-1])))
        for j in range(m):
            obs.append(holds(f'sample {j} lies on the graph', on_graph(xs, ys, rx[j], num(ry[j]))))
        return obs

    return Unit(f'resampled_n[n={n},m={m}]', 'Series1::resampled_n', make, post, base=base, inputs=inputs_of(xs, ys), replay=rp_series(n, 'series_resampled_n', n=m),
                bounds={'samples': n, 'resampled to': m})


def j_resampled(o, rep, out):
    if 'ok' not in out:
        return 'panic'
    a, r = rep['args'], out['ok']
    s = _series_sane(r)
    if s:
        return s
    if len(r['x']) != a['n']:
        return 'wrong number of samples'
    if r['x'][0] != a['xs'][0] or abs(r['x'][-1] - a['xs'][-1]) > 1e-9 or r['y'][0] != a['ys'][0]:
        return 'end points not kept'
    for u, w in zip(r['x'], r['y']):
        if not _graph_ok(a['xs'], a['ys'], u, w):
            return 'resampled point off the graph'
    return False


# ------------------------------------------------------------------------------------------------ scaling / shifting / NaN removal
def u_scaled(n=3, sign=1):
    xs, ys, base = sym_series(n, strict=False)
    sx, sy = R('sx'), R('sy')
    base += [sx * sign >= 0, sx >= -B, sx <= B, sy >= -B, sy <= B]

    def make(eng):
        return [Ref.to(series_val(xs, ys)), sx, sy], None

    def post(eng, c, ret):
        rx, ry = series_parts(ret)
        obs = structure_obls(rx, ry) + [holds('same number of samples', len(rx) == n)]
        if len(rx) == n and not poisoned([rx, ry]):
            for i in range(n):
                obs.append(holds(f'sample {i} stays paired', z3.Or([z3.And(rx[i] == xs[j] * sx, num(ry[i]) == ys[j] * sy) for j in range(n)])))
            for j in range(n):
                obs.append(holds(f'source sample {j} is present', z3.Or([z3.And(rx[i] == xs[j] * sx, num(ry[i]) == ys[j] * sy) for i in range(n)])))
        return obs

    return Unit(f'scaled_by[n={n},{"sx>=0" if sign > 0 else "sx<=0"}]', 'Series1::scaled_by', make, post, base=base, inputs=inputs_of(xs, ys, sx=sx, sy=sy),
                replay=rp_series(n, 'series_scaled', sx='sx', sy='sy'), bounds={'samples': n, 'factors': '|s| <= 1e3'})


def j_scaled(o, rep, out):
    if 'ok' not in out:
        return 'panic'
    a, r = rep['args'], out['ok']
    s = _series_sane(r)
    if s:
        return s
    want = sorted((x * a['sx'], y * a['sy']) for x, y in zip(a['xs'], a['ys']))
    got = sorted(zip(r['x'], r['y']))
    if len(want) != len(got) or any(abs(w[0] - g[0]) > 1e-9 * (1 + abs(w[0])) or abs(w[1] - g[1]) > 1e-9 * (1 + abs(w[1])) for w, g in zip(want, got)):
        return 'scaled samples are not the scaled source samples'
    return False


def u_shifted(n=3):
    xs, ys, base = sym_series(n, strict=False)
    dx, dy = R('dx'), R('dy')
    base += [dx >= -B, dx <= B, dy >= -B, dy <= B]

    def make(eng):
        return [Ref.to(series_val(xs, ys)), dx, dy], None

    def post(eng, c, ret):
        rx, ry = series_parts(ret)
        obs = structure_obls(rx, ry) + [holds('same number of samples', len(rx) == n)]
        if len(rx) == n and not poisoned([rx, ry]):
            for i in range(n):
                obs.append(holds(f'sample {i} shifted', z3.And(rx[i] == xs[i] + dx, num(ry[i]) == ys[i] + dy)))
        return obs

    return Unit(f'shift_by[n={n}]', 'Series1::shift_by', make, post, base=base, inputs=inputs_of(xs, ys, dx=dx, dy=dy), replay=rp_series(n, 'series_shifted', dx='dx', dy='dy'),
                bounds={'samples': n})


def j_shifted(o, rep, out):
    if 'ok' not in out:
        return 'panic'
    a, r = rep['args'], out['ok']
    s = _series_sane(r)
    if s:
        return s
    if len(r['x']) != len(a['xs']) or any(abs(u - (x + a['dx'])) > 1e-9 * (1 + abs(u)) for u, x in zip(r['x'], a['xs'])) or any(abs(w - (y + a['dy'])) > 1e-9 * (1 + abs(w)) for w, y in zip(r['y'], a['ys'])):
        return 'shifted samples wrong'
    return False


def u_remove_nan(n=3, mask=1):
    xs, ys, base = sym_series(n, strict=False)
    ysv = [Poison('nan', 'NaN ordinate') if (mask >> i) & 1 else ys[i] for i in range(n)]

    def make(eng):
        return [Ref.to(series_val(xs, ysv))], None

    def post(eng, c, ret):
        rx, ry = series_parts(ret)
        keep = [i for i in range(n) if not (mask >> i) & 1]
        obs = structure_obls(rx, ry) + [holds('exactly the NaN samples are dropped', len(rx) == len(keep)), finite('no NaN ordinate left', ry)]
        if len(rx) == len(keep) and not poisoned([rx, ry]):
            for j, i in enumerate(keep):
                obs.append(holds(f'kept sample {j} is source sample {i}', z3.And(rx[j] == xs[i], num(ry[j]) == ys[i])))
        return obs

    def rp(m):
        return {'xs': [m[f'x{i}'] for i in range(n)], 'ys': ['nan' if (mask >> i) & 1 else m[f'y{i}'] for i in range(n)]}

    return Unit(f'remove_nan[n={n},nan mask={mask:b}]', 'Series1::remove_nan', make, post, base=base, inputs=inputs_of(xs, ys), replay=('series_remove_nan', rp), bounds={'samples': n})


def j_remove_nan(o, rep, out):
    if 'ok' not in out:
        return 'panic'
    a, r = rep['args'], out['ok']
    want = [(x, y) for x, y in zip(a['xs'], a['ys']) if not isinstance(y, str)]
    got = list(zip(r['x'], r['y']))
    return False if want == got else 'remove_nan kept/dropped the wrong samples'


JUDGES = {'between': j_between, 'interpolate': j_interpolate, 'split_at_x': j_split, 'y_crossings': j_crossings, 'resampled_n': j_resampled,
          'scaled_by': j_scaled, 'shift_by': j_shifted, 'remove_nan': j_remove_nan}

UNITS = {
    'quick': [('u_between', {'n': 2}), ('u_between', {'n': 3}), ('u_interpolate', {'n': 3}), ('u_split', {'n': 3}), ('u_crossings', {'n': 2}), ('u_crossings', {'n': 3}),
              ('u_resampled', {'n': 3, 'm': 2}), ('u_resampled', {'n': 3, 'm': 3}), ('u_scaled', {'n': 3, 'sign': 1}), ('u_scaled', {'n': 3, 'sign': -1}),
              ('u_shifted', {'n': 3}), ('u_remove_nan', {'n': 3, 'mask': 2}), ('u_remove_nan', {'n': 3, 'mask': 5})],
    'thorough': [('u_between', {'n': k}) for k in (2, 3, 4)] + [('u_interpolate', {'n': k}) for k in (2, 3, 4)] + [('u_split', {'n': k}) for k in (2, 3, 4)] +
                [('u_crossings', {'n': k}) for k in (2, 3, 4)] + [('u_resampled', {'n': 3, 'm': m}) for m in (2, 3, 4)] + [('u_resampled', {'n': 4, 'm': 3})] +
                [('u_scaled', {'n': k, 'sign': s}) for k in (3, 4) for s in (1, -1)] + [('u_shifted', {'n': 4})] + [('u_remove_nan', {'n': 3, 'mask': mk}) for mk in range(1, 8)],
}


def run(v, tier, seed, only=None):
    jobs = [(MOD, f, k) for (f, k) in UNITS[tier] if not only or only in f]
    res = run_jobs(jobs, seed=seed, procs=14, timeout_s=600 if tier == 'quick' else 3000)
    fold_results(v, res, JUDGES, 'C17')
