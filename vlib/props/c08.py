"""C08 - alignment parameters round-trip and Jacobians are true derivatives (engine M).

The rotation-centred parameter objects (RcParams2 / RcParams3), the parameter <-> isometry conversions, the Euler rotation
matrices with their derivative matrices, and the analytic Jacobians are executed from MIR with free rotation angles (cos/sin
pairs on the unit circle) and symbolic translations, centres and points.  "Is the derivative" is decided exactly: the residual
is built from the transform that the real code computed for the symbolic parameter vector, differentiated symbolically in the
driver (d cos = -sin, d sin = cos, product rule on the z3 terms), and the analytic Jacobian entry computed by the real code
must equal that derivative as a polynomial identity modulo cos^2 + sin^2 = 1.  Solver models are confirmed on the real
build against central finite differences (h = 1e-6), which is the wording of the property."""
import re
import z3
from fractions import Fraction
from mirsym.driver import *
from mirsym.vals import *
from mirsym.ext import pt, vec_of, unref, items_of, Mat, iso_parts, quat, rot2, rot2_cs
from mirsym.ext_na import unit as unit_val

from .geomlib import rat, sq, bounded, DIRS2, NORM2, DIRS3, NORM3, unit2, unit3, B
from .c19 import dot, cross
from .c03 import Iso, ROT2, ROT3, matvec, matT, matmul, veq, sp_val, j_pairs as _jp

MOD = 'vlib.props.c08'
R_ = z3.Real


# ------------------------------------------------------------------------------------------------ symbolic differentiation
def ddiff(e, wrt=None, angle=None):
    """derivative of a polynomial z3 term with respect to a real variable `wrt` or to the free angle named `angle`
    (its pair angle.cos / angle.sin): exact, by the sum / product / quotient-by-constant rules"""
    if not is_sym(e):
        return z3.RealVal(0)
    e = z3.simplify(e) if False else e
    k = e.decl().kind()
    if z3.is_rational_value(e) or z3.is_int_value(e) or z3.is_algebraic_value(e):
        return z3.RealVal(0)
    if z3.is_const(e) and k == z3.Z3_OP_UNINTERPRETED:
        nm = str(e)
        if wrt is not None:
            return z3.RealVal(1) if nm == str(wrt) else z3.RealVal(0)
        if nm == angle + '.cos':
            return -z3.Real(angle + '.sin')
        if nm == angle + '.sin':
            return z3.Real(angle + '.cos')
        if nm == angle:
            return z3.RealVal(1)
        if nm in ctx().defn and not nm.endswith(('.cos', '.sin')) and nm not in _FREE:
            raise Unsupported(f'derivative through the defined term {nm}')
        return z3.RealVal(0)
    ch = e.children()
    if k == z3.Z3_OP_ADD:
        r = ddiff(ch[0], wrt, angle)
        for c in ch[1:]:
            r = r + ddiff(c, wrt, angle)
        return r
    if k == z3.Z3_OP_SUB:
        r = ddiff(ch[0], wrt, angle)
        for c in ch[1:]:
            r = r - ddiff(c, wrt, angle)
        return r
    if k == z3.Z3_OP_UMINUS:
        return -ddiff(ch[0], wrt, angle)
    if k == z3.Z3_OP_MUL:
        total = None
        for i in range(len(ch)):
            d = ddiff(ch[i], wrt, angle)
            if z3.is_rational_value(d) and d.numerator_as_long() == 0:
                continue
            term = d
            for j, c in enumerate(ch):
                if j != i:
                    term = term * c
            total = term if total is None else total + term
        return total if total is not None else z3.RealVal(0)
    if k == z3.Z3_OP_DIV:
        a, b = ch
        db = ddiff(b, wrt, angle)
        if not (z3.is_rational_value(z3.simplify(db)) and z3.simplify(db).numerator_as_long() == 0):
            raise Unsupported('derivative of a quotient with a varying denominator')
        return ddiff(a, wrt, angle) / b
    if k == z3.Z3_OP_POWER:
        a, n = ch
        nf = as_fraction(n)
        if nf is None or nf.denominator != 1 or nf < 1:
            raise Unsupported('derivative of a general power')
        n = int(nf)
        return z3.RealVal(n) * (a ** (n - 1) if n > 2 else (a if n == 2 else z3.RealVal(1))) * ddiff(a, wrt, angle)
    if k == z3.Z3_OP_TO_REAL:
        return z3.RealVal(0)
    raise Unsupported('derivative of ' + str(e.decl()))


_FREE = set()


def free_angle(name, lo=None, hi=None):
    _FREE.update({name, name + '.cos', name + '.sin'})
    return Angle.free(name, lo, hi)


def mat_rows(rot, dim):
    """rotation value -> matrix rows"""
    rot = unref(rot)
    if dim == 2:
        c, s = rot2_cs(rot)
        return [[c, -s], [s, c]]
    m = rot[0] if isinstance(rot, Struct) and rot.name == 'Quat' else rot
    if isinstance(m, Struct) and m.name == 'Rotation':
        m = m[0]
    return [list(r) for r in m.rows]


def iso_rt(iso, dim):
    rot, tr = iso_parts(iso)
    return mat_rows(rot, dim), [num(x) for x in vec_of(tr)]


def iso_eq(name, iso, Rw, tw, dim, scale=4 * B):
    Rg, tg = iso_rt(iso, dim)
    obs = []
    for i in range(dim):
        for j in range(dim):
            obs.append(eq(f'{name}: rotation [{i}][{j}]', Rg[i][j], Rw[i][j], scale=1))
        obs.append(eq(f'{name}: translation [{i}]', tg[i], tw[i], scale=scale))
    return obs


def j_pairs(o, rep, out):
    if 'ok' not in out:
        return 'panic'
    worst = None
    for name, got, want, tol in out['ok']['pairs']:
        if isinstance(got, str) or isinstance(want, str):
            return re.sub(r'\d+', 'N', name) + ' (non-finite)'
        if abs(got - want) > tol:
            worst = worst or re.sub(r'\d+', 'N', name)
    return worst or False


PI_Z = z3.RealVal(str(PI_F))


def ang_inputs(*names):
    """the model's cos/sin pair of each free angle (the radian shadow is not tied to the pair unless a range was given)"""
    d = {}
    for n in names:
        d[n + '.cos'] = R_(n + '.cos')
        d[n + '.sin'] = R_(n + '.sin')
    return d


def ang(mm, n):
    import math
    return math.atan2(mm[n + '.sin'], mm[n + '.cos'])


# ------------------------------------------------------------------------------------------------ 2D
def u_param2(rot=2):
    """iso2_from_param / param_from_iso2 round trips"""
    tx, ty = R_('tx'), R_('ty')
    T = Iso(2, rot)
    st = {}
    base = bounded(tx, ty) + T.base + [R_('th') > -PI_Z, R_('th') <= PI_Z]
    M = get_mir()
    f_from, f_to = M.resolve('iso2_from_param'), M.resolve('param_from_iso2')

    def composite(eng, _a):
        th = free_angle('th', -PI_F, PI_F)
        st['th'] = th
        iso = eng.run_fn(f_from, [Ref.to([tx, ty, th])])
        back = eng.run_fn(f_to, [Ref.to(iso)])
        iso2 = eng.run_fn(f_from, [Ref.to(eng.run_fn(f_to, [Ref.to(T.val())]))])
        return {'iso': iso, 'back': back, 'iso2': iso2}

    def post(eng, c, r):
        th = st['th']
        cs = th.cos_sin()
        obs = iso_eq('parameters -> isometry', r['iso'], [[cs[0], -cs[1]], [cs[1], cs[0]]], [tx, ty], 2)
        b = r['back']
        obs.append(holds('translation parameters round trip', z3.And(num(b[0]) == tx, num(b[1]) == ty)))
        bc, bs = to_angle(b[2]).cos_sin()
        obs.append(eq('rotation parameter round trip (cos)', bc, cs[0]))
        obs.append(eq('rotation parameter round trip (sin)', bs, cs[1]))
        obs += iso_eq('isometry -> parameters -> isometry', r['iso2'], T.R, T.t, 2)
        return obs

    return Unit(f'param2_roundtrip[{T.label()}]', composite, lambda eng: ([], None), post, base=base, inputs={**T.inp, 'tx': tx, 'ty': ty, 'th': R_('th'), **ang_inputs('th')},
                replay=('param2', lambda mm: {'x': [mm['tx'], mm['ty'], ang(mm, 'th')], 'iso': T.json(mm)}),
                bounds={'translation': '|.| <= 1e3', 'angle': '(-pi, pi]', 'isometry': T.label()}, timeout_ms=20000)


def u_rc2(rot=2, after_set=True):
    """RcParams2: from_initial reproduces the isometry, inverse and moved centre stay consistent after set, pure translation"""
    T = Iso(2, rot)
    rc = [R_('rcx'), R_('rcy')]
    x = [R_('x0'), R_('x1')]
    sh = [R_('dx'), R_('dy')]
    base = T.base + bounded(*(rc + x + sh))
    st = {}
    M = get_mir()
    f_init, f_set = M.resolve('RcParams2::from_initial'), M.resolve('RcParams2::set')

    def snap(p):
        return {'transform': iso_rt(p[2], 2), 'inverse': iso_rt(p[3], 2), 'rotation': iso_rt(p[4], 2), 'current_rc': [num(v) for v in vec_of(p[5])]}

    def composite(eng, _a):
        p = eng.run_fn(f_init, [Ref.to(T.val()), Ref.to(pt(list(rc)))])
        o = {'init': snap(p)}
        th = free_angle('th')
        st['th'] = th
        ref = Ref.to(p)
        eng.run_fn(f_set, [ref, Ref.to([x[0], x[1], th])])
        o['set'] = snap(p)
        eng.run_fn(f_set, [ref, Ref.to([x[0] + sh[0], x[1] + sh[1], th])])
        o['shift'] = snap(p)
        return o

    def consistent(tag, s):
        Rm, t = s['transform']
        Ri, ti = s['inverse']
        obs = []
        prod = matmul(Ri, Rm)
        for i in range(2):
            for j in range(2):
                obs.append(eq(f'{tag}: inverse * transform = identity (rotation [{i}][{j}])', prod[i][j], rat(1 if i == j else 0)))
            obs.append(eq(f'{tag}: inverse * transform = identity (translation [{i}])', matvec(Ri, t)[i] + ti[i], rat(0), scale=4 * B))
            obs.append(eq(f'{tag}: moved rotation centre is transform * rc [{i}]', s['current_rc'][i], matvec(Rm, rc)[i] + t[i], scale=4 * B))
        return obs

    def post(eng, c, r):
        obs = []
        Rm, t = r['init']['transform']
        for i in range(2):
            for j in range(2):
                obs.append(eq(f'from_initial reproduces the isometry (rotation [{i}][{j}])', Rm[i][j], T.R[i][j]))
            obs.append(eq(f'from_initial reproduces the isometry (translation [{i}])', t[i], T.t[i], scale=4 * B))
        obs += consistent('from_initial', r['init'])
        cs = st['th'].cos_sin()
        Rx = [[cs[0], -cs[1]], [cs[1], cs[0]]]
        Rs, ts = r['set']['transform']
        want_t = [rc[i] + x[i] - matvec(Rx, rc)[i] for i in range(2)]
        for i in range(2):
            for j in range(2):
                obs.append(eq(f'set: rotation is the parameter rotation [{i}][{j}]', Rs[i][j], Rx[i][j]))
                obs.append(eq(f'set: rotation() accessor [{i}][{j}]', r['set']['rotation'][0][i][j], Rx[i][j]))
            obs.append(eq(f'set: translation is that of the parameter isometry about the rotation centre [{i}]', ts[i], want_t[i], scale=4 * B))
        obs += consistent('set', r['set'])
        R2, t2 = r['shift']['transform']
        for i in range(2):
            for j in range(2):
                obs.append(eq(f'pure translation change keeps the rotation [{i}][{j}]', R2[i][j], Rs[i][j]))
            obs.append(eq(f'pure translation change translates by that vector wherever the centre is [{i}]', t2[i], ts[i] + sh[i], scale=4 * B))
        obs += consistent('after the translation change', r['shift'])
        return obs

    inp = {**T.inp, 'rcx': rc[0], 'rcy': rc[1], 'x0': x[0], 'x1': x[1], 'th': R_('th'), 'dx': sh[0], 'dy': sh[1], **ang_inputs('th')}
    return Unit(f'rc_params2[{T.label()}]', composite, lambda eng: ([], None), post, base=base + [R_('th') >= -4, R_('th') <= 4], inputs=inp,
                replay=('rc2', lambda mm: {'iso': T.json(mm), 'rc': [mm['rcx'], mm['rcy']], 'x': [mm['x0'], mm['x1'], ang(mm, 'th')], 'shift': [mm['dx'], mm['dy']]}),
                bounds={'initial isometry': T.label() + ', |t| <= 1e3', 'rotation centre': '|coords| <= 1e3', 'parameters': '|x0|,|x1| <= 1e3, any angle (cos/sin pair)'}, timeout_ms=20000)


def u_jac2(rot=2, dn=4):
    T = Iso(2, rot)
    rc = [R_('rcx'), R_('rcy')]
    x = [R_('x0'), R_('x1')]
    p = [R_('px'), R_('py')]
    s = [R_('sx'), R_('sy')]
    n = unit2(dn)
    base = T.base + bounded(*(rc + x + p + s)) + [R_('th') >= -4, R_('th') <= 4]
    st = {}
    M = get_mir()
    f_init, f_set, f_jac = M.resolve('RcParams2::from_initial'), M.resolve('RcParams2::set'), M.resolve('point_surface_jacobian')

    def composite(eng, _a):
        prm = eng.run_fn(f_init, [Ref.to(T.val()), Ref.to(pt(list(rc)))])
        th = free_angle('th')
        st['th'] = th
        eng.run_fn(f_set, [Ref.to(prm), Ref.to([x[0], x[1], th])])
        j = eng.run_fn(f_jac, [Ref.to(pt(list(p))), Ref.to(sp_val(s, n)), Ref.to(prm)])
        return {'j': j, 'transform': iso_rt(prm[2], 2)}

    def post(eng, c, r):
        Rm, t = r['transform']
        obs = []
        j = [num(v) for v in vec_of(r['j'])]
        # residual n.(T(x) T(x0)^-1 p - s); derivative at x0: n.(dR R^T (p - t) + dt)
        q = matvec(matT(Rm), [p[i] - t[i] for i in range(2)])
        for i, (wrt, ang) in enumerate(((x[0], None), (x[1], None), (None, 'th'))):
            dR = [[ddiff(Rm[a][b], wrt, ang) for b in range(2)] for a in range(2)]
            dt = [ddiff(t[a], wrt, ang) for a in range(2)]
            moved = [matvec(dR, q)[a] + dt[a] for a in range(2)]
            obs.append(eq(f'2D point-to-surface Jacobian entry {i} is the derivative of the residual', j[i], n[0] * moved[0] + n[1] * moved[1], scale=8 * B))
        return obs

    inp = {**T.inp, 'rcx': rc[0], 'rcy': rc[1], 'x0': x[0], 'x1': x[1], 'th': R_('th'), 'px': p[0], 'py': p[1], 'sx': s[0], 'sy': s[1], **ang_inputs('th')}
    return Unit(f'jacobian2[{T.label()},normal={DIRS2[dn]}]', composite, lambda eng: ([], None), post, base=base, inputs=inp,
                replay=('jac2', lambda mm: {'iso': T.json(mm), 'rc': [mm['rcx'], mm['rcy']], 'x': [mm['x0'], mm['x1'], ang(mm, 'th')], 'p': [mm['px'], mm['py']], 'sp': [mm['sx'], mm['sy']],
                                            'n': [float(v) / NORM2[dn] for v in DIRS2[dn]]}),
                bounds={'initial isometry': T.label(), 'rotation centre, points': '|coords| <= 1e3', 'pose': 'any angle, |x0|,|x1| <= 1e3', 'surface normal': 'direction class'}, timeout_ms=20000)


# ------------------------------------------------------------------------------------------------ 3D
def euler_rows(cs):
    """Rx * Ry * Rz from three (cos, sin) pairs"""
    (cx, sx), (cy, sy), (cz, sz) = cs
    Rx = [[rat(1), rat(0), rat(0)], [rat(0), cx, -sx], [rat(0), sx, cx]]
    Ry = [[cy, rat(0), sy], [rat(0), rat(1), rat(0)], [-sy, rat(0), cy]]
    Rz = [[cz, -sz, rat(0)], [sz, cz, rat(0)], [rat(0), rat(0), rat(1)]]
    return matmul(matmul(Rx, Ry), Rz)


def u_rotmats():
    """RotationMatrices::from_euler: q = Rx Ry Rz, d = dR/dr_i, rd = d R^-1"""
    st = {}
    M = get_mir()
    f_eu = M.resolve('RotationMatrices::from_euler')

    def composite(eng, _a):
        an = [free_angle(nm) for nm in ('rx', 'ry', 'rz')]
        st['an'] = an
        return eng.run_fn(f_eu, list(an))

    def post(eng, c, r):
        an = st['an']
        Rw = euler_rows([a.cos_sin() for a in an])
        q = mat_rows(r[1], 3)
        obs = []
        for i in range(3):
            for j in range(3):
                obs.append(eq(f'q is Rx*Ry*Rz [{i}][{j}]', q[i][j], Rw[i][j]))
        for k, nm in enumerate(('rx', 'ry', 'rz')):
            d = mat_rows(r[2][k], 3) if not isinstance(r[2][k], Mat) else [list(x) for x in r[2][k].rows]
            rd = mat_rows(r[3][k], 3) if not isinstance(r[3][k], Mat) else [list(x) for x in r[3][k].rows]
            dW = [[ddiff(Rw[i][j], None, nm) for j in range(3)] for i in range(3)]
            rdW = matmul(dW, matT(Rw))
            for i in range(3):
                for j in range(3):
                    obs.append(eq(f'd.{nm[1]} is the derivative of the rotation matrix [{i}][{j}]', d[i][j], dW[i][j]))
                    obs.append(eq(f'rd.{nm[1]} is d * R^-1 [{i}][{j}]', rd[i][j], rdW[i][j]))
        return obs

    return Unit('rotation_matrices', composite, lambda eng: ([], None), post, base=[z3.And(R_(n) >= -4, R_(n) <= 4) for n in ('rx', 'ry', 'rz')],
                inputs={'rx': R_('rx'), 'ry': R_('ry'), 'rz': R_('rz'), **ang_inputs('rx', 'ry', 'rz')}, replay=('rotmats', lambda mm: {'e': [ang(mm, 'rx'), ang(mm, 'ry'), ang(mm, 'rz')]}),
                bounds={'Euler angles': 'any (three free cos/sin pairs)'}, timeout_ms=30000)


def u_rc3(rot=1):
    T = Iso(3, rot)
    rc = [R_('rcx'), R_('rcy'), R_('rcz')]
    x = [R_('x0'), R_('x1'), R_('x2')]
    sh = [R_('dx'), R_('dy'), R_('dz')]
    base = T.base + bounded(*(rc + x + sh)) + [z3.And(R_(n) >= -4, R_(n) <= 4) for n in ('rx', 'ry', 'rz')]
    st = {}
    M = get_mir()
    f_init, f_set = M.resolve('RcParams3::from_initial'), M.resolve('RcParams3::set')

    def snap(p):
        return {'transform': iso_rt(p[4], 3), 'inverse': iso_rt(p[5], 3), 'current_rc': [num(v) for v in vec_of(p[7])]}

    def composite(eng, _a):
        p = eng.run_fn(f_init, [Ref.to(T.val()), Ref.to(pt(list(rc)))])
        o = {'init': snap(p)}
        an = [free_angle(nm) for nm in ('rx', 'ry', 'rz')]
        st['an'] = an
        ref = Ref.to(p)
        eng.run_fn(f_set, [ref, Ref.to([x[0], x[1], x[2]] + an)])
        o['set'] = snap(p)
        eng.run_fn(f_set, [ref, Ref.to([x[i] + sh[i] for i in range(3)] + an)])
        o['shift'] = snap(p)
        return o

    def consistent(tag, s):
        Rm, t = s['transform']
        Ri, ti = s['inverse']
        obs = []
        prod = matmul(Ri, Rm)
        for i in range(3):
            for j in range(3):
                obs.append(eq(f'{tag}: inverse * transform = identity (rotation [{i}][{j}])', prod[i][j], rat(1 if i == j else 0)))
            obs.append(eq(f'{tag}: inverse * transform = identity (translation [{i}])', matvec(Ri, t)[i] + ti[i], rat(0), scale=4 * B))
            obs.append(eq(f'{tag}: moved rotation centre is transform * rc [{i}]', s['current_rc'][i], matvec(Rm, rc)[i] + t[i], scale=4 * B))
        return obs

    def post(eng, c, r):
        obs = []
        Rm, t = r['init']['transform']
        for i in range(3):
            for j in range(3):
                obs.append(eq(f'from_initial reproduces the isometry (rotation [{i}][{j}])', Rm[i][j], T.R[i][j]))
            obs.append(eq(f'from_initial reproduces the isometry (translation [{i}])', t[i], T.t[i], scale=4 * B))
        obs += consistent('from_initial', r['init'])
        Rx = euler_rows([a.cos_sin() for a in st['an']])
        Rs, ts = r['set']['transform']
        rcd = T.pt(rc)
        want_t = [rcd[i] + x[i] - matvec(Rx, rc)[i] for i in range(3)]
        for i in range(3):
            for j in range(3):
                obs.append(eq(f'set: rotation is the parameter rotation [{i}][{j}]', Rs[i][j], Rx[i][j]))
            obs.append(eq(f'set: translation is that of the parameter isometry about the rotation centre [{i}]', ts[i], want_t[i], scale=4 * B))
        obs += consistent('set', r['set'])
        R2, t2 = r['shift']['transform']
        for i in range(3):
            for j in range(3):
                obs.append(eq(f'pure translation change keeps the rotation [{i}][{j}]', R2[i][j], Rs[i][j]))
            obs.append(eq(f'pure translation change translates by that vector wherever the centre is [{i}]', t2[i], ts[i] + sh[i], scale=4 * B))
        obs += consistent('after the translation change', r['shift'])
        return obs

    inp = {**T.inp, **{k: R_(k) for k in ('rcx', 'rcy', 'rcz', 'x0', 'x1', 'x2', 'dx', 'dy', 'dz', 'rx', 'ry', 'rz')}, **ang_inputs('rx', 'ry', 'rz')}
    return Unit(f'rc_params3[{T.label()}]', composite, lambda eng: ([], None), post, base=base, inputs=inp,
                replay=('rc3', lambda mm: {'iso': T.json(mm), 'rc': [mm['rcx'], mm['rcy'], mm['rcz']], 'x': [mm['x0'], mm['x1'], mm['x2'], ang(mm, 'rx'), ang(mm, 'ry'), ang(mm, 'rz')], 'shift': [mm['dx'], mm['dy'], mm['dz']]}),
                bounds={'initial isometry': T.label() + ', |t| <= 1e3', 'rotation centre': '|coords| <= 1e3', 'parameters': 'translations |.| <= 1e3, any Euler angles (cos/sin pairs)'},
                timeout_ms=30000)


def u_jac3(rot=1, dn=6, kind='plane', side=1):
    """analytic 3D Jacobians at an updated pose against the derivative of their residual"""
    T = Iso(3, rot)
    rc = [R_('rcx'), R_('rcy'), R_('rcz')]
    x = [R_('x0'), R_('x1'), R_('x2')]
    p = [R_('px'), R_('py'), R_('pz')]
    s = [R_('sx'), R_('sy'), R_('sz')]
    h = R_('h')
    n = unit3(dn)
    base = T.base + bounded(*(rc + x + s)) + [z3.And(R_(k) >= -4, R_(k) <= 4) for k in ('rx', 'ry', 'rz')]
    kp = []
    if kind == 'plane':
        base += bounded(*p)
        # the residual |n.(p - s)| is differentiable away from the plane: fix the side
        base += [dot(n, [p[i] - s[i] for i in range(3)]) * side >= rat('1/1000')]
    elif kind == 'rev':
        # documented use of the reference-side variant: the test point lies on the normal line through the reference point
        p = [s[i] + n[i] * h for i in range(3)]
        base += [h * side >= rat('1/1000'), h * side <= B]
    else:
        # point-to-point: c = s; p = s + direction class * k keeps the distance rational
        p = [s[i] + n[i] * h for i in range(3)]
        base += [h >= rat('1/1000'), h <= B]
        kp = [h]
    st = {}
    M = get_mir()
    f_init, f_set = M.resolve('RcParams3::from_initial'), M.resolve('RcParams3::set')
    f_j = M.resolve({'plane': 'point_plane_jacobian', 'rev': 'point_plane_jacobian_rev', 'point': 'point_point_jacobian'}[kind])

    def composite(eng, _a):
        prm = eng.run_fn(f_init, [Ref.to(T.val()), Ref.to(pt(list(rc)))])
        an = [free_angle(nm) for nm in ('rx', 'ry', 'rz')]
        st['an'] = an
        eng.run_fn(f_set, [Ref.to(prm), Ref.to([x[0], x[1], x[2]] + an)])
        if kind == 'point':
            j = eng.run_fn(f_j, [Ref.to(pt(list(p))), Ref.to(pt(list(s))), Ref.to(prm)])
        else:
            j = eng.run_fn(f_j, [Ref.to(pt(list(p))), Ref.to(sp_val(s, n)), Ref.to(prm)])
        return {'j': j, 'transform': iso_rt(prm[4], 3)}

    def post(eng, c, r):
        Rm, t = r['transform']
        j = [num(v) for v in vec_of(r['j'])]
        obs = []
        sg = rat(side)
        for i, (wrt, ang) in enumerate(((x[0], None), (x[1], None), (x[2], None), (None, 'rx'), (None, 'ry'), (None, 'rz'))):
            dR = [[ddiff(Rm[a][b], wrt, ang) for b in range(3)] for a in range(3)]
            dt = [ddiff(t[a], wrt, ang) for a in range(3)]
            W = matmul(dR, matT(Rm))                      # dR R^T (skew)

            def vel(pnt):
                # velocity of the point T(x) T(x0)^-1 pnt at x = x0
                return [matvec(W, [pnt[b] - t[b] for b in range(3)])[a] + dt[a] for a in range(3)]
            if kind == 'plane':
                want = sg * dot(n, vel(p))
            elif kind == 'rev':
                # residual |(R' n).(p - T' s)| with p on the normal line: d = -side * n.vel(s)   (the term (W n).(p - s) vanishes there)
                want = -sg * dot(n, vel(s)) + sg * dot(matvec(W, n), [p[b] - s[b] for b in range(3)])
            else:
                want = dot(n, vel(p))                      # d|T p - c| = unit(p - c).vel(p), unit(p - c) = n
            obs.append(eq(f'3D {"point-to-plane" if kind == "plane" else "reference-side point-to-plane" if kind == "rev" else "point-to-point"} Jacobian entry {i} is the derivative of the residual',
                          j[i], want, scale=8 * B))
        return obs

    inp = {**T.inp, **{k: R_(k) for k in ('rcx', 'rcy', 'rcz', 'x0', 'x1', 'x2', 'rx', 'ry', 'rz', 'sx', 'sy', 'sz')}, **ang_inputs('rx', 'ry', 'rz')}
    if kind == 'plane':
        inp.update({'px': p[0], 'py': p[1], 'pz': p[2]})
    else:
        inp['h'] = h
    nf = [float(v) / NORM3[dn] for v in DIRS3[dn]]

    def rep(mm):
        sp = [mm['sx'], mm['sy'], mm['sz']]
        pp = [mm['px'], mm['py'], mm['pz']] if kind == 'plane' else [sp[i] + nf[i] * mm['h'] for i in range(3)]
        cc = sp if kind == 'point' else [pp[0] + 1.0, pp[1] - 2.0, pp[2] + 0.5]
        return {'iso': T.json(mm), 'rc': [mm['rcx'], mm['rcy'], mm['rcz']], 'x': [mm['x0'], mm['x1'], mm['x2'], ang(mm, 'rx'), ang(mm, 'ry'), ang(mm, 'rz')], 'p': pp, 'sp': sp if kind != 'point' else [pp[0] + 1.0, pp[1], pp[2]],
                'n': nf if kind != 'point' else [1.0, 0.0, 0.0], 'c': cc, 'kind': kind}

    return Unit(f'jacobian3[{kind},{T.label()},normal={DIRS3[dn]},side={side}]', composite, lambda eng: ([], None), post, base=base, known_pos=kp, inputs=inp, replay=('jac3', rep),
                bounds={'initial isometry': T.label(), 'rotation centre, points': '|coords| <= 1e3', 'pose': 'any Euler angles, |translation| <= 1e3 (updated after construction)',
                        'normal / offset direction': 'direction class', 'test point': {'plane': 'at least 1e-3 off the plane on the stated side', 'rev': 'on the normal line through the reference point (documented use), 1e-3..1e3 away',
                                                                                       'point': 'direction class x distance in [1e-3, 1e3] from the reference point'}[kind]}, timeout_ms=30000)


def j_jac3(o, rep, out):
    if 'ok' not in out:
        return 'panic'
    kind = rep['args']['kind']
    key = {'plane': '3D point-to-plane', 'rev': '3D reference-side', 'point': '3D point-to-point'}[kind]
    worst = None
    for name, got, want, tol in out['ok']['pairs']:
        if not name.startswith(key):
            continue
        if isinstance(got, str) or isinstance(want, str) or abs(got - want) > tol:
            worst = worst or re.sub(r'\d+', 'N', name.replace('3D', 'three-D'))
    return worst or False


def u_wpr(rot=1):
    """RotationMatrices::from_rotation (to_wpr + from_euler) reproduces the rotation, exact gimbal poses included"""
    Rm = WPR_ROTS[rot]
    M = get_mir()
    f_fr = M.resolve('RotationMatrices::from_rotation')

    def make(eng):
        return [Ref.to(quat(Mat([list(r) for r in Rm])))], None

    def post(eng, c, r):
        q = mat_rows(r[1], 3)
        return [eq(f'from_rotation reproduces the rotation [{i}][{j}]', q[i][j], Rm[i][j]) for i in range(3) for j in range(3)]

    return Unit(f'wpr_roundtrip[rotation {rot}]', f_fr, make, post, base=[], inputs={},
                replay=('rotmats', lambda mm: {'e': [0.1, 0.2, 0.3], 'rot': [[float(as_fraction(v)) for v in row] for row in Rm], 'tol': 1e-7}),
                bounds={'rotation': 'concrete rational rotation matrix (general position or exact gimbal lock, pitch = +-pi/2)'}, timeout_ms=30000)


def _gimbal(sign, c, s):
    # Rx(a) * Ry(+-pi/2) * Rz(0): [[0, 0, sg], [sg*s, c, 0], [-sg*c, s, 0]]  (cos a = c, sin a = s)
    sg = sign
    return [[rat(0), rat(0), rat(sg)], [rat(sg) * s, c, rat(0)], [-rat(sg) * c, s, rat(0)]]


WPR_ROTS = ROT3 + [_gimbal(1, rat('3/5'), rat('4/5')), _gimbal(-1, rat('3/5'), rat('4/5')), _gimbal(1, rat('-5/13'), rat('12/13')), _gimbal(-1, rat(1), rat(0)),
                   matmul(ROT3[1], ROT3[2]), matmul(ROT3[4], ROT3[1])]

JUDGES = {'*': j_pairs, 'jacobian3': j_jac3}

UNITS = {
    'quick': [('u_param2', {'rot': r}) for r in (2, None)] + [('u_rc2', {'rot': r}) for r in (2, 3, None)] + [('u_jac2', {'rot': r, 'dn': d}) for (r, d) in ((2, 4), (3, 0), (4, 6))] +
             [('u_rotmats', {})] + [('u_rc3', {'rot': r}) for r in (1, 2)] +
             [('u_jac3', {'rot': r, 'dn': d, 'kind': k, 'side': sd}) for (r, d, k, sd) in ((1, 6, 'plane', 1), (2, 9, 'plane', -1), (1, 7, 'rev', 1), (2, 6, 'rev', -1), (1, 6, 'point', 1), (2, 9, 'point', 1))] +
             [('u_wpr', {'rot': r}) for r in range(len(WPR_ROTS))],
    'thorough': [('u_param2', {'rot': r}) for r in (0, 1, 2, 3, 4, None)] + [('u_rc2', {'rot': r}) for r in (0, 1, 2, 3, 4, None)] +
                [('u_jac2', {'rot': r, 'dn': d}) for r in (0, 2, 3, 4, None) for d in (0, 4, 6)] + [('u_rotmats', {})] + [('u_rc3', {'rot': r}) for r in (0, 1, 2, 3, 4)] +
                [('u_jac3', {'rot': r, 'dn': d, 'kind': k, 'side': sd}) for r in (0, 1, 2, 4) for d in (0, 6, 9) for k in ('plane', 'rev', 'point') for sd in ((1, -1) if k != 'point' else (1,))] +
                [('u_wpr', {'rot': r}) for r in range(len(WPR_ROTS))],
}


def run(v, tier, seed, only=None):
    jobs = [(MOD, f, k) for (f, k) in UNITS[tier] if not only or any(o in f for o in only.split(','))]
    res = run_jobs(jobs, seed=seed, procs=14, timeout_s=900 if tier == 'quick' else 3000)
    fold_results(v, res, JUDGES, 'C08')
