"""C01 - curve stations are consistent with arc length (engine M).
The curve is built by executing Curve2::from_points / Curve3::from_points from their MIR on symbolic vertices (edges along
concrete axis/Pythagorean direction classes with symbolic lengths > tol), then the station API is executed on it."""
import itertools
import z3
from mirsym.driver import *
from mirsym.vals import *
from mirsym.ext import pt, vec_of, unref, items_of
from .geomlib import *

MOD = 'vlib.props.c01'


def curve_inputs(pts, tol, extra=None):
    d = {}
    for i, p in enumerate(pts):
        for c, v in zip('xyz', p):
            d[f'p{i}{c}'] = v
    d['tol'] = tol
    d.update(extra or {})
    return d


def model_pts(m, n, dim):
    return [[m[f'p{i}{c}'] for c in 'xyz'[:dim]] for i in range(n)]


def setup(n, pattern, dim, closed):
    """symbolic vertex chain.  closed: 'open' | 'forced' | 'natural' (last vertex coincides with the first)"""
    tol = R('tol')
    if dim == 2:
        pts, ks, base, kp = chain2(n, pattern)
    else:
        pts, ks, base, kp = chain3(n, pattern)
    base = base + [tol > 0, tol <= rat('1/100')] + [k > tol for k in ks]
    if closed == 'natural':
        # the chain returns exactly to its first vertex (the last edge closes the polygon)
        base += [pts[-1][c] == pts[0][c] for c in range(dim)]
    else:
        # an open vertex list: ends further apart than tol
        base += [d2(pts[0], pts[-1]) > tol * tol]
    return tol, pts, ks, base, kp + [tol]


def station_fields(st):
    st = unref(st)
    return vec_of(st[0]), vec_of(st[1]), st[2], num(st[3])


def lerp_obls(tag, st, verts, lens, l=None):
    """index/fraction reproduce the point, length_along, direction"""
    p, d, idx, fr = station_fields(st)
    dim = len(p)
    obs = [finite(tag + 'no non-finite station field', [p, d, fr])]
    if poisoned([p, d, fr]):
        return obs
    idx = int(as_fraction(idx))
    nv = len(verts)
    obs.append(holds(tag + 'edge index in range', 0 <= idx <= nv - 2))
    if not (0 <= idx <= nv - 2):
        return obs
    obs.append(holds(tag + 'fraction in [0, 1]', z3.And(fr >= 0, fr <= 1)))
    a, b = verts[idx], verts[idx + 1]
    for c in range(dim):
        obs.append(eq(tag + f'index/fraction reproduce the point ({"xyz"[c]})', p[c], a[c] + fr * (b[c] - a[c]), scale=B))
    la = lens[idx] + (lens[idx + 1] - lens[idx]) * fr
    if l is not None:
        obs.append(eq(tag + 'length-along equals the requested length', la, l, scale=B))
    obs.append(eq(tag + 'direction is a unit vector', sum((d[c] * d[c] for c in range(1, dim)), d[0] * d[0]), 1))
    return obs


def parallel_obls(tag, d, e):
    """d is parallel to e and points the same way"""
    dim = len(d)
    obs = []
    if dim == 2:
        obs.append(eq(tag + 'direction parallel to its edge rule (cross = 0)', d[0] * e[1] - d[1] * e[0], 0, scale=B))
    else:
        cr = [d[1] * e[2] - d[2] * e[1], d[2] * e[0] - d[0] * e[2], d[0] * e[1] - d[1] * e[0]]
        for c in range(3):
            obs.append(eq(tag + f'direction parallel to its edge rule (cross {c} = 0)', cr[c], 0, scale=B))
    obs.append(holds(tag + 'direction points along its edge rule (dot > 0)', sum((d[c] * e[c] for c in range(1, dim)), d[0] * e[0]) > 0))
    return obs


def u_station(n=3, pattern=(0, 1), dim=2, closed='open'):
    tol, pts, ks, base, kp = setup(n, pattern, dim, closed)
    l = R('l')
    base = base + [l >= -B, l <= 10 * B]
    force = closed == 'forced'
    dirs = DIRS2 if dim == 2 else DIRS3
    norms = NORM2 if dim == 2 else NORM3
    ty = 'Curve2' if dim == 2 else 'Curve3'

    def entry(eng, args):
        pv, t = args
        r = eng.call(f'{ty}::from_points', [Ref.to(pv), t] + ([force] if dim == 2 else []))
        if r.v != 'Ok':
            return {'curve': None}
        c = r.f[0]
        cr = Ref.to(c)
        out = {'curve': c, 'st': eng.call(f'{ty}::at_length', [cr, l])}
        return out

    def make(eng):
        return [points_vec(pts), tol], None

    def post(eng, c, ret):
        cv = ret['curve']
        obs = [holds('construction succeeds for vertex lists that survive de-duplication', cv is not None)]
        if cv is None:
            return obs
        verts = [vec_of(p) for p in cv[0][0].items]
        lens = [num(x) for x in cv[1].items]
        # expected vertex list
        exp = [list(p) for p in pts]
        if force:
            exp.append(list(pts[0]))
        obs.append(holds('vertex count', len(verts) == len(exp)))
        if len(verts) != len(exp):
            return obs
        for i in range(len(exp)):
            obs.append(holds(f'vertex {i} stored unchanged', z3.And([verts[i][c] == exp[i][c] for c in range(dim)])))
        if dim == 2:
            is_closed = cv[2]
            want_closed = closed in ('forced', 'natural')
            obs.append(holds('closedness decided from the end points', (is_closed if is_sym(is_closed) else z3.BoolVal(bool(is_closed))) == z3.BoolVal(want_closed)))
        # cumulative lengths
        obs.append(holds('cumulative lengths start at 0', lens[0] == 0))
        for i in range(len(exp) - 1):
            if i < len(ks):
                obs.append(eq(f'length step {i} is the edge length', lens[i + 1] - lens[i], ks[i], scale=B))
            else:
                obs.append(eq(f'closing length step is the distance back to the first vertex', sq(lens[i + 1] - lens[i]), d2(exp[i], exp[i + 1]), scale=B * B))
            obs.append(holds(f'cumulative lengths increase at {i}', lens[i + 1] > lens[i]))
        L = lens[-1]
        st = ret['st']
        if st.v == 'None':
            obs.append(holds('no station only outside [0, L]', z3.Or(l < 0, l > L)))
            return obs
        obs.append(holds('a station only inside [0, L]', z3.And(l >= 0, l <= L)))
        s = st.f[0]
        obs += lerp_obls('', s, verts, lens, l)
        p, d, idx, fr = station_fields(s)
        if poisoned([p, d, fr]):
            return obs
        idx = int(as_fraction(idx))
        nv = len(verts)
        # direction rule
        edge_dirs = [[rat(cmp_) / norms[pattern[i]] for cmp_ in dirs[pattern[i]]] for i in range(len(ks))]
        if force:
            # direction of the closing edge
            edge_dirs.append([exp[-1][c] - exp[-2][c] for c in range(dim)])
        on_vertex_lo = eng.feasible(fr == 0) and eng.branch(fr == 0)
        on_vertex_hi = (not on_vertex_lo) and eng.feasible(fr == 1) and eng.branch(fr == 1)
        if not on_vertex_lo and not on_vertex_hi:
            obs += parallel_obls('', d, edge_dirs[idx])
        else:
            vi = idx if on_vertex_lo else idx + 1
            if dim == 3:
                rule = edge_dirs[vi] if vi < nv - 1 else edge_dirs[vi - 1]
            else:
                closed_curve = closed in ('forced', 'natural')
                if closed_curve and vi in (0, nv - 1):
                    e0, e1 = edge_dirs[0], edge_dirs[nv - 2]
                    rule = None if force else [e0[c] + e1[c] for c in range(dim)]
                    if force:
                        # unit directions of first and closing edge: the closing edge is not in a direction class, compare by cross/dot with the sum
                        rule = 'seam_forced'
                elif vi == 0:
                    rule = edge_dirs[0]
                elif vi == nv - 1:
                    rule = edge_dirs[nv - 2]
                else:
                    rule = [edge_dirs[vi - 1][c] + edge_dirs[vi][c] for c in range(dim)]
            if force and vi >= nv - 2:
                rule = 'seam_forced'      # rules that involve the closing edge of a force-closed curve need its normalisation (a square root)
            if rule == 'seam_forced':
                pass        # covered by the naturally closed class, where the last edge is in a direction class
            elif rule is not None:
                # at an exact reversal the summed direction vanishes; the station then takes the leaving edge direction
                if all(is_zero(zsimp(x)) for x in rule):
                    rule = edge_dirs[vi] if vi < len(edge_dirs) else edge_dirs[0]
                obs += parallel_obls(f'at vertex {vi}: ', d, rule)
        return obs

    name = f'{ty}.station[n={n},dirs={tuple(dirs[k] for k in pattern)},{closed}]'
    return Unit(name, entry, make, post, base=base, known_pos=kp, inputs=curve_inputs(pts, tol, {'l': l}),
                replay=(f'curve{dim}_stations', lambda m: {'pts': model_pts(m, n, dim), 'tol': m['tol'], 'force_closed': force, 'l': m['l']}),
                loop_budget=4 * n + 16, bounds={'vertices': n, 'edge directions': 'concrete axis/Pythagorean pattern, symbolic lengths > tol', 'closedness': closed, 'tol': '(0, 0.01]', 'l': 'any real'},
                assumptions=['parry Polyline::new stores the given vertices unchanged (vertices() returns them)'], timeout_ms=10000)


def curve_oracle(pts, tol, force, dim):
    import math
    v = [list(p) for p in pts]
    out = [v[0]]
    for p in v[1:]:
        if math.dist(p, out[-1]) > tol:
            out.append(p)
    if force and math.dist(out[0], out[-1]) > tol:
        out.append(list(out[0]))
    lens = [0.0]
    for i in range(len(out) - 1):
        lens.append(lens[-1] + math.dist(out[i], out[i + 1]))
    return out, lens, math.dist(out[0], out[-1]) <= tol


def j_station(o, rep, out):
    import math
    if 'ok' not in out:
        return 'panic'
    a, r = rep['args'], out['ok']
    dim = len(a['pts'][0])
    if 'err' in r:
        return 'construction failed'
    verts, lens, closed = curve_oracle(a['pts'], a['tol'], a.get('force_closed', False), dim)
    if len(r['points']) != len(verts) or any(math.dist(p, q) > 1e-9 for p, q in zip(r['points'], verts)):
        return 'stored vertices differ from the de-duplicated input'
    if any(abs(x - y) > 1e-7 * (1 + y) for x, y in zip(r['lengths'], lens)):
        return 'cumulative lengths wrong'
    if dim == 2 and r['is_closed'] != closed:
        return 'closedness wrong'
    L = lens[-1]
    l = a['l']
    s = r['station']
    if s is None:
        return 'no station for a length inside [0, L]' if 1e-9 < l < L - 1e-9 else False
    if l < -1e-12 or l > L + 1e-12:
        return 'station returned for a length outside [0, L]'
    if any(isinstance(x, str) for x in s['point'] + s['dir']) or isinstance(s['fraction'], str):
        return 'non-finite station field' + (' (direction at a vertex where the curve reverses exactly)' if any(isinstance(x, str) for x in s['dir']) else '')
    i, fr = s['index'], s['fraction']
    if not (0 <= i <= len(verts) - 2) or not (-1e-12 <= fr <= 1 + 1e-12):
        return 'index/fraction out of range'
    p = [verts[i][c] + fr * (verts[i + 1][c] - verts[i][c]) for c in range(dim)]
    if math.dist(p, s['point']) > 1e-7 * (1 + L):
        return 'index/fraction do not reproduce the point'
    if abs(s['length_along'] - l) > 1e-7 * (1 + L):
        return 'length-along differs from the requested length'
    if abs(math.hypot(*s['dir']) - 1) > 1e-7:
        return 'direction not a unit vector'
    # direction rule
    def unit(u):
        n = math.hypot(*u)
        return [x / n for x in u]
    ed = [unit([verts[k + 1][c] - verts[k][c] for c in range(dim)]) for k in range(len(verts) - 1)]
    on = None
    if abs(fr) < 1e-12:
        on = i
    elif abs(fr - 1) < 1e-12:
        on = i + 1
    if on is None:
        rule = ed[i]
    elif dim == 3:
        rule = ed[on] if on < len(verts) - 1 else ed[on - 1]
    elif closed and on in (0, len(verts) - 1):
        rule = [ed[0][c] + ed[-1][c] for c in range(dim)]
    elif on == 0:
        rule = ed[0]
    elif on == len(verts) - 1:
        rule = ed[-1]
    else:
        rule = [ed[on - 1][c] + ed[on][c] for c in range(dim)]
    if math.hypot(*rule) > 1e-9:
        rule = unit(rule)
        if math.dist(rule, s['dir']) > 1e-6:
            return 'direction does not follow the edge / vertex rule'
    return False


# consistency of the different ways to ask for the same place
def u_same_place(n=3, pattern=(0, 1), dim=2, closed='open'):
    tol, pts, ks, base, kp = setup(n, pattern, dim, closed)
    force = closed == 'forced'
    ty = 'Curve2' if dim == 2 else 'Curve3'
    dirs = DIRS2 if dim == 2 else DIRS3

    def entry(eng, args):
        pv, t = args
        r = eng.call(f'{ty}::from_points', [Ref.to(pv), t] + ([force] if dim == 2 else []))
        if r.v != 'Ok':
            return None
        c = r.f[0]
        cr = Ref.to(c)
        lens = [num(x) for x in c[1].items]
        out = {'curve': c, 'by_len': [], 'by_frac': [], 'iter': [], 'front': eng.call(f'{ty}::at_front', [cr]), 'back': eng.call(f'{ty}::at_back', [cr])}
        L = lens[-1]
        for k in range(len(lens)):
            out['by_len'].append(eng.call(f'{ty}::at_length', [cr, lens[k]]))
            out['by_frac'].append(eng.call(f'{ty}::at_fraction', [cr, f_div(lens[k], L)]))
        it = eng.call(f'{ty}::iter', [cr])
        while True:
            nx = eng.call(f'<{ty}Iterator<\'_> as Iterator>::next', [Ref.to(it)])
            if nx.v == 'None':
                break
            out['iter'].append(nx.f[0])
        return out

    def make(eng):
        return [points_vec(pts), tol], None

    def same(tag, s1, s2):
        p1, d1, i1, f1 = station_fields(s1)
        p2, d2_, i2, f2 = station_fields(s2)
        if poisoned([p1, d1, f1, p2, d2_, f2]):
            return [finite(tag + 'finite fields', [p1, d1, f1, p2, d2_, f2])]
        obs = [holds(tag + 'same edge index', int(as_fraction(i1)) == int(as_fraction(i2))), eq(tag + 'same fraction', f1, f2)]
        for c in range(len(p1)):
            obs.append(eq(tag + f'same point ({"xyz"[c]})', p1[c], p2[c], scale=B))
            obs.append(eq(tag + f'same direction ({"xyz"[c]})', d1[c], d2_[c]))
        return obs

    def post(eng, c, ret):
        if ret is None:
            return [holds('construction succeeds', False)]
        nv = len(ret['curve'][1].items)
        obs = [holds('iterating yields one station per vertex', len(ret['iter']) == nv)]
        if len(ret['iter']) != nv:
            return obs
        for k in range(nv):
            bl = ret['by_len'][k]
            bf = ret['by_frac'][k]
            obs.append(holds(f'vertex length {k} has a station', bl.v == 'Some'))
            obs.append(holds(f'vertex fraction {k} has a station', bf.v == 'Some'))
            if bl.v == 'Some':
                # closed curves: l = 0 and l = L are the same place but are reported as first / last vertex respectively
                obs += same(f'at_length(lengths[{k}]) vs iter[{k}]: ', bl.f[0], ret['iter'][k])
                if bf.v == 'Some':
                    obs += same(f'at_fraction(lengths[{k}]/L) vs at_length: ', bf.f[0], bl.f[0])
        obs += same('at_front vs iter[0]: ', ret['front'], ret['iter'][0])
        obs += same('at_back vs iter[last]: ', ret['back'], ret['iter'][-1])
        p, d, i, f = station_fields(ret['back'])
        if not poisoned([f]):
            obs.append(holds('last vertex is reported as (count-2, 1.0)', z3.And(z3.BoolVal(int(as_fraction(i)) == nv - 2), f == 1)))
        return obs

    name = f'{ty}.same_place[n={n},dirs={tuple(dirs[k] for k in pattern)},{closed}]'
    return Unit(name, entry, make, post, base=base, known_pos=kp, inputs=curve_inputs(pts, tol),
                replay=(f'curve{dim}_stations', lambda m: {'pts': model_pts(m, n, dim), 'tol': m['tol'], 'force_closed': force, 'l': 0.0}),
                loop_budget=4 * n + 16, bounds={'vertices': n, 'closedness': closed}, timeout_ms=10000)


def j_same(o, rep, out):
    import math
    if 'ok' not in out:
        return 'panic'
    r = out['ok']
    if 'err' in r:
        return 'construction failed'
    it = r['iter']
    nv = len(r['points'])
    if len(it) != nv:
        return 'iteration does not yield one station per vertex'
    b = r['back']
    if b['index'] != nv - 2 or b['fraction'] != 1.0:
        return 'last vertex not reported as (count-2, 1.0)'
    for k, s in enumerate(it):
        if any(isinstance(x, str) for x in s['point'] + s['dir']):
            return 'non-finite station at a vertex (direction at a vertex where the curve reverses exactly)'
        if abs(s['length_along'] - r['lengths'][k]) > 1e-9 * (1 + r['lengths'][-1]):
            return 'vertex station length-along differs from the stored vertex length'
    return False


JUDGES = {'Curve2.station': j_station, 'Curve3.station': j_station, 'Curve2.same_place': j_same, 'Curve3.same_place': j_same}


def patterns(n, dim, tier, closed):
    nd = 8 if dim == 2 else 11
    if closed == 'natural':
        # closed polygons whose edge vectors can sum to zero with positive lengths
        pats = [(0, 1, 2, 3), (1, 2, 3, 0), (0, 5, 6), (4, 2, 3), (0, 1, 6), (3, 2, 4)] if dim == 2 else []
        return [p for p in pats if len(p) == n - 1]
    if tier == 'quick':
        if dim == 2:
            base = {3: [(0, 1), (0, 0), (0, 4), (4, 5), (1, 6), (3, 2), (5, 0), (6, 7)], 4: [(0, 1, 2), (0, 4, 0), (4, 5, 6), (0, 0, 1)], 2: [(0,), (4,), (6,)]}
        else:
            base = {3: [(0, 1), (0, 6), (6, 7), (2, 9), (0, 0)], 2: [(0,), (6,), (9,)], 4: [(0, 1, 2), (6, 0, 9)]}
        return base.get(n, [])
    return list(itertools.product(range(nd), repeat=n - 1)) if n <= 3 else [tuple((i + j) % nd for j in range(n - 1)) for i in range(nd)] + [(0, 1, 2), (0, 4, 0), (4, 5, 6), (0, 0, 1)]


def units_for(tier):
    u = []
    for dim in (2, 3):
        for n in ((2, 3, 4) if tier == 'thorough' else (2, 3)):
            for closed in (('open', 'forced') if dim == 2 else ('open',)):
                for p in patterns(n, dim, tier, closed):
                    u.append(('u_station', {'n': n, 'pattern': p, 'dim': dim, 'closed': closed}))
        for p in patterns(3, dim, 'quick', 'open')[:4]:
            u.append(('u_same_place', {'n': 3, 'pattern': p, 'dim': dim, 'closed': 'open'}))
    for n in (4, 5):
        for p in patterns(n, 2, tier, 'natural'):
            u.append(('u_station', {'n': n, 'pattern': p, 'dim': 2, 'closed': 'natural'}))
            u.append(('u_same_place', {'n': n, 'pattern': p, 'dim': 2, 'closed': 'natural'}))
    if tier == 'quick':
        u.append(('u_station', {'n': 4, 'pattern': (0, 1, 2), 'dim': 2, 'closed': 'open'}))
        u.append(('u_same_place', {'n': 3, 'pattern': (0, 1), 'dim': 2, 'closed': 'forced'}))
    return u


def run(v, tier, seed, only=None):
    jobs = [(MOD, f, k) for (f, k) in units_for(tier) if not only or only in f or only in str(k)]
    res = run_jobs(jobs, seed=seed, procs=14, timeout_s=900 if tier == 'quick' else 3000)
    fold_results(v, res, JUDGES, 'C01')
