"""C07 - alignment: the returned transform and the reported residuals describe the same state (engine M, partial).

The Levenberg-Marquardt iteration is a dependency with a data-dependent trip count: it is replaced by its contract as far as this
clause needs it - `minimize(problem)` hands the problem back after a last `set_params(x*)` for an ARBITRARY parameter vector x*
(symbolic translation, rotation from a stated list or a free cos/sin pair) together with a report that is either successful or not.
Everything engeom does around it is executed from MIR: PointsToCurve / PointsToMesh::new (rotation centre at the mean of the points),
set_params -> RcParams::set -> move_points (closest points through the projection contract of C02), residuals(), and the assembly of
the Alignment.  Obligation: the i-th residual equals the mode-specific measure evaluated (by the real functions) on the i-th input
point moved by the RETURNED transform; Err exactly when the report is unsuccessful.  The recovery clause (LM converges back to the
displacement) and "the sum of squares does not increase" are statements about the dependency and are not decided."""
import z3
from mirsym.driver import *
from mirsym.vals import *
from mirsym.ext import pt, vec_of, unref, items_of, iso_parts
from mirsym.ext_na import unit as unit_val

from .geomlib import rat, sq, bounded, DIRS2, NORM2, B, points_vec, d2
from .c01 import setup, curve_inputs, model_pts
from .c03 import Iso, matvec
from .c08 import iso_rt, free_angle, ang_inputs, ang

MOD = 'vlib.props.c07'
R_ = z3.Real


# concrete scenes: curve start, edge lengths (pattern (0, 1): right then up), input points, initial translation
SCENES2 = [{'p0': (0, 0), 'lens': (4, 3), 'points': [('1', '-1/2')], 't0': ('3/10', '-1/5')},
           {'p0': (0, 0), 'lens': (4, 3), 'points': [('7/2', '-1/4'), ('9/2', '2')], 't0': ('-1/5', '1/10')}]


def u_align2(pattern=(0, 1), npts=1, rot0=2, theta='free', scene=None):
    """points_to_curve on a symbolic 2-edge curve; theta: 'free' | 0 | 'half' (pi/2) = rotation part of the final parameters.
    scene = index of a concrete scene (curve, input points, initial translation concrete; only the final parameters symbolic)"""
    n = len(pattern) + 1
    tol, pts, ks, base, kp = setup(n, pattern, 2, 'open')
    T0 = Iso(2, rot0, px='i')
    P = [[R_(f'm{i}x'), R_(f'm{i}y')] for i in range(npts)]
    x = [R_('x0'), R_('x1')]
    ok = z3.Bool('lm_ok')
    base = base + T0.base + bounded(*[c for p in P for c in p]) + bounded(*x, b=100)
    if scene is not None:
        sc = SCENES2[scene]
        base += [tol == rat('1/1000'), pts[0][0] == rat(sc['p0'][0]), pts[0][1] == rat(sc['p0'][1])] + [ks[i] == rat(sc['lens'][i]) for i in range(len(ks))]
        base += [P[i][k] == rat(sc['points'][i][k]) for i in range(npts) for k in range(2)] + [T0.t[k] == rat(sc['t0'][k]) for k in range(2)]
        # substitute the concrete values so that the initial state needs no case split
        sub = [(tol, rat('1/1000')), (pts[0][0], rat(sc['p0'][0])), (pts[0][1], rat(sc['p0'][1]))] + [(ks[i], rat(sc['lens'][i])) for i in range(len(ks))]
        pts = [[z3.simplify(z3.substitute(c, *sub)) for c in p] for p in pts]
        ks = [rat(v) for v in sc['lens']]
        tol_c = rat('1/1000')
        P = [[rat(sc['points'][i][k]) for k in range(2)] for i in range(npts)]
        T0.t = [rat(v) for v in sc['t0']]
        kp = []
    st = {}
    M = get_mir()
    f_set = M.resolve('<PointsToCurve as LeastSquaresProblem<f64, Dyn, U3>>::set_params')
    if f_set is None:
        f_set = next((f for k, f in M.fns.items() if 'points_to_curve.rs' in k and k.endswith('::set_params')), None)

    def lm_minimize(eng, callee, args):
        problem = unref(args[1])
        th = free_angle('th') if theta == 'free' else Angle(Fraction(0)) if theta == 0 else Angle(Fraction(1, 2))
        eng.run_fn(f_set, [Ref.to(problem), Ref.to([x[0], x[1], th])])
        st['problem'] = problem
        return [problem, Struct('MinimizationReport', [Opaque('termination'), 1, rat(0)])]

    def was_successful(eng, callee, args):
        return eng.branch(ok)

    def composite(eng, _a):
        r = eng.call('Curve2::from_points', [Ref.to(points_vec(pts)), rat('1/1000') if scene is not None else tol, False])
        if r.v != 'Ok':
            return {'curve': None}
        c = r.f[0]
        res = eng.call('points_to_curve', [Ref.to(VecV([pt(list(p)) for p in P])), Ref.to(c), Ref.to(T0.val())])
        out = {'curve': c, 'res': res, 'check': []}
        if res.v == 'Ok':
            al = res.f[0]
            Rm, t = iso_rt(al[0], 2)
            for p in P:
                m = [matvec(Rm, p)[k] + t[k] for k in range(2)]
                sta = eng.call('Curve2::at_closest_to_point', [Ref.to(c), Ref.to(pt(list(m)))])
                sp = eng.call('CurveStation2::surface_point', [Ref.to(sta)])
                out['check'].append(eng.call('SurfacePoint::scalar_projection', [Ref.to(sp), Ref.to(pt(list(m)))]))
        return out

    def post(eng, c, r):
        if r['curve'] is None:
            return [holds('construction succeeds', z3.BoolVal(False))]
        res = r['res']
        obs = [holds('an alignment is returned exactly when the solver reports success', z3.BoolVal(res.v == 'Ok') == ok)]
        if res.v != 'Ok':
            return obs
        al = res.f[0]
        resid = [num(v) for v in items_of(al[1])]
        obs.append(holds('one residual per input point', z3.BoolVal(len(resid) == npts)))
        for i in range(min(npts, len(resid))):
            obs.append(eq(f'residual {i} is the signed distance measure of point {i} moved by the returned transform', resid[i], num(r['check'][i]), scale=8 * B))
        # the returned transform is the parameter isometry about the mean of the input points
        prm = st['problem'][2]
        Rp, tp = iso_rt(prm[2], 2)
        Rm, t = iso_rt(al[0], 2)
        for a in range(2):
            for b in range(2):
                obs.append(eq(f'returned rotation is that of the final parameters [{a}][{b}]', Rm[a][b], Rp[a][b]))
            obs.append(eq(f'returned translation is that of the final parameters [{a}]', t[a], tp[a], scale=8 * B))
        rc = vec_of(prm[0])
        for k in range(2):
            obs.append(eq(f'rotation centre is the mean of the input points [{k}]', num(rc[k]) * npts, sum((p[k] for p in P[1:]), P[0][k]), scale=8 * B))
        return obs

    inp = curve_inputs(pts, tol if scene is None else rat('1/1000'), {'x0': x[0], 'x1': x[1], 'lm_ok': ok})
    inp.update(T0.inp if scene is None else {f'i{c}': T0.t[k] for k, c in enumerate('xy')})
    inp.update({f'm{i}{c}': P[i][k] for i in range(npts) for k, c in enumerate('xy')})
    if theta == 'free':
        inp.update(ang_inputs('th'))
    return Unit(f'points_to_curve[{[DIRS2[d] for d in pattern]},points={npts},final rotation={theta}{",concrete scene " + str(scene) if scene is not None else ""}]', composite, lambda eng: ([], None), post, base=base, known_pos=kp, inputs=inp,
                observers={'minimize': lm_minimize, 'was_successful': was_successful, 'LevenbergMarquardt::new': lambda eng, callee, args: Opaque('LevenbergMarquardt')}, const_generics={'D': 2},
                replay=('align2', lambda mm: {'pts': model_pts(mm, n, 2), 'tol': mm['tol'], 'points': [[mm[f'm{i}x'], mm[f'm{i}y']] for i in range(npts)], 'iso': T0.json(mm),
                                           'x': [mm['x0'], mm['x1'], ang(mm, 'th') if theta == 'free' else (0.0 if theta == 0 else 1.5707963267948966)]}), loop_budget=16 * n + 8 * npts + 32, max_paths=20000,
                bounds={'curve': f'{n - 1} edges in direction classes', 'input points': f'{npts} symbolic', 'initial isometry': T0.label(), 'final parameters': f'|translation| <= 100, rotation {theta}'},
                assumptions=['LevenbergMarquardt::minimize by contract: returns the problem after a last set_params(x*) for an arbitrary x*, with a report that is successful or not (dependency)',
                             'parry Polyline projection by contract (C02)'], timeout_ms=15000)


def u_align3(mode='ToPlane', rot0=1, rx='zero', tri=0, scene=None, free_axes=(0, 1, 2)):
    """points_to_mesh on one concrete triangle, one symbolic point; final parameters: symbolic translation, rotation about x by 0 or pi/2"""
    from .c02 import TRI_V, TRI_F
    from .c14 import mesh_val
    T0 = Iso(3, rot0, px='i')
    P = [R_('m0x'), R_('m0y'), R_('m0z')]
    x = [R_('x0'), R_('x1'), R_('x2')]
    ok = z3.Bool('lm_ok')
    base = T0.base + bounded(*P, b=10) + bounded(*x, b=10) + [z3.And(c >= -10, c <= 10) for c in T0.t]
    st = {}
    M = get_mir()
    f_set = M.resolve('<PointsToMesh as LeastSquaresProblem<f64, Dyn, U6>>::set_params')
    faces = [TRI_F[tri]] if tri in (0, 1) else list(TRI_F)
    if scene is not None:
        # concrete input point and initial translation (only the final parameters symbolic); the point overhangs the boundary of the mesh
        sc = [{'p': ('5/2', '1/2', '3/4'), 't0': ('1/5', '-1/10', '1/10')}, {'p': ('1', '5/2', '1/2'), 't0': ('-1/10', '1/5', '0')}][scene]
        P = [rat(v) for v in sc['p']]
        T0.t = [rat(v) for v in sc['t0']]
        base = bounded(*x, b=10) + [x[k] == 0 for k in range(3) if k not in free_axes]
        x = [x[k] if k in free_axes else rat(0) for k in range(3)]

    def lm_minimize(eng, callee, args):
        problem = unref(args[1])
        a0 = Angle(Fraction(0)) if rx == 'zero' else Angle(Fraction(1, 2))
        eng.run_fn(f_set, [Ref.to(problem), Ref.to([x[0], x[1], x[2], a0, Angle(Fraction(0)), Angle(Fraction(0))])])
        st['problem'] = problem
        return [problem, Struct('MinimizationReport', [Opaque('termination'), 1, rat(0)])]

    def composite(eng, _a):
        mesh = mesh_val(TRI_V, faces)
        res = eng.call('points_to_mesh', [Ref.to(VecV([pt(list(P))])), Ref.to(mesh), Ref.to(T0.val()), En(mode, [], 'DistMode')])
        out = {'res': res, 'check': None}
        if res.v == 'Ok':
            al = res.f[0]
            Rm, t = iso_rt(al[0], 3)
            m = [matvec(Rm, P)[k] + t[k] for k in range(3)]
            sp = eng.call('Mesh::surf_closest_to', [Ref.to(mesh), Ref.to(pt(list(m)))])
            if mode == 'ToPlane':
                out['check'] = ('signed', eng.call('SurfacePoint::scalar_projection', [Ref.to(sp), Ref.to(pt(list(m)))]))
            else:
                out['check'] = ('point', d2(m, vec_of(sp[0])))
        return out

    def post(eng, c, r):
        res = r['res']
        obs = [holds('an alignment is returned exactly when the solver reports success', z3.BoolVal(res.v == 'Ok') == ok)]
        if res.v != 'Ok':
            return obs
        al = res.f[0]
        resid = [num(v) for v in items_of(al[1])]
        obs.append(holds('one residual per input point', z3.BoolVal(len(resid) == 1)))
        if resid:
            kind, val = r['check']
            obs.append(holds('residual is not negative (a distance)', resid[0] >= 0))
            if kind == 'signed':
                v = num(val)
                obs.append(eq('residual is the distance to the plane of the closest face for the point moved by the returned transform', resid[0], z3.If(v >= 0, v, -v), scale=400))
            else:
                obs.append(eq('residual is the distance to the closest point for the point moved by the returned transform', resid[0] * resid[0], val, scale=4000))
        prm = st['problem'][2]
        Rp, tp = iso_rt(prm[4], 3)
        Rm, t = iso_rt(al[0], 3)
        for a in range(3):
            for b in range(3):
                obs.append(eq(f'returned rotation is that of the final parameters [{a}][{b}]', Rm[a][b], Rp[a][b]))
            obs.append(eq(f'returned translation is that of the final parameters [{a}]', t[a], tp[a], scale=400))
        rc = vec_of(prm[0])
        for k in range(3):
            obs.append(eq(f'rotation centre is the mean of the input points [{k}]', num(rc[k]), P[k], scale=40))
        return obs

    inp = {**(T0.inp if scene is None else {f'i{c}': T0.t[k] for k, c in enumerate('xyz')}), 'm0x': P[0], 'm0y': P[1], 'm0z': P[2], 'x0': x[0], 'x1': x[1], 'x2': x[2], 'lm_ok': ok}
    return Unit(f'points_to_mesh[{mode},{T0.label()},final rx={rx},triangle {tri}{",concrete scene " + str(scene) + ", final translation along axes " + str(free_axes) if scene is not None else ""}]', composite, lambda eng: ([], None), post, base=base, inputs=inp, const_generics={'D': 3},
                observers={'minimize': lm_minimize, 'was_successful': lambda eng, callee, args: eng.branch(ok), 'LevenbergMarquardt::new': lambda eng, callee, args: Opaque('LevenbergMarquardt')},
                replay=('align3', lambda mm: {'vertices': TRI_V, 'faces': faces, 'point': [mm['m0x'], mm['m0y'], mm['m0z']], 'iso': T0.json(mm), 'mode': mode,
                                           'x': [mm['x0'], mm['x1'], mm['x2'], 0.0 if rx == 'zero' else 1.5707963267948966, 0.0, 0.0]}), loop_budget=128, max_paths=20000,
                bounds={'mesh': f'triangle {tri} of the folded quad', 'input points': '1 symbolic, |coords| <= 10', 'initial isometry': T0.label() + ', |t| <= 10', 'final parameters': f'|translation| <= 10, rotation about x: {rx}'},
                assumptions=['LevenbergMarquardt::minimize by contract (see module docstring)', 'parry TriMesh projection by contract (C02)'], timeout_ms=15000)


def j_align(o, rep, out):
    """the real build runs its own Levenberg-Marquardt iteration on the model's geometry; transform and residuals of whatever state it
    ends in must agree (the model's x* is not used: a stale-state defect shows for every final state that differs from the initial one)"""
    if 'ok' not in out:
        return 'panic'
    for name, got, want, tol in out['ok']['pairs']:
        if isinstance(got, str) or isinstance(want, str) or abs(got - want) > tol:
            return 'residuals do not describe the returned transform'
    return False


JUDGES = {'*': j_align}

UNITS = {
    'quick': [('u_align2', {'pattern': (0, 1), 'npts': 1, 'rot0': 2, 'theta': 'free'}), ('u_align2', {'pattern': (4, 3), 'npts': 1, 'rot0': 0, 'theta': 'half'}),
              ('u_align2', {'pattern': (6, 0), 'npts': 1, 'rot0': 3, 'theta': 0}),
              ('u_align2', {'pattern': (0, 1), 'npts': 1, 'rot0': 2, 'theta': 'free', 'scene': 0}), ('u_align2', {'pattern': (0, 1), 'npts': 2, 'rot0': 3, 'theta': 'half', 'scene': 1}),
              ('u_align2', {'pattern': (0, 1), 'npts': 2, 'rot0': 2, 'theta': 0, 'scene': 1}),
              ('u_align3', {'mode': 'ToPlane', 'rot0': 1, 'rx': 'zero', 'tri': 0}), ('u_align3', {'mode': 'ToPoint', 'rot0': 0, 'rx': 'half', 'tri': 0}),
              ('u_align3', {'mode': 'ToPlane', 'rot0': 0, 'rx': 'zero', 'tri': 2, 'scene': 0}), ('u_align3', {'mode': 'ToPlane', 'rot0': 3, 'rx': 'zero', 'tri': 2, 'scene': 1}),
              ('u_align3', {'mode': 'ToPoint', 'rot0': 0, 'rx': 'zero', 'tri': 2, 'scene': 0}),
              ('u_align3', {'mode': 'ToPlane', 'rot0': 0, 'rx': 'zero', 'tri': 2, 'scene': 0, 'free_axes': (0,)}), ('u_align3', {'mode': 'ToPlane', 'rot0': 0, 'rx': 'zero', 'tri': 2, 'scene': 1, 'free_axes': (1,)}),
              ('u_align3', {'mode': 'ToPlane', 'rot0': 0, 'rx': 'zero', 'tri': 2, 'scene': 0, 'free_axes': (2,)}),
              ('u_align3', {'mode': 'ToPlane', 'rot0': 0, 'rx': 'zero', 'tri': 2, 'scene': 0, 'free_axes': (1,)}), ('u_align3', {'mode': 'ToPlane', 'rot0': 0, 'rx': 'zero', 'tri': 2, 'scene': 1, 'free_axes': (0,)}),
              ('u_align3', {'mode': 'ToPlane', 'rot0': 0, 'rx': 'zero', 'tri': 2, 'scene': 1, 'free_axes': (2,)}), ('u_align3', {'mode': 'ToPlane', 'rot0': 0, 'rx': 'zero', 'tri': 2, 'scene': 0, 'free_axes': (0, 1)})],
    'thorough': [('u_align2', {'pattern': p, 'npts': 1, 'rot0': r, 'theta': th}) for p in ((0, 1), (4, 3), (6, 0), (1, 7)) for r in (0, 2, 3) for th in ('free', 'half', 0)] +
                [('u_align3', {'mode': m, 'rot0': r, 'rx': a, 'tri': t}) for m in ('ToPlane', 'ToPoint') for r in (0, 1, 2) for a in ('zero', 'half') for t in (0, 1)],
}


def run(v, tier, seed, only=None):
    jobs = [(MOD, f, k) for (f, k) in UNITS[tier] if not only or any(o in f + str(k) for o in only.split(','))]
    res = run_jobs(jobs, seed=seed, procs=14, timeout_s=900 if tier == 'quick' else 3000)
    fold_results(v, res, JUDGES, 'C07')
