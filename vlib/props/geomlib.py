"""Shared helpers for the geometry drivers of engine M: direction classes, symbolic points, curve construction."""
import z3
from mirsym.driver import *
from mirsym.vals import *
from mirsym.ext import pt, vec_of, unref, items_of

R = z3.Real
B = 1000
# axis-parallel and Pythagorean directions: integer components with a rational norm, so a symbolic positive length along
# them needs no square root (general position is only explored in the thorough tier, with capped queries)
DIRS2 = [(1, 0), (0, 1), (-1, 0), (0, -1), (3, 4), (-4, 3), (-5, -12), (12, -5)]
NORM2 = [1, 1, 1, 1, 5, 5, 13, 13]
DIRS3 = [(1, 0, 0), (0, 1, 0), (0, 0, 1), (-1, 0, 0), (0, -1, 0), (0, 0, -1), (1, 2, 2), (2, -1, 2), (-2, 2, 1), (2, 3, 6), (-6, 2, 3)]
NORM3 = [1, 1, 1, 1, 1, 1, 3, 3, 3, 7, 7]


def sq(a):
    return a * a


def rat(x):
    return z3.RealVal(str(x))


def bounded(*xs, b=B):
    return [z3.And(x >= -b, x <= b) for x in xs]


def unit2(d):
    """exact unit vector of direction class d"""
    a, b = DIRS2[d]
    return [z3.RealVal(a) / NORM2[d], z3.RealVal(b) / NORM2[d]]


def unit3(d):
    return [z3.RealVal(c) / NORM3[d] for c in DIRS3[d]]


def chain2(n, pattern, px='p', origin=None):
    """n points: p0 symbolic (or origin), p_{i+1} = p_i + DIRS2[pattern[i]] * k_i / NORM, k_i > 0 = the edge LENGTH.
    returns (points as coordinate lists, edge lengths, base constraints, known-positive terms)"""
    x, y = (R(px + '0x'), R(px + '0y')) if origin is None else origin
    pts = [[x, y]]
    ks = []
    base = bounded(x, y) if origin is None else []
    for i in range(n - 1):
        k = R(f'{px}len{i}')
        ks.append(k)
        base += [k > 0, k <= B]
        a, b = DIRS2[pattern[i]]
        nm = NORM2[pattern[i]]
        x, y = z3.simplify(x + rat(a) / nm * k), z3.simplify(y + rat(b) / nm * k)
        pts.append([x, y])
    return pts, ks, base, list(ks)


def chain3(n, pattern, px='p'):
    x, y, z = R(px + '0x'), R(px + '0y'), R(px + '0z')
    pts = [[x, y, z]]
    ks = []
    base = bounded(x, y, z)
    for i in range(n - 1):
        k = R(f'{px}len{i}')
        ks.append(k)
        base += [k > 0, k <= B]
        d = DIRS3[pattern[i]]
        nm = NORM3[pattern[i]]
        x, y, z = [z3.simplify(c + rat(dc) / nm * k) for c, dc in zip((x, y, z), d)]
        pts.append([x, y, z])
    return pts, ks, base, list(ks)


def points_vec(pts):
    return VecV([pt(list(p)) for p in pts])


def d2(a, b):
    r = None
    for x, y in zip(a, b):
        t = sq(x - y)
        r = t if r is None else r + t
    return r
