"""C15 - spatial search, sampling and hulls agree with exhaustive computation: the clauses that live in engeom's own code (engine M).

kiddo's k-d tree is a dependency: its queries are replaced by their contract = the exhaustive answer over the stored entries
(mirsym/ext_kiddo.py).  Decided here, from MIR:
* KdTree / PartialKdTree wrappers: the radius is squared on the way in, distances are un-squared on the way out, indices of the partial
  tree are mapped back to the original indices, results equal the brute-force answer over the (sub)set.
* sample_poisson_disk: the kept indices are a subset of the working indices, no two kept points are within the radius, every working
  point is within the radius of a kept point (greedy mask sweep over symbolic point sets).
* farthest_pair_indices: the returned pair realises the maximal pairwise distance.
Not decided (dependencies / random draws): the tree search itself, parry's convex_hull_idx, mesh sampling (rand), ball pivoting."""
import itertools
import z3
from mirsym.driver import *
from mirsym.vals import *
from mirsym.ext import pt, vec_of, unref, items_of

from .geomlib import rat, sq, bounded, B, d2

MOD = 'vlib.props.c15'
R_ = z3.Real


def sym_points(n, D=2, px='p'):
    P = [[R_(f'{px}{i}{"xyz"[k]}') for k in range(D)] for i in range(n)]
    return P, bounded(*[c for p in P for c in p]), {f'{px}{i}{"xyz"[k]}': P[i][k] for i in range(n) for k in range(D)}


def pairs_of(v):
    return [(int(as_fraction(x[0])) if not is_sym(x[0]) else x[0], num(x[1])) for x in items_of(v)]


def zabs(x):
    return z3.If(x >= 0, x, -x)


# ------------------------------------------------------------------------------------------------ k-d tree wrappers
def u_kd(n=3, partial=None, count=2):
    """partial = tuple of original indices kept in the partial tree (None = full tree)"""
    P, base, inp = sym_points(n)
    q = [R_('qx'), R_('qy')]
    r = R_('r')
    base += bounded(*q) + [r >= 0, r <= B]
    inp.update({'qx': q[0], 'qy': q[1], 'r': r})
    sub = list(partial) if partial is not None else list(range(n))
    ty = 'PartialKdTree' if partial is not None else 'KdTree'
    M = get_mir()

    def composite(eng, _a):
        eng.const_generics['D'] = 2
        pv = VecV([pt(list(p)) for p in P])
        if partial is not None:
            tree = eng.call('PartialKdTree::new', [Ref.to(pv), Ref.to(VecV(list(partial)))])
        else:
            tree = eng.call('KdTree::new', [Ref.to(pv)])
        qp = Ref.to(pt(list(q)))
        tr = Ref.to(tree)
        return {'one': eng.call(f'<{ty}<2> as KdTreeSearch<2>>::nearest_one', [tr, qp]),
                'nearest': eng.call(f'<{ty}<2> as KdTreeSearch<2>>::nearest', [tr, qp, count]),
                'within': eng.call(f'<{ty}<2> as KdTreeSearch<2>>::within', [tr, qp, r]),
                'len': eng.call(f'<{ty}<2> as KdTreeSearch<2>>::len', [tr])}

    def post(eng, c, res):
        D2 = {i: d2(P[i], q) for i in sub}
        obs = [holds('len is the number of indexed points', z3.BoolVal(int(res['len']) == len(sub)))]
        i1, dist1 = res['one'][0], num(res['one'][1])
        i1 = int(as_fraction(i1))
        obs.append(holds('nearest_one returns an original index of the tree', z3.BoolVal(i1 in sub)))
        if i1 in sub:
            obs.append(eq('nearest_one: distance is the distance to that point', dist1 * dist1, D2[i1], scale=8 * B * B))
            obs.append(holds('nearest_one: distance is not negative', dist1 >= 0))
            obs.append(holds('nearest_one: no indexed point is nearer', z3.And([D2[i1] <= D2[j] for j in sub])))
        near = pairs_of(res['nearest'])
        k = min(count, len(sub))
        obs.append(holds('nearest: as many results as asked for (or as there are)', z3.BoolVal(len(near) == k)))
        idxs = [i for i, _ in near]
        obs.append(holds('nearest: original indices, no repeats', z3.BoolVal(all(i in sub for i in idxs) and len(set(idxs)) == len(idxs))))
        if all(i in sub for i in idxs):
            for (i, dd) in near:
                obs.append(eq(f'nearest: distance of index {i}', dd * dd, D2[i], scale=8 * B * B))
                obs.append(holds('nearest: distance is not negative', dd >= 0))
            for a in range(len(near) - 1):
                obs.append(holds('nearest: ascending by distance', near[a][1] <= near[a + 1][1]))
            rest = [j for j in sub if j not in idxs]
            if near:
                obs.append(holds('nearest: nothing left out is nearer than the last result', z3.And([D2[idxs[-1]] <= D2[j] for j in rest]) if rest else z3.BoolVal(True)))
        wi = pairs_of(res['within'])
        widx = [i for i, _ in wi]
        obs.append(holds('within: original indices, no repeats', z3.BoolVal(all(i in sub for i in widx) and len(set(widx)) == len(widx))))
        if all(i in sub for i in widx):
            for (i, dd) in wi:
                obs.append(eq(f'within: distance of index {i}', dd * dd, D2[i], scale=8 * B * B))
                obs.append(holds('within: distance is not negative', dd >= 0))
            for j in sub:
                obs.append(holds(f'within: point {j} is reported exactly when it is within the radius', z3.BoolVal(j in widx) == (D2[j] <= r * r)))
        return obs

    def rep(mm):
        return {'points': [[mm[f'p{i}x'], mm[f'p{i}y']] for i in range(n)], 'q': [mm['qx'], mm['qy']], 'radius': mm['r'], 'count': count, 'indices': list(partial) if partial is not None else None}

    return Unit(f'kd_tree[n={n},{"partial " + str(partial) if partial is not None else "full"},count={count}]', composite, lambda eng: ([], None), post, base=base, inputs=inp,
                replay=('kd_tree', rep), const_generics={'D': 2}, loop_budget=16 * n + 32, max_paths=20000,
                bounds={'points': f'{n} symbolic 2D points, |coords| <= 1e3', 'query': 'any point, radius in [0, 1e3]', 'k': count},
                assumptions=['kiddo ImmutableKdTree queries return the exhaustive answer over the stored entries (dependency contract, mirsym/ext_kiddo.py)'], timeout_ms=15000)


def j_kd(o, rep, out):
    import numpy as np
    if 'ok' not in out:
        return 'panic'
    a, r = rep['args'], out['ok']
    P, q = np.array(a['points'], float), np.array(a['q'], float)
    sub = a['indices'] if a['indices'] is not None else list(range(len(P)))
    D = {i: float(np.linalg.norm(P[i] - q)) for i in sub}
    tol = 1e-7 * (1 + max(D.values()))
    if r['len'] != len(sub):
        return 'len is not the number of indexed points'
    i1, d1 = r['one']
    if i1 not in sub or abs(d1 - D[i1]) > tol:
        return 'nearest_one: index / distance do not describe an indexed point' + (' (partial tree: index not mapped back)' if a['indices'] is not None and i1 not in sub else '')
    if D[i1] > min(D.values()) + tol:
        return 'nearest_one is not the nearest point'
    for key in ('nearest', 'within'):
        for i, d in r[key]:
            if i not in sub or abs(d - D[i]) > tol:
                return f'{key}: index / distance do not describe an indexed point'
    want = sorted(sub, key=lambda i: D[i])[:a['count']]
    if len(r['nearest']) != len(want) or any(abs(D[i] - D[j]) > tol for (i, _), j in zip(r['nearest'], want)):
        return 'nearest: not the k nearest in ascending order'
    got = {i for i, _ in r['within']}
    for i in sub:
        if abs(D[i] - a['radius']) > tol and ((i in got) != (D[i] <= a['radius'])):
            return 'within: not exactly the points within the radius'
    return False


# ------------------------------------------------------------------------------------------------ Poisson-disk selection
def u_poisson(n=3, working=None):
    working = list(working) if working is not None else list(range(n))
    P, base, inp = sym_points(n)
    r = R_('r')
    base += [r > 0, r <= B]
    inp['r'] = r

    def make(eng):
        eng.const_generics['D'] = 2
        return [Ref.to(VecV([pt(list(p)) for p in P])), Ref.to(VecV(list(working))), r], None

    def post(eng, c, ret):
        kept = [int(as_fraction(x)) for x in items_of(ret)]
        obs = [holds('kept indices are working indices, no repeats', z3.BoolVal(all(k in working for k in kept) and len(set(kept)) == len(kept)))]
        if not all(k in working for k in kept):
            return obs
        for a, b in itertools.combinations(kept, 2):
            obs.append(holds(f'kept points {a},{b} are farther apart than the radius', d2(P[a], P[b]) > r * r))
        for w in working:
            obs.append(holds(f'working point {w} is within the radius of a kept point', z3.Or([d2(P[w], P[k]) <= r * r for k in kept]) if kept else z3.BoolVal(False)))
        return obs

    return Unit(f'poisson_disk[n={n},working={working}]', 'sample_poisson_disk', make, post, base=base, inputs=inp, const_generics={'D': 2},
                replay=('poisson', lambda mm: {'points': [[mm[f'p{i}x'], mm[f'p{i}y']] for i in range(n)], 'indices': working, 'radius': mm['r']}), loop_budget=16 * n + 32, max_paths=20000,
                bounds={'points': f'{n} symbolic 2D points', 'working indices': str(working), 'radius': '(0, 1e3]'},
                assumptions=['kiddo within() returns exactly the entries within the squared radius (dependency contract)'], timeout_ms=15000)


def j_poisson(o, rep, out):
    import numpy as np
    if 'ok' not in out:
        return 'panic'
    a, kept = rep['args'], out['ok']['kept']
    P, r = np.array(a['points'], float), a['radius']
    if any(k not in a['indices'] for k in kept) or len(set(kept)) != len(kept):
        return 'kept indices are not a subset of the working indices'
    eps = 1e-9 * (1 + r)
    for i, j in itertools.combinations(kept, 2):
        if np.linalg.norm(P[i] - P[j]) <= r - eps:
            return 'two kept points are within the radius'
    for w in a['indices']:
        if not any(np.linalg.norm(P[w] - P[k]) <= r + eps for k in kept):
            return 'a working point is farther than the radius from every kept point'
    return False


# ------------------------------------------------------------------------------------------------ farthest pair
def u_farthest(n=3, normalised=False, third=None):
    P, base, inp = sym_points(n)
    if third is not None:
        # first edge normalised and the third vertex taken from a short list: the remaining vertices are symbolic (a bound, stated)
        normalised = True
    if normalised:
        # similarity normalisation: the first hull edge is (0,0)-(10,0).  Every polygon is similar to one of these and the function only
        # compares distances, so this loses no polygon shapes; it removes 4 of the 2n unknowns from the non-linear queries.
        P[0], P[1] = [rat(0), rat(0)], [rat(10), rat(0)]
        base = bounded(*[c for p in P[2:] for c in p])
        inp = {k: v for k, v in inp.items() if not k.startswith(('p0', 'p1'))}
        if third is not None:
            P[2] = [rat(third[0]), rat(third[1])]
            base = bounded(*[c for p in P[3:] for c in p])
            inp = {k: v for k, v in inp.items() if not k.startswith('p2')}
    # a hull: strictly convex, counter-clockwise, vertices apart
    base += [d2(P[i], P[j]) >= rat('1/1000000') for i, j in itertools.combinations(range(n), 2)]
    for i in range(n):
        a, b, c = P[i], P[(i + 1) % n], P[(i + 2) % n]
        base.append((b[0] - a[0]) * (c[1] - b[1]) - (b[1] - a[1]) * (c[0] - b[0]) >= rat('1/1000'))

    def make(eng):
        return [Ref.to(Struct('ConvexPolygon', [VecV([pt(list(p)) for p in P]), Opaque('normals')]))], None

    def post(eng, c, ret):
        i, j = int(as_fraction(ret[0])), int(as_fraction(ret[1]))
        ok = 0 <= i < n and 0 <= j < n
        obs = [holds('indices of the hull', z3.BoolVal(ok))]
        if ok:
            for a, b in itertools.combinations(range(n), 2):
                obs.append(holds(f'no pair is farther apart than the reported one ({a},{b})', d2(P[a], P[b]) <= d2(P[i], P[j])))
        return obs

    return Unit(f'farthest_pair[n={n}{",first edge normalised" if normalised else ""}{",third vertex " + str(third) if third is not None else ""}]', 'farthest_pair_indices', make, post, base=base, inputs=inp,
                replay=('farthest_pair', lambda mm: {'points': [[mm.get(f'p{i}x', float(as_fraction(P[i][0])) if not is_sym(P[i][0]) or as_fraction(P[i][0]) is not None else 0.0), mm.get(f'p{i}y', float(as_fraction(P[i][1])) if as_fraction(P[i][1]) is not None else 0.0)] for i in range(n)]}), loop_budget=8 * n * n + 32, max_paths=20000,
                bounds={'hull points': f'{n} symbolic points in strictly convex counter-clockwise position, pairwise at least 1e-3 apart'},
                assumptions=['ConvexPolygon::points returns the stored vertices (parry)'], timeout_ms=4000)


def j_farthest(o, rep, out):
    import numpy as np
    if 'ok' not in out:
        return 'panic'
    P = np.array(out['ok']['points'], float)
    i, j = out['ok']['pair']
    best = max(np.linalg.norm(P[a] - P[b]) for a in range(len(P)) for b in range(a + 1, len(P)))
    return 'the reported pair is not the farthest pair of the hull' if np.linalg.norm(P[i] - P[j]) < best - 1e-9 * (1 + best) else False


JUDGES = {'kd_tree': j_kd, 'poisson_disk': j_poisson, 'farthest_pair': j_farthest}

UNITS = {
    'quick': [('u_kd', {'n': 3, 'partial': None, 'count': 2}), ('u_kd', {'n': 3, 'partial': (2, 0), 'count': 1}), ('u_kd', {'n': 4, 'partial': (3, 1, 0), 'count': 2}), ('u_kd', {'n': 2, 'partial': None, 'count': 3}), ('u_kd', {'n': 3, 'partial': (2, 0, 1), 'count': 2}),
              ('u_poisson', {'n': 3}), ('u_poisson', {'n': 4, 'working': (2, 0, 3)}), ('u_poisson', {'n': 3, 'working': (2, 1, 0)}), ('u_farthest', {'n': 3})] + [('u_farthest', {'n': 4, 'third': t}) for t in (('49/5', 1), (10, 3), (8, 6))],
    'thorough': [('u_kd', {'n': n, 'partial': p, 'count': c}) for n in (2, 3, 4) for p in (None, (n - 1, 0), tuple(range(n - 1, -1, -1))) for c in (1, 2, 3)] +
                [('u_poisson', {'n': n, 'working': w}) for n in (3, 4) for w in (None, tuple(range(n - 1, -1, -1)), (n - 1, 0, 1))] + [('u_farthest', {'n': n}) for n in (3, 4)] + [('u_farthest', {'n': n, 'normalised': True}) for n in (4, 5)],
}


def run(v, tier, seed, only=None):
    jobs = [(MOD, f, k) for (f, k) in UNITS[tier] if not only or any(o in f for o in only.split(','))]
    res = run_jobs(jobs, seed=seed, procs=14, timeout_s=900 if tier == 'quick' else 3000)
    fold_results(v, res, JUDGES, 'C15')
