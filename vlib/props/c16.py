"""C16 - deviations equal signed distance (engine M part; aggregates are decided by engine K, kani/src/c16.rs)."""
import z3
from mirsym.driver import *
from mirsym.vals import *
from mirsym.ext import pt, vec_of, unref
from .geomlib import *

MOD = 'vlib.props.c16'


def u_dev2(d1=0, d2_=1):
    """point_curve2_deviation for a station with direction class d1 and a measured point offset along class d2"""
    px, py, k = R('px'), R('py'), R('k')
    dirv = unit2(d1)
    off = unit2(d2_)
    q = [px + off[0] * k, py + off[1] * k]
    base = bounded(px, py) + [k >= 0, k <= B]
    # surface normal of the station = direction rotated by -90 degrees
    nrm = [dirv[1], -dirv[0]]

    def make(eng):
        st = Struct('CurveStation2', [pt([px, py]), Struct('Unit', [list(dirv)]), 0, z3.RealVal(0), Ref.to(Opaque('curve'))])
        return [Ref.to(st), Ref.to(pt(list(q)))], None

    def post(eng, c, ret):
        sp, val = ret[0], num(ret[1])
        spp, spn = vec_of(sp[0]), vec_of(sp[1])
        obs = [finite('deviation is finite', [val, spp, spn])]
        if poisoned([val, spp, spn]):
            return obs
        v = [q[0] - px, q[1] - py]
        vn = v[0] * nrm[0] + v[1] * nrm[1]
        far = k >= rat('1/100000')
        obs.append(holds('reference point is the station point', z3.And(spp[0] == px, spp[1] == py)))
        obs.append(eq('|value| is the distance to the closest point', z3.If(far, val * val, k * k), k * k, scale=k * k))
        obs.append(holds('positive on the outward-normal side', z3.Implies(z3.And(far, vn > 0), val > 0)))
        obs.append(holds('negative on the other side', z3.Implies(z3.And(far, vn < 0), val < 0)))
        obs.append(eq('reference + direction*value reconstructs the measured point (x)', spp[0] + spn[0] * val, z3.If(far, q[0], spp[0] + spn[0] * val), scale=1 + k))
        obs.append(eq('reference + direction*value reconstructs the measured point (y)', spp[1] + spn[1] * val, z3.If(far, q[1], spp[1] + spn[1] * val), scale=1 + k))
        obs.append(eq('direction is a unit vector', spn[0] * spn[0] + spn[1] * spn[1], 1))
        return obs

    return Unit(f'point_curve2_deviation[dir={DIRS2[d1]},offset={DIRS2[d2_]}]', 'line_profiles::point_curve2_deviation', make, post, base=base, known_pos=[k],
                inputs={'px': px, 'py': py, 'qx': q[0], 'qy': q[1]},
                replay=('curve_deviation', lambda m: {'p': [m['px'], m['py']], 'dir': [float(DIRS2[d1][0]) / NORM2[d1], float(DIRS2[d1][1]) / NORM2[d1]], 'q': [m['qx'], m['qy']]}),
                bounds={'station direction / offset direction': 'concrete axis or Pythagorean classes', 'offset length': '[0, 1e3]'},
                assumptions=['the station is given (closest-point search is parry\'s contract, see C02)'])


def j_dev2(o, rep, out):
    import math
    if 'ok' not in out:
        return 'panic'
    a, r = rep['args'], out['ok']
    if any(isinstance(x, str) for x in [r['value']] + r['normal'] + r['point']):
        return 'non-finite deviation'
    v = [a['q'][0] - a['p'][0], a['q'][1] - a['p'][1]]
    k = math.hypot(*v)
    n = [a['dir'][1], -a['dir'][0]]
    vn = v[0] * n[0] + v[1] * n[1]
    if k >= 1e-5:
        if abs(abs(r['value']) - k) > 1e-6 * k:
            return 'deviation magnitude differs from the distance to the closest point'
        if (vn > 1e-9 * k and r['value'] < 0) or (vn < -1e-9 * k and r['value'] > 0):
            return 'deviation sign does not follow the normal side'
        rec = [r['point'][0] + r['normal'][0] * r['value'], r['point'][1] + r['normal'][1] * r['value']]
        if math.hypot(rec[0] - a['q'][0], rec[1] - a['q'][1]) > 1e-6 * (1 + k):
            return 'reference + direction*value does not reconstruct the measured point'
    return False


def u_distance(D=2):
    a = [R(f'a{i}') for i in range(D)]
    b = [R(f'b{i}') for i in range(D)]
    d = [R(f'd{i}') for i in range(D)]
    base = bounded(*(a + b)) + [sum((x * x for x in d[1:]), d[0] * d[0]) == 1]

    def entry(eng, args):
        dist = args[0]
        v = eng.call('<Distance<%d> as Measurement>::value' % D, [Ref.to(dist)])
        r = eng.call('Distance::<%d>::reversed' % D, [Ref.to(dist)])
        rv = eng.call('<Distance<%d> as Measurement>::value' % D, [Ref.to(r)])
        return [v, r, rv]

    def make(eng):
        dist = Struct('Distance', [pt(list(a)), pt(list(b)), Struct('Unit', [list(d)])])
        return [dist], None

    def post(eng, c, ret):
        v, r, rv = ret
        proj = sum((d[i] * (b[i] - a[i]) for i in range(1, D)), d[0] * (b[0] - a[0]))
        ra, rb = vec_of(r[0]), vec_of(r[1])
        return [eq('value is the projection of b-a on the direction', num(v), proj, scale=B), eq('reversal keeps the value', num(rv), num(v), scale=B),
                holds('reversal swaps the end points', z3.And([ra[i] == b[i] for i in range(D)] + [rb[i] == a[i] for i in range(D)]))]

    return Unit(f'distance[D={D}]', entry, make, post, base=base, inputs={**{f'a{i}': a[i] for i in range(D)}, **{f'b{i}': b[i] for i in range(D)}, **{f'd{i}': d[i] for i in range(D)}},
                replay=('distance', lambda m: {'a': [m[f'a{i}'] for i in range(D)], 'b': [m[f'b{i}'] for i in range(D)], 'd': [m[f'd{i}'] for i in range(D)]}),
                bounds={'dimension': D, 'coords': '|x| <= 1e3', 'direction': 'any unit vector'})


def j_distance(o, rep, out):
    if 'ok' not in out:
        return 'panic'
    a, r = rep['args'], out['ok']
    proj = sum(d * (y - x) for d, x, y in zip(a['d'], a['a'], a['b']))
    if abs(r['value'] - proj) > 1e-6 * (1 + abs(proj)):
        return 'value is not the projection of b-a on the direction'
    if abs(r['reversed_value'] - r['value']) > 1e-9 * (1 + abs(proj)):
        return 'reversal changes the value'
    return False


JUDGES = {'point_curve2_deviation': j_dev2, 'distance': j_distance}
_PQ = [(0, 1), (0, 3), (0, 4), (4, 5), (4, 6), (1, 0), (6, 0), (0, 0), (0, 2), (5, 7)]
UNITS = {
    'quick': [('u_dev2', {'d1': a, 'd2_': b}) for a, b in _PQ] + [('u_distance', {'D': 2}), ('u_distance', {'D': 3})],
    'thorough': [('u_dev2', {'d1': a, 'd2_': b}) for a in range(8) for b in range(8)] + [('u_distance', {'D': 2}), ('u_distance', {'D': 3})],
}


def run(v, tier, seed, only=None):
    jobs = [(MOD, f, k) for (f, k) in UNITS[tier] if not only or only in f]
    res = run_jobs(jobs, seed=seed, procs=14, timeout_s=600 if tier == 'quick' else 3000)
    fold_results(v, res, JUDGES, 'C16')
