"""C14 - mesh face selection is set algebra over a per-face predicate (engine M).

TriangleFilter::mutate / mutate_pass_list / to_check / face_select / collect / create_from_indices are executed from MIR with the
selection held in a HashSet whose iteration order is forked symbolically.  The per-face predicate is (a) an abstract symbolic
boolean per face (mutate), (b) the real `facing` criterion on a concrete mesh with a symbolic angle, (c) the real `near_mesh`
criterion with parry's projection replaced by its contract (per vertex: an abstract hit / miss within the distance cap, the
projection point and the reference face it lands on).  The result must be start (+) / (-) / (&) {faces satisfying the criterion},
where the criterion of a face is evaluated from that face alone - for every start selection, every mode and every hash order."""
import itertools
import z3
from mirsym.driver import *
from mirsym.vals import *
from mirsym.ext import pt, vec_of, unref, items_of
from mirsym.ext_na import unit as unit_val

from .geomlib import rat, B

MOD = 'vlib.props.c14'
R_ = z3.Real

# concrete mesh: four faces with normals +z, +y, +x, +z sharing vertices 0, 1, 2
VERTS = [(0, 0, 0), (1, 0, 0), (0, 1, 0), (0, 0, 1), (1, 1, 0)]
FACES = [(0, 1, 2), (0, 3, 1), (0, 2, 3), (1, 4, 2)]
FNORM = [(0, 0, 1), (0, 1, 0), (1, 0, 0), (0, 0, 1)]
# reference mesh: face 0 normal +z, face 1 normal +y, face 2 normal +x
RVERTS = [(0, 0, 0), (2, 0, 0), (0, 2, 0), (0, 0, 2)]
RFACES = [(0, 1, 2), (0, 3, 1), (0, 2, 3)]
RNORM = [(0, 0, 1), (0, 1, 0), (1, 0, 0)]


def mesh_val(verts, faces):
    return Struct('Mesh', [Struct('TriMesh', [VecV([pt([rat(c) for c in v]) for v in verts]), VecV([[a, b, c] for (a, b, c) in faces])]), False, En('None')])


def sel_val(start):
    if start == 'All':
        return En('All', [], 'Selection')
    if start == 'None':
        return En('None', [], 'Selection')
    return En('Indices', [VecV(list(start))], 'Selection')


def start_set(start, F):
    return set(range(F)) if start == 'All' else set() if start == 'None' else set(start)


def algebra(mode, start, sat, F):
    """expected membership per face as z3 Bool"""
    out = []
    for i in range(F):
        s = z3.BoolVal(i in start)
        p = sat[i] if is_sym(sat[i]) else z3.BoolVal(bool(sat[i]))
        out.append(z3.Or(s, p) if mode == 'Add' else z3.And(s, z3.Not(p)) if mode == 'Remove' else z3.And(s, p))
    return out


def membership_obligations(tag, got, want, F):
    got = [int(as_fraction(x)) for x in got]
    obs = [holds(f'{tag}no face listed twice', z3.BoolVal(len(got) == len(set(got)))), holds(f'{tag}only faces of the mesh', z3.BoolVal(all(0 <= g < F for g in got)))]
    for i in range(F):
        obs.append(holds(f'{tag}face {i} selected exactly when the set algebra says so', z3.BoolVal(i in got) == want[i]))
    return obs


# ------------------------------------------------------------------------------------------------ abstract predicate
def u_mutate(mode='Add', start=(0,), F=3):
    bs = [z3.Bool(f'sat{i}') for i in range(F)]
    calls = []
    M = get_mir()
    f_sel, f_mut, f_col = M.resolve('Mesh::face_select'), M.resolve('TriangleFilter::mutate'), M.resolve('TriangleFilter::collect')

    def pred(eng, args):
        i = args[0]
        if is_sym(i):
            i = eng.concretize_int(i, 0, F - 1)
        calls.append(int(i))
        return bs[int(i)]

    def composite(eng, _a):
        del calls[:]
        mesh = mesh_val(VERTS, FACES[:F])
        tf = eng.run_fn(f_sel, [Ref.to(mesh), sel_val(start)])
        tf = eng.run_fn(f_mut, [tf, En(mode, [], 'SelectOp'), Ref.to(PyFn(pred))])
        return items_of(eng.run_fn(f_col, [tf]))

    def post(eng, c, r):
        return membership_obligations('', r, algebra(mode, start_set(start, F), bs, F), F)

    def rep(mm):
        # any boolean pattern over three faces with orthogonal normals (+z, +y, +x) is realised by the public `facing` criterion:
        # direction = sum of +-axis, angle pi/2 (the angles are 54.7 or 125.3 degrees)
        axes = [(0, 0, 1), (0, 1, 0), (1, 0, 0)]
        nd = [sum((1 if mm[f'sat{i}'] else -1) * axes[i][k] for i in range(3)) for k in range(3)]
        return {'vertices': VERTS, 'faces': FACES[:F], 'start': list(start), 'ref_vertices': None, 'ops': [{'kind': 'facing', 'normal': nd, 'angle': 1.5707963267948966, 'mode': mode}]}

    return Unit(f'mutate[{mode},start={start},F={F}]', composite, lambda eng: ([], None), post, base=[], inputs={f'sat{i}': bs[i] for i in range(F)}, replay=('face_select', rep) if F == 3 else None, int_only=False,
                loop_budget=64, bounds={'faces': F, 'start selection': str(start), 'predicate': 'arbitrary boolean per face', 'hash iteration order': 'every order (forked)'},
                assumptions=['HashSet insert / remove / retain / contains / iteration by contract (mirsym/ext_std.py)'])


# ------------------------------------------------------------------------------------------------ facing
def u_facing(mode='Add', start=(0,), nd=(0, 0, 1)):
    F = len(FACES)
    ang = R_('angle')
    base = [ang > 0, ang <= 4]
    import math
    # angle between face normal and the query direction (all unit, axis aligned): 0, pi/2 or pi
    PI = z3.RealVal(str(PI_F))
    sat = []
    for n in FNORM:
        d = sum(a * b for a, b in zip(n, nd))
        a_i = rat(0) if d == 1 else PI if d == -1 else PI / 2
        sat.append(a_i < ang)
    # stay away from the three critical angles (f64 acos of 0 / -1 rounds)
    base += [z3.Or(ang <= a - rat('1/1000000'), ang >= a + rat('1/1000000')) for a in (PI / 2, PI)]

    def composite(eng, _a):
        mesh = mesh_val(VERTS, FACES)
        tf = eng.call('Mesh::face_select', [Ref.to(mesh), sel_val(start)])
        tf = eng.call('TriangleFilter::facing', [tf, Ref.to([rat(c) for c in nd]), ang, En(mode, [], 'SelectOp')])
        return items_of(eng.call('TriangleFilter::collect', [tf]))

    def post(eng, c, r):
        return membership_obligations('', r, algebra(mode, start_set(start, F), sat, F), F)

    return Unit(f'facing[{mode},start={start},dir={nd}]', composite, lambda eng: ([], None), post, base=base, inputs={'angle': ang},
                replay=('face_select', lambda mm: {'vertices': VERTS, 'faces': FACES, 'start': start if isinstance(start, str) else list(start), 'ref_vertices': None,
                                                   'ops': [{'kind': 'facing', 'normal': list(nd), 'angle': mm['angle'], 'mode': mode}]}),
                loop_budget=64, bounds={'mesh': '4 faces with axis-aligned normals', 'angle': '(0, 4], 1e-6 away from pi/2 and pi', 'hash iteration order': 'every order (forked)'},
                assumptions=['parry Triangle::normal = normalised (b-a) x (c-a)'])


def j_select(o, rep, out):
    """independent evaluation of the criterion per face (numpy), then set algebra"""
    import numpy as np
    if 'ok' not in out:
        return 'panic'
    a = rep['args']
    V, Fc = np.array(a['vertices'], float), a['faces']
    start = a['start']
    cur = set(range(len(Fc))) if start == 'All' else set() if start == 'None' else set(start)
    fn = [np.cross(V[f[1]] - V[f[0]], V[f[2]] - V[f[0]]) for f in Fc]
    fn = [n / np.linalg.norm(n) for n in fn]
    for op in a['ops']:
        if op['kind'] == 'facing':
            nd = np.array(op['normal'], float)
            sat = [np.arccos(np.clip(n @ nd / np.linalg.norm(nd), -1, 1)) < op['angle'] for n in fn]
        else:
            RV, RF = np.array(a['ref_vertices'], float), a['ref_faces']
            rn = [np.cross(RV[f[1]] - RV[f[0]], RV[f[2]] - RV[f[0]]) for f in RF]
            rn = [n / np.linalg.norm(n) for n in rn]

            def closest(p):
                best = None
                for k, f in enumerate(RF):
                    q = closest_on_triangle(p, RV[f[0]], RV[f[1]], RV[f[2]])
                    d = np.linalg.norm(p - q)
                    if best is None or d < best[0] - 1e-12:
                        best = (d, q, k)
                return best

            def near(v, n_face):
                d, q, k = closest(V[v])
                if d > op['distance_tol']:
                    return False
                ok = True
                if op['planar_tol'] is not None:
                    along = rn[k] * (rn[k] @ (V[v] - q))
                    ok = ok and np.linalg.norm((V[v] - q) - along) <= op['planar_tol']
                if op['angle_tol'] is not None:
                    ok = ok and np.arccos(np.clip(n_face @ rn[k], -1, 1)) <= op['angle_tol']
                return ok
            sat = [(all if op['all_points'] else any)(near(v, fn[i]) for v in f) for i, f in enumerate(Fc)]
        S = {i for i, s in enumerate(sat) if s}
        cur = cur | S if op['mode'] == 'Add' else cur - S if op['mode'] == 'Remove' else cur & S
    got = out['ok']['indices']
    if sorted(got) != sorted(cur):
        return 'selection is not the set algebra of the per-face criterion (' + ('near_mesh' if a['ops'][-1]['kind'] != 'facing' else 'facing') + ')'
    sv, sf = np.array(out['ok']['sub_vertices'], float).reshape(-1, 3), out['ok']['sub_faces']
    if len(sf) != len(got):
        return 'mesh from selection: wrong number of triangles'
    used = sorted({v for i in got for v in Fc[i]})
    if len(sv) != len(used):
        return 'mesh from selection: vertices other than the used ones'
    order = a.get('create') or sorted(got)
    if len(sf) != len(order):
        return 'mesh from selection: wrong number of triangles'
    used = sorted({v for i in order for v in Fc[i]})
    if len(sv) != len(used):
        return 'mesh from selection: vertices other than the used ones'
    for k, i in enumerate(order):
        for j in range(3):
            if np.abs(sv[sf[k][j]] - V[Fc[i][j]]).max() > 0:
                return 'mesh from selection: triangle coordinates / winding changed'
    return False


def closest_on_triangle(p, a, b, c):
    import numpy as np
    ab, ac, ap = b - a, c - a, p - a
    d1, d2 = ab @ ap, ac @ ap
    if d1 <= 0 and d2 <= 0:
        return a
    bp = p - b
    d3, d4 = ab @ bp, ac @ bp
    if d3 >= 0 and d4 <= d3:
        return b
    vc = d1 * d4 - d3 * d2
    if vc <= 0 and d1 >= 0 and d3 <= 0:
        return a + ab * (d1 / (d1 - d3))
    cp = p - c
    d5, d6 = ab @ cp, ac @ cp
    if d6 >= 0 and d5 <= d6:
        return c
    vb = d5 * d2 - d1 * d6
    if vb <= 0 and d2 >= 0 and d6 <= 0:
        return a + ac * (d2 / (d2 - d6))
    va = d3 * d6 - d5 * d4
    if va <= 0 and (d4 - d3) >= 0 and (d5 - d6) >= 0:
        return b + (c - b) * ((d4 - d3) / ((d4 - d3) + (d5 - d6)))
    den = 1.0 / (va + vb + vc)
    return a + ab * (vb * den) + ac * (vc * den)


# ------------------------------------------------------------------------------------------------ near_mesh
def u_near(mode='Add', start=(0,), all_points=True, angle=True, land=(0, 0, 0, 1, 0), sym_hits=(0, 1, 4)):
    """land[v] = reference face on which vertex v projects (contract of the projection); hit_v symbolic"""
    F = len(FACES)
    # the hit / miss outcome is symbolic for the vertices in sym_hits and a hit for the others (keeps the path count of the quick tier down)
    hits = [z3.Bool(f'hit{v}') if v in sym_hits else z3.BoolVal(True) for v in range(len(VERTS))]
    PI = z3.RealVal(str(PI_F))
    tol_angle = rat('1/10')

    def near(v, f):
        ok = hits[v]
        if angle:
            d = sum(a * b for a, b in zip(FNORM[f], RNORM[land[v]]))
            ok = z3.And(ok, z3.BoolVal(d == 1))           # angle 0 <= 0.1, pi/2 and pi are not
        return ok
    sat = [(z3.And if all_points else z3.Or)([near(v, f) for v in FACES[f]]) for f in range(F)]

    def proj_obs(eng, callee, args):
        p = vec_of(args[1])
        key = tuple(int(as_fraction(c)) for c in p)
        v = VERTS.index(key)
        if (eng.branch(hits[v]) if v in sym_hits else True):
            prj = Struct('PointProjection', [True, pt([rat(c) for c in key])])
            return En('Some', [[prj, land[v], Opaque('location')]])
        return En('None')

    def composite(eng, _a):
        mesh, ref = mesh_val(VERTS, FACES), mesh_val(RVERTS, RFACES)
        tf = eng.call('Mesh::face_select', [Ref.to(mesh), sel_val(start)])
        tf = eng.call('TriangleFilter::near_mesh', [tf, Ref.to(ref), all_points, rat(1), En('Some', [rat('1/2')]), En('Some', [tol_angle]) if angle else En('None'), En(mode, [], 'SelectOp')])
        return items_of(eng.call('TriangleFilter::collect', [tf]))

    def post(eng, c, r):
        return membership_obligations('', r, algebra(mode, start_set(start, F), sat, F), F)

    def rep(mm):
        # a concrete scene with the same structure: every vertex within the cap; the reference is the mesh's own first three faces, so each
        # vertex projects onto itself and lands on the first reference face containing it
        return {'vertices': VERTS, 'faces': FACES, 'start': start if isinstance(start, str) else list(start), 'ref_vertices': RVERTS, 'ref_faces': RFACES,
                'ops': [{'kind': 'near', 'all_points': all_points, 'distance_tol': 1.0, 'planar_tol': 0.5, 'angle_tol': 0.1 if angle else None, 'mode': mode}]}

    return Unit(f'near_mesh[{mode},start={start},{"all" if all_points else "any"},{"angle" if angle else "no angle"},land={land}]', composite, lambda eng: ([], None), post, base=[],
                inputs={f'hit{v}': hits[v] for v in sym_hits}, observers={'project_with_max_dist': proj_obs}, replay=('face_select', rep), loop_budget=64, max_paths=20000,
                bounds={'mesh': '4 faces / 5 vertices, axis-aligned normals', 'projection': f'abstract hit or miss for vertices {sym_hits}, hit for the others; landing face per vertex fixed by the unit', 'angle tolerance': '0.1 rad' if angle else 'none',
                        'hash iteration order': 'every order (forked)'},
                assumptions=['Mesh::project_with_max_dist (parry) by contract: Some((projection, face id, location)) or None per query point, a function of the point only'])


# ------------------------------------------------------------------------------------------------ mesh from a selection
def u_create(sel=(0, 2), F=4):
    """create_from_indices: exactly the selected triangles, same coordinates and winding, only the used vertices"""
    V = [[R_(f'v{i}{"xyz"[k]}') for k in range(3)] for i in range(len(VERTS))]

    def composite(eng, _a):
        mesh = Struct('Mesh', [Struct('TriMesh', [VecV([pt(list(v)) for v in V]), VecV([[a, b, c] for (a, b, c) in FACES[:F]])]), False, En('None')])
        return eng.call('Mesh::create_from_indices', [Ref.to(mesh), Ref.to(VecV(list(sel)))])

    def post(eng, c, r):
        nv = [vec_of(p) for p in items_of(r[0][0])]
        nf = [[int(as_fraction(x)) for x in f] for f in items_of(r[0][1])]
        used = sorted({v for i in sel for v in FACES[i]})
        obs = [holds('as many triangles as selected faces', z3.BoolVal(len(nf) == len(sel))), holds('only the vertices the selected triangles use', z3.BoolVal(len(nv) == len(used)))]
        for k, i in enumerate(sel):
            if k < len(nf):
                for j in range(3):
                    ok = 0 <= nf[k][j] < len(nv)
                    obs.append(holds(f'triangle {k} corner {j}: same coordinates and winding as face {i}', z3.And([nv[nf[k][j]][t] == V[FACES[i][j]][t] for t in range(3)]) if ok else z3.BoolVal(False)))
        return obs

    inp = {f'v{i}{"xyz"[k]}': V[i][k] for i in range(len(VERTS)) for k in range(3)}
    def rep(mm):
        return {'vertices': [[mm[f'v{i}{"xyz"[k]}'] for k in range(3)] for i in range(len(VERTS))], 'faces': FACES[:F], 'start': sorted(sel), 'ref_vertices': None, 'ops': [], 'create': list(sel)}

    base = [z3.And(c >= -B, c <= B) for v in V for c in v]
    return Unit(f'create_from_indices[sel={sel},F={F}]', composite, lambda eng: ([], None), post, base=base, inputs=inp, replay=('face_select', rep), loop_budget=64,
                bounds={'faces': F, 'selection': str(sel), 'vertex coordinates': 'symbolic', 'hash iteration order': 'every order (forked)'},
                assumptions=['Mesh::new / TriMesh::new store vertices and indices (dependency contract)'])


JUDGES = {'facing': j_select, 'near_mesh': j_select, 'mutate': j_select, 'create_from_indices': j_select}

_STARTS3 = [(), (0,), (1, 2), (0, 1, 2)]
UNITS = {
    'quick': [('u_mutate', {'mode': m, 'start': s, 'F': 3}) for m in ('Add', 'Remove', 'Keep') for s in _STARTS3] +
             [('u_facing', {'mode': m, 'start': s, 'nd': nd}) for (m, s, nd) in (('Add', 'None', (0, 0, 1)), ('Remove', 'All', (0, 0, 1)), ('Keep', (0, 1, 3), (0, 1, 0)), ('Add', (2,), (0, 0, -1)))] +
             [('u_near', {'mode': m, 'start': s, 'all_points': ap, 'angle': an}) for (m, s, ap, an) in (('Add', (), True, True), ('Add', (3,), True, True), ('Remove', 'All', True, True), ('Keep', (0, 1, 3), False, True),
                                                                                                       ('Add', (), False, False), ('Keep', (0, 1, 3), True, False))] +
             [('u_create', {'sel': s}) for s in ((0, 2), (3,), (1, 0, 3))] + [('u_create', {'sel': (2, 0, 1), 'F': 3}), ('u_create', {'sel': (1, 3, 0, 2), 'F': 4})],
    'thorough': [('u_mutate', {'mode': m, 'start': tuple(s), 'F': F}) for F in (3, 4) for m in ('Add', 'Remove', 'Keep') for k in range(F + 1) for s in itertools.combinations(range(F), k)] +
                [('u_facing', {'mode': m, 'start': s, 'nd': nd}) for m in ('Add', 'Remove', 'Keep') for s in ('None', 'All', (0, 1), (2, 3)) for nd in ((0, 0, 1), (0, 1, 0), (-1, 0, 0))] +
                [('u_near', {'mode': m, 'start': s, 'all_points': ap, 'angle': an, 'land': ld}) for m in ('Add', 'Remove', 'Keep') for s in ((), 'All', (0, 3), (1, 2)) for ap in (True, False) for an in (True, False)
                 for ld in ((0, 0, 0, 1, 0), (1, 0, 2, 1, 0))] +
                [('u_near', {'mode': m, 'start': s, 'all_points': True, 'angle': True, 'sym_hits': (0, 1, 2, 3, 4)}) for m in ('Add', 'Keep') for s in ((), (0, 1, 3))] +
                [('u_create', {'sel': tuple(s)}) for k in (1, 2, 3, 4) for s in itertools.permutations(range(4), k) if sum(s) % 2 == 0],
}


def run(v, tier, seed, only=None):
    jobs = [(MOD, f, k) for (f, k) in UNITS[tier] if not only or any(o in f for o in only.split(','))]
    res = run_jobs(jobs, seed=seed, procs=14, timeout_s=900 if tier == 'quick' else 3000)
    fold_results(v, res, JUDGES, 'C14')
