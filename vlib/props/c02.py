"""C02 - closest-point and distance queries: the wrappers around parry's projection (engine M, partial).

parry's `project_local_point_and_get_location` (a pruned BVH search) is a dependency.  It is replaced by its contract, implemented as
the exhaustive definition (mirsym/ext_na.py: clamped orthogonal projection on every edge, the nearest wins, location = OnVertex /
OnEdge with barycentric coordinates).  What is decided is everything engeom builds on top of it for curves:
Curve2 / Curve3::at_closest_to_point and dist_to_point - the station's point is the projection, edge index and fraction reproduce
that point and its length along the curve, the direction is the unit direction of that edge (2D: the normal is it turned by -90
degrees), the reported distance is the distance from the query to that point, and (through the contract) no vertex and no point of
any edge - a witness parameter per edge - is nearer.  The mesh side (TriMesh projection, distance cap, angle filter) is not decided."""
import z3
from mirsym.driver import *
from mirsym.vals import *
from mirsym.ext import pt, vec_of, unref, items_of

from .geomlib import rat, sq, bounded, DIRS2, NORM2, DIRS3, NORM3, B, points_vec, d2
from .c01 import setup, lerp_obls, parallel_obls, station_fields, curve_inputs, model_pts, curve_oracle

MOD = 'vlib.props.c02'
R_ = z3.Real


def u_closest(dim=2, pattern=(0, 1), closed='open'):
    n = len(pattern) + 1
    tol, pts, ks, base, kp = setup(n, pattern, dim, closed)
    q = [R_('q' + 'xyz'[i]) for i in range(dim)]
    tau = R_('tau')
    base = base + bounded(*q) + [tau >= 0, tau <= 1]
    force = closed == 'forced'
    ty = 'Curve2' if dim == 2 else 'Curve3'
    dirs, norms = (DIRS2, NORM2) if dim == 2 else (DIRS3, NORM3)

    def composite(eng, _a):
        r = eng.call(f'{ty}::from_points', [Ref.to(points_vec(pts)), tol] + ([force] if dim == 2 else []))
        if r.v != 'Ok':
            return {'curve': None}
        c = r.f[0]
        out = {'curve': c, 'st': eng.call(f'{ty}::at_closest_to_point', [Ref.to(c), Ref.to(pt(list(q)))]), 'dist': eng.call(f'{ty}::dist_to_point', [Ref.to(c), Ref.to(pt(list(q)))])}
        if dim == 2:
            out['normal'] = eng.call('CurveStation2::normal', [Ref.to(out['st'])])
        return out

    def post(eng, c, r):
        cv = r['curve']
        if cv is None:
            return [holds('construction succeeds', z3.BoolVal(False))]
        verts = [vec_of(p) for p in cv[0][0].items]
        lens = [num(x) for x in cv[1].items]
        st = r['st']
        obs = lerp_obls('', st, verts, lens)
        p, d, idx, fr = station_fields(st)
        if poisoned([p, d, fr]):
            return obs
        idx = int(as_fraction(idx))
        if not (0 <= idx <= len(verts) - 2):
            return obs
        e = [verts[idx + 1][k] - verts[idx][k] for k in range(dim)]
        obs += parallel_obls('direction of the edge the point lies on: ', d, e)
        dist = num(r['dist'])
        D2 = d2(q, p)
        obs.append(eq('reported distance is the distance from the query to the reported point', dist * dist, D2, scale=8 * B * B))
        obs.append(holds('reported distance is not negative', dist >= 0))
        for i, v in enumerate(verts):
            obs.append(holds(f'vertex {i} is not nearer than the reported point', D2 <= d2(q, v)))
        # (the witness clause is a statement about the projection contract itself; it is posed where it is decided within the cap: two edges)
        for j in range(len(verts) - 1 if len(verts) <= 3 else 0):
            w = [verts[j][k] + tau * (verts[j + 1][k] - verts[j][k]) for k in range(dim)]
            obs.append(holds(f'no point of edge {j} (any parameter in [0, 1]) is nearer than the reported point', D2 <= d2(q, w)))
        if dim == 2:
            nv = vec_of(r['normal'])
            obs.append(eq('2D normal is the direction turned by -90 degrees (x)', nv[0], d[1]))
            obs.append(eq('2D normal is the direction turned by -90 degrees (y)', nv[1], -d[0]))
        return obs

    inp = curve_inputs(pts, tol, {('q' + 'xyz'[i]): q[i] for i in range(dim)})
    inp['tau'] = tau
    return Unit(f'{ty}.closest[{[dirs[x] for x in pattern]},{closed}]', composite, lambda eng: ([], None), post, base=base, known_pos=kp, inputs=inp,
                replay=('curve_closest', lambda mm: {'pts': model_pts(mm, n, dim), 'tol': mm['tol'], 'force_closed': force, 'q': [mm['q' + 'xyz'[i]] for i in range(dim)]}),
                loop_budget=16 * n + 32, max_paths=20000,
                bounds={'vertices': n, 'edges': 'direction classes x symbolic length in (tol, 1e3]', 'closedness': closed, 'query': 'any point, |coords| <= 1e3'},
                assumptions=['parry Polyline::project_local_point_and_get_location by contract = nearest point over all edges with its edge id and barycentric location (mirsym/ext_na.py); the BVH search is not decided',
                             'parry Polyline::new stores the vertex list'], timeout_ms=15000)


def j_closest(o, rep, out):
    import math
    if 'ok' not in out:
        return 'panic'
    a, r = rep['args'], out['ok']
    if 'err' in r:
        return 'construction failed'
    dim = len(a['pts'][0])
    verts, lens, closed = curve_oracle(a['pts'], a['tol'], a.get('force_closed', False), dim)
    s, q = r['station'], a['q']
    if any(isinstance(x, str) for x in s['point'] + s['dir']) or isinstance(s['fraction'], str) or isinstance(r['dist'], str):
        return 'non-finite station'
    i, fr = s['index'], s['fraction']
    S = 1 + max(abs(x) for x in q) + lens[-1]
    if not (0 <= i <= len(verts) - 2) or not (-1e-12 <= fr <= 1 + 1e-12):
        return 'index/fraction out of range'
    p = [verts[i][c] + fr * (verts[i + 1][c] - verts[i][c]) for c in range(dim)]
    if math.dist(p, s['point']) > 1e-7 * S:
        return 'index/fraction do not reproduce the closest point'
    if abs(s['length_along'] - (lens[i] + fr * (lens[i + 1] - lens[i]))) > 1e-7 * S:
        return 'length-along does not match index/fraction'
    if abs(r['dist'] - math.dist(q, s['point'])) > 1e-7 * S:
        return 'reported distance is not the distance to the reported point'
    # brute force over all edges
    best = min(math.dist(q, closest_on_segment(q, verts[k], verts[k + 1])) for k in range(len(verts) - 1))
    if math.dist(q, s['point']) > best + 1e-7 * S:
        return 'a vertex or edge is nearer than the reported point'
    e = [verts[i + 1][c] - verts[i][c] for c in range(dim)]
    ne = math.hypot(*e)
    if math.dist([x / ne for x in e], s['dir']) > 1e-7:
        return 'direction is not the unit direction of the edge the point lies on'
    if dim == 2 and math.dist(s['normal'], [s['dir'][1], -s['dir'][0]]) > 1e-7:
        return 'normal is not the direction turned by -90 degrees'
    return False


def closest_on_segment(q, a, b):
    e = [y - x for x, y in zip(a, b)]
    ee = sum(x * x for x in e)
    t = max(0.0, min(1.0, sum((qq - x) * y for qq, x, y in zip(q, a, e)) / ee))
    return [x + t * y for x, y in zip(a, e)]


# ------------------------------------------------------------------------------------------------ mesh wrappers
TRI_V = [(0, 0, 0), (2, 0, 0), (0, 2, 0), (2, 2, 1)]
TRI_F = [(0, 1, 2), (1, 3, 2)]


def tri_closest_np(q, faces=None):
    import numpy as np
    from .c14 import closest_on_triangle
    V = np.array(TRI_V, float)
    best = None
    for k, f in enumerate(faces or TRI_F):
        p = closest_on_triangle(np.array(q, float), V[f[0]], V[f[1]], V[f[2]])
        d = float(np.linalg.norm(np.array(q, float) - p))
        if best is None or d < best[0] - 1e-12:
            best = (d, p, k)
    return best


def u_mesh(tris=(0,)):
    """Mesh::project_with_max_dist / project_with_tol (angle filter wide open) / surf_closest_to / point_closest_to against the projection contract"""
    from .c14 import mesh_val
    q = [R_('qx'), R_('qy'), R_('qz')]
    cap = R_('cap')
    base = bounded(*q, b=10) + [cap > 0, cap <= 10]
    faces = [TRI_F[i] for i in tris]
    nf = len(faces)
    M = get_mir()

    def composite(eng, _a):
        mesh = mesh_val(TRI_V, faces)
        qp = Ref.to(pt(list(q)))
        mr = Ref.to(mesh)
        return {'max': eng.call('Mesh::project_with_max_dist', [mr, qp, cap]),
                'tol': eng.call('Mesh::project_with_tol', [mr, qp, cap, rat('16/5'), En('None')]),
                'surf': eng.call('Mesh::surf_closest_to', [mr, qp]),
                'pt': eng.call('Mesh::point_closest_to', [mr, qp])}

    def tri_point_obligations(tag, p, k):
        """p lies in the plane of triangle k, inside it (barycentric coordinates in [0, 1]) - posed on the 2x2 Gram system"""
        a, b, c = [[rat(x) for x in TRI_V[i]] for i in faces[k]]
        ab, ac, ap = [b[i] - a[i] for i in range(3)], [c[i] - a[i] for i in range(3)], [p[i] - a[i] for i in range(3)]
        dot = lambda u, v: u[0] * v[0] + u[1] * v[1] + u[2] * v[2]
        g11, g12, g22 = dot(ab, ab), dot(ab, ac), dot(ac, ac)
        r1, r2 = dot(ab, ap), dot(ac, ap)
        det = g11 * g22 - g12 * g12
        u, v = (r1 * g22 - r2 * g12) / det, (r2 * g11 - r1 * g12) / det
        n = [ab[1] * ac[2] - ab[2] * ac[1], ab[2] * ac[0] - ab[0] * ac[2], ab[0] * ac[1] - ab[1] * ac[0]]
        return [eq(f'{tag}: the reported point lies in the plane of the reported face', dot(n, ap), rat(0), scale=100),
                holds(f'{tag}: the reported point lies inside the reported face', z3.And(u >= -rat('1/1000000'), v >= -rat('1/1000000'), u + v <= 1 + rat('1/1000000')))]

    def post(eng, c, r):
        obs = []
        sp = r['surf']
        p0 = vec_of(sp[0])
        D2 = d2(q, p0)
        n0 = vec_of(sp[1])
        # the face of surf_closest_to is identified by its normal (faces have different normals)
        for k in range(nf):
            a, b, cc = [[rat(x) for x in TRI_V[i]] for i in faces[k]]
        pc = vec_of(r['pt'])
        obs += [eq(f'point_closest_to and surf_closest_to agree [{i}]', pc[i], p0[i], scale=40) for i in range(3)]
        obs.append(eq('surf_closest_to: unit normal', n0[0] * n0[0] + n0[1] * n0[1] + n0[2] * n0[2], rat(1)))
        # no vertex of the mesh is nearer than the reported point
        used = sorted({i for f in faces for i in f})
        for i in used:
            obs.append(holds(f'vertex {i} is not nearer than the reported point', D2 <= d2(q, [rat(x) for x in TRI_V[i]])))
        for key in ('max', 'tol'):
            res = r[key]
            hair = rat('1/1000000')
            if res.v == 'None':
                obs.append(holds(f'{key}: None only when the true distance is not below the cap', D2 >= cap * cap - hair))
            else:
                prj, fid = res.f[0][0], int(as_fraction(res.f[0][1]))
                pp = vec_of(prj[1])
                obs.append(holds(f'{key}: Some only when the true distance is below the cap', D2 <= cap * cap + hair))
                obs += [eq(f'{key}: the projection is the closest point [{i}]', pp[i], p0[i], scale=40) for i in range(3)]
                obs.append(holds(f'{key}: face id of the mesh', z3.BoolVal(0 <= fid < nf)))
                if 0 <= fid < nf:
                    obs += tri_point_obligations(key, pp, fid)
        return obs

    def rep(mm):
        return {'vertices': TRI_V, 'faces': faces, 'q': [mm['qx'], mm['qy'], mm['qz']], 'cap': mm['cap'], 'angle': 3.2}

    return Unit(f'mesh_projection[triangles={tris}]', composite, lambda eng: ([], None), post, base=base, inputs={'qx': q[0], 'qy': q[1], 'qz': q[2], 'cap': cap}, replay=('mesh_project', rep),
                loop_budget=64, max_paths=20000, bounds={'mesh': f'triangles {tris} of a folded quad with vertices {TRI_V}', 'query': 'any point, |coords| <= 10', 'cap': '(0, 10]', 'angle filter': 'wide open (3.2 rad)'},
                assumptions=['parry TriMesh::project_local_point[_and_get_location[_with_max_dist]] by contract = nearest point over all triangles, Some exactly when the distance is below the cap (mirsym/ext_na.py)'],
                timeout_ms=15000)


def j_mesh(o, rep, out):
    import numpy as np
    if 'ok' not in out:
        return 'panic'
    a, r = rep['args'], out['ok']
    d, p, k = tri_closest_np(a['q'], a['faces'])
    tol = 1e-7 * (1 + d)
    if np.abs(np.array(r['closest'], float) - p).max() > 1e-6 * (1 + d) and abs(float(np.linalg.norm(np.array(r['closest'], float) - np.array(a['q'], float))) - d) > tol:
        return 'point_closest_to is not the closest point'
    for key in ('max', 'tol'):
        res = r[key]
        if abs(d - a['cap']) < 1e-6 * (1 + d):
            continue
        if (res is not None) != (d < a['cap']):
            return f'project_with_{"max_dist" if key == "max" else "tol"}: a result is not returned exactly when the true distance is within the cap'
        if res is not None and abs(float(np.linalg.norm(np.array(res['point'], float) - np.array(a['q'], float))) - d) > tol:
            return f'project_with_{"max_dist" if key == "max" else "tol"}: the projection is not the closest point'
    return False


JUDGES = {'*': j_closest, 'mesh_projection': j_mesh}

UNITS = {
    'quick': [('u_closest', {'dim': 2, 'pattern': p, 'closed': c}) for (p, c) in (((0, 1), 'open'), ((4, 3), 'open'), ((6, 0), 'open'), ((1, 7), 'open'))] +
             [('u_closest', {'dim': 3, 'pattern': p}) for p in ((0, 1), (0, 7), (6, 1))] + [('u_mesh', {'tris': (0,)}), ('u_mesh', {'tris': (1,)})],
    'thorough': [('u_closest', {'dim': 2, 'pattern': p, 'closed': c}) for p in ((0, 1), (4, 3), (6, 0), (1, 7), (0, 1, 2), (0, 5, 0), (1, 7, 1)) for c in ('open',)] +
                [('u_closest', {'dim': 2, 'pattern': (0, 1, 2, 3), 'closed': 'natural'})] +
                [('u_closest', {'dim': 3, 'pattern': p}) for p in ((0, 1), (6, 1), (0, 7), (6, 1, 2), (9, 2, 6))] + [('u_mesh', {'tris': (0,)}), ('u_mesh', {'tris': (1,)}), ('u_mesh', {'tris': (0, 1)})],
}


def run(v, tier, seed, only=None):
    jobs = [(MOD, f, k) for (f, k) in UNITS[tier] if not only or any(o in f for o in only.split(','))]
    res = run_jobs(jobs, seed=seed, procs=14, timeout_s=900 if tier == 'quick' else 3000)
    fold_results(v, res, JUDGES, 'C02')
