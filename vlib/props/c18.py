"""C18 - angle normalisation and angular intervals (engine M: exact reals, f64 PI identified with pi, fmod by an
integer-quotient defining constraint, trigonometry by the algebraic angle abstraction).  The scalar Interval algebra is
decided bit-precisely by engine K (kani/src/c18.rs)."""
import z3
from mirsym.driver import *
from mirsym.vals import *
from mirsym.ext import pt, vec_of, unref

MOD = 'vlib.props.c18'
R = z3.Real
PI = PI_Z
TAU = z3.RealVal(str(2 * PI_F))
BIG = 10 ** 6


def same_direction(a, b):
    """two Angles denote the same direction: equal cos and sin"""
    ca, sa = to_angle(a).cos_sin()
    cb, sb = to_angle(b).cos_sin()
    return [eq('same cosine', ca, cb), eq('same sine', sa, sb)]


def free_angle(name, bound=BIG):
    a = Angle.free(name)
    return a, [a.shadow >= -bound, a.shadow <= bound]


def u_norm(which='angle_to_2pi'):
    st = {}

    def make(eng):
        a, _ = free_angle('a')
        st['a'] = a
        return [a], None

    a_sh = R('a')

    def post(eng, c, ret):
        r = to_angle(ret)
        lo, hi = (z3.RealVal(0), TAU) if which == 'angle_to_2pi' else (-PI, PI)
        obs = [holds('result in the documented closed range', z3.And(r.shadow >= lo, r.shadow <= hi))]
        obs += same_direction(r, st['a'])
        return obs

    return Unit(which, 'angles::' + which, make, post, base=[a_sh >= -BIG, a_sh <= BIG], inputs={'a': a_sh},
                replay=(which, lambda m: {'a': m['a']}), bounds={'|a|': '<= 1e6 (any real magnitude; exact arithmetic)'},
                assumptions=['f64 constant PI identified with pi; a % m modelled as a = k*m + r with integer k (IEEE fmod is exact)'])


def j_norm(o, rep, out):
    import math
    if 'ok' not in out:
        return 'panic'
    a = rep['args']['a']
    r = out['ok']
    if isinstance(r, str):
        return 'non-finite result'
    k = rep['kernel']
    lo, hi = (0.0, 2 * math.pi) if k == 'angle_to_2pi' else (-math.pi, math.pi)
    if r < lo or r > hi:
        return 'result outside the documented range'
    if abs(math.sin(r) - math.sin(a)) > 1e-6 or abs(math.cos(r) - math.cos(a)) > 1e-6:
        return 'result denotes a different direction'
    return False


def u_in_direction():
    st = {}
    a_sh, b_sh = R('a'), R('b')

    def entry(eng, args):
        a, b = args
        cw = eng.call('angles::angle_in_direction', [a, b, En('Cw', (), 'AngleDir')])
        ccw = eng.call('angles::angle_in_direction', [a, b, En('Ccw', (), 'AngleDir')])
        return [cw, ccw]

    def make(eng):
        a, _ = free_angle('a')
        b, _ = free_angle('b')
        st['a'], st['b'] = a, b
        return [a, b], None

    def post(eng, c, ret):
        cw, ccw = to_angle(ret[0]), to_angle(ret[1])
        obs = [holds('cw angle in [0, 2pi]', z3.And(cw.shadow >= 0, cw.shadow <= TAU)), holds('ccw angle in [0, 2pi]', z3.And(ccw.shadow >= 0, ccw.shadow <= TAU))]
        obs.append(holds('cw + ccw is a full turn or both are zero', z3.Or(cw.shadow + ccw.shadow == TAU, z3.And(cw.shadow == 0, ccw.shadow == 0))))
        obs += [Obl('ccw: ' + o.name, o.kind, o.a, o.b, o.scale) for o in same_direction(st['a'].add(ccw, 1), st['b'])]
        obs += [Obl('cw: ' + o.name, o.kind, o.a, o.b, o.scale) for o in same_direction(st['a'].add(cw, -1), st['b'])]
        return obs

    return Unit('angle_in_direction', entry, make, post, base=[a_sh >= -BIG, a_sh <= BIG, b_sh >= -BIG, b_sh <= BIG], inputs={'a': a_sh, 'b': b_sh},
                replay=('angle_in_direction', lambda m: {'a': m['a'], 'b': m['b']}), bounds={'|a|,|b|': '<= 1e6'})


def j_in_direction(o, rep, out):
    import math
    if 'ok' not in out:
        return 'panic'
    a, b = rep['args']['a'], rep['args']['b']
    cw, ccw = out['ok']['cw'], out['ok']['ccw']
    tau = 2 * math.pi
    if not (0 <= cw <= tau and 0 <= ccw <= tau):
        return 'directed angle outside [0, 2pi]'
    if not (abs(cw + ccw - tau) < 1e-9 or (cw == 0 and ccw == 0)):
        return 'cw + ccw is neither a full turn nor zero'
    for (x, nm) in ((a + ccw, 'ccw'), (a - cw, 'cw')):
        if abs(math.sin(x) - math.sin(b)) > 1e-6 or abs(math.cos(x) - math.cos(b)) > 1e-6:
            return f'rotating by the {nm} angle does not reach the second angle'
    return False


def u_compliment():
    a = R('a')

    def make(eng):
        return [a], None

    def post(eng, c, ret):
        r = num(ret)
        return [holds('complement of a non-negative angle is angle - 2pi', z3.Implies(a >= 0, r == a - TAU)),
                holds('complement of a negative angle is angle + 2pi', z3.Implies(a < 0, r == a + TAU))]

    return Unit('signed_compliment_2pi', 'angles::signed_compliment_2pi', make, post, base=[a >= -TAU, a <= TAU], inputs={'a': a},
                replay=('signed_compliment_2pi', lambda m: {'a': m['a']}), bounds={'a': '[-2pi, 2pi]'})


def j_compliment(o, rep, out):
    import math
    a, r = rep['args']['a'], out.get('ok')
    if r is None or isinstance(r, str):
        return 'panic or non-finite'
    want = a - 2 * math.pi if a >= 0 else a + 2 * math.pi
    return 'wrong complement' if abs(r - want) > 1e-9 else False


def ccw_dist(s, q):
    """ccw distance from s to q for s, q in [0, 2pi]"""
    return z3.If(q >= s, q - s, q - s + TAU)


def u_interval(mode='contains'):
    s_sh, e, q_sh, s2_sh, e2 = R('s'), R('e'), R('q'), R('s2'), R('e2')
    base = [s_sh >= -BIG, s_sh <= BIG, e >= -BIG, e <= BIG, q_sh >= -BIG, q_sh <= BIG, s2_sh >= -BIG, s2_sh <= BIG, e2 >= -BIG, e2 <= BIG]
    st = {}
    slack = z3.RealVal('1/100000000000')     # 1e-11 > ANGLE_TOL = 1e-12

    def entry(eng, args):
        s, ee, q, s2, ee2 = args
        i = eng.call('AngleInterval::new', [s, ee])
        out = {'i': i}
        if mode == 'contains':
            out['c'] = eng.call('AngleInterval::contains', [Ref.to(i), q])
            # the oracle's representative of q in [0, 2pi]: angle_to_2pi itself (decided by the unit angle_to_2pi)
            out['qn'] = eng.call('angles::angle_to_2pi', [q])
        else:
            j = eng.call('AngleInterval::new', [s2, ee2])
            out['j'] = j
            out['x'] = eng.call('AngleInterval::intersects', [Ref.to(i), Ref.to(j)])
            out['y'] = eng.call('AngleInterval::intersects', [Ref.to(j), Ref.to(i)])
        return out

    def make(eng):
        s, _ = free_angle('s')
        q, _ = free_angle('q')
        s2, _ = free_angle('s2')
        st.update(s=s, q=q, s2=s2)
        return [s, e, q, s2, e2], None

    def norm2pi(x):
        """the representative of x in [0, 2pi): x - 2pi*floor(x/2pi) via an integer witness"""
        k = z3.Int('kk' + str(abs(hash(x.sexpr())) % 100000))
        return k, x - z3.ToReal(k) * TAU

    def post(eng, c, ret):
        i = ret['i']
        start, ang = to_angle(i[0]), num(i[1])
        obs = [holds('start normalised to [0, 2pi]', z3.And(start.shadow >= 0, start.shadow <= TAU)),
               holds('extent is |e| clamped to a full turn', ang == z3.If(z3.If(e >= 0, e, -e) <= TAU, z3.If(e >= 0, e, -e), TAU))]
        # the swept set starts at s (e >= 0) or at s + e (e < 0)
        begin = st['s'] if eng.branch(e >= 0) else st['s'].add(to_angle(e), 1)
        obs += [Obl('start is the beginning of the sweep: ' + o.name, o.kind, o.a, o.b, o.scale) for o in same_direction(start, begin)]
        if mode == 'contains':
            cval = ret['c']
            cb = cval if is_sym(cval) else z3.BoolVal(bool(cval))
            qn = to_angle(ret['qn']).shadow
            d = ccw_dist(start.shadow, qn)
            inside = z3.And(d >= slack, d <= ang - slack)
            outside = z3.And(d >= ang + slack, d <= TAU - slack)
            rng = z3.And(qn >= 0, qn <= TAU)
            # kq is a free integer: validity of the implication quantifies over it
            obs.append(holds('an angle strictly inside the sweep is contained', z3.Implies(z3.And(rng, inside), cb)))
            obs.append(holds('an angle strictly outside the sweep is not contained', z3.Implies(z3.And(rng, outside), z3.Not(cb))))
        else:
            j = ret['j']
            st2, ang2 = to_angle(j[0]), num(j[1])
            x = ret['x'] if is_sym(ret['x']) else z3.BoolVal(bool(ret['x']))
            y = ret['y'] if is_sym(ret['y']) else z3.BoolVal(bool(ret['y']))
            obs.append(holds('intersects is symmetric', x == y))
            # starts are in [0, 2pi]; 2pi itself denotes 0
            a1 = z3.If(start.shadow == TAU, 0, start.shadow)
            a2 = z3.If(st2.shadow == TAU, 0, st2.shadow)
            d12, d21 = ccw_dist(a1, a2), ccw_dist(a2, a1)
            share = z3.Or(z3.And(d12 >= slack, d12 <= ang - slack), z3.And(d21 >= slack, d21 <= ang2 - slack))
            disjoint = z3.And(d12 >= ang + slack, d12 <= TAU - slack, d21 >= ang2 + slack, d21 <= TAU - slack)
            obs.append(holds('arcs sharing an angle intersect', z3.Implies(share, x)))
            obs.append(holds('disjoint arcs do not intersect', z3.Implies(disjoint, z3.Not(x))))
        return obs

    inputs = {'s': s_sh, 'e': e, 'q': q_sh} if mode == 'contains' else {'s': s_sh, 'e': e, 's2': s2_sh, 'e2': e2}

    def rp(m):
        if mode == 'contains':
            return {'start': m['s'], 'angle': m['e'], 'q': m['q']}
        return {'start': m['s'], 'angle': m['e'], 'start2': m['s2'], 'angle2': m['e2']}

    return Unit('angle_interval_' + mode, entry, make, post, base=base, inputs=inputs, replay=('angle_interval', rp),
                bounds={'|start|,|extent|,|query|': '<= 1e6', 'membership slack': '1e-11 (ANGLE_TOL = 1e-12)'}, timeout_ms=15000)


def j_interval(o, rep, out):
    import math
    if 'ok' not in out:
        return 'panic'
    a, r = rep['args'], out['ok']
    tau = 2 * math.pi
    ext = min(abs(a['angle']), tau)
    if not (0 <= r['start'] <= tau) or abs(r['angle'] - ext) > 1e-9:
        return 'interval start/extent not normalised' if abs(a['angle']) < tau else 'extent of a full turn or more is not clamped to 2pi'
    begin = a['start'] if a['angle'] >= 0 else a['start'] + a['angle']
    if abs(math.sin(begin) - math.sin(r['start'])) > 1e-6 or abs(math.cos(begin) - math.cos(r['start'])) > 1e-6:
        return 'interval start is not the beginning of the sweep'

    def inside(start, ang, q):
        d = (q - start) % tau
        if 1e-9 <= d <= ang - 1e-9:
            return True
        if ang + 1e-9 <= d <= tau - 1e-9:
            return False
        return None
    if 'contains' in r:
        w = inside(r['start'], r['angle'], a['q'])
        if w is not None and w != r['contains']:
            return 'contains disagrees with the swept set'
    if 'intersects' in r:
        if r['intersects'] != r['intersects_rev']:
            return 'intersects is not symmetric'
        e2 = min(abs(a['angle2']), tau)
        b2 = a['start2'] if a['angle2'] >= 0 else a['start2'] + a['angle2']
        w1, w2 = inside(r['start'], r['angle'], b2), inside(b2 % tau, e2, r['start'])
        if (w1 is True or w2 is True) and not r['intersects']:
            return 'arcs sharing an angle reported disjoint'
        if w1 is False and w2 is False and r['intersects']:
            return 'disjoint arcs reported intersecting'
    return False


DIRS2 = [(1, 0), (0, 1), (-1, 0), (0, -1), (3, 4), (-4, 3), (-5, -12), (12, -5)]


def u_vec_angles(d1=0, d2=4):
    k1, k2 = R('k1'), R('k2')
    a1, b1 = DIRS2[d1]
    a2, b2 = DIRS2[d2]
    v1 = [a1 * k1, b1 * k1]
    v2 = [a2 * k2, b2 * k2]
    base = [k1 > 0, k2 > 0, k1 <= 1000, k2 <= 1000]

    def entry(eng, args):
        x, y = args
        s = eng.call('angles2::signed_angle', [Ref.to(list(x)), Ref.to(list(y))])
        cw = eng.call('angles2::directed_angle', [Ref.to(list(x)), Ref.to(list(y)), En('Cw', (), 'AngleDir')])
        ccw = eng.call('angles2::directed_angle', [Ref.to(list(x)), Ref.to(list(y)), En('Ccw', (), 'AngleDir')])
        return [s, cw, ccw]

    def make(eng):
        return [v1, v2], None

    def rotated(ang, v):
        c, s = to_angle(ang).cos_sin()
        return [c * v[0] - s * v[1], s * v[0] + c * v[1]]

    def post(eng, c, ret):
        s, cw, ccw = [to_angle(x) for x in ret]
        obs = [holds('signed angle in [-pi, pi]', z3.And(s.shadow >= -PI, s.shadow <= PI)),
               holds('cw directed angle in [0, 2pi]', z3.And(cw.shadow >= 0, cw.shadow <= TAU)),
               holds('ccw directed angle in [0, 2pi]', z3.And(ccw.shadow >= 0, ccw.shadow <= TAU)),
               holds('cw + ccw is a full turn or both are zero', z3.Or(cw.shadow + ccw.shadow == TAU, z3.And(cw.shadow == 0, ccw.shadow == 0)))]
        for nm, ang in (('signed', s), ('ccw', ccw), ('cw (negated)', cw.neg())):
            w = rotated(ang, v1)
            obs.append(eq(f'{nm}: rotating v1 gives the direction of v2 (cross = 0)', w[0] * v2[1] - w[1] * v2[0], 0, scale=10 ** 6))
            obs.append(holds(f'{nm}: rotated v1 points along v2 (dot > 0)', w[0] * v2[0] + w[1] * v2[1] > 0))
        return obs

    return Unit(f'vector_angles[{DIRS2[d1]}->{DIRS2[d2]}]', entry, make, post, base=base, known_pos=[k1, k2], inputs={'v1x': v1[0], 'v1y': v1[1], 'v2x': v2[0], 'v2y': v2[1]},
                replay=('vector_angles', lambda m: {'v1': [m['v1x'], m['v1y']], 'v2': [m['v2x'], m['v2y']]}),
                bounds={'vectors': 'concrete axis/Pythagorean direction pair, symbolic lengths in (0, 1e3]'})


def j_vec(o, rep, out):
    import math
    if 'ok' not in out:
        return 'panic'
    v1, v2 = rep['args']['v1'], rep['args']['v2']
    r = out['ok']
    tau = 2 * math.pi
    if not (-math.pi <= r['signed'] <= math.pi and 0 <= r['cw'] <= tau and 0 <= r['ccw'] <= tau):
        return 'angle out of range'
    if not (abs(r['cw'] + r['ccw'] - tau) < 1e-9 or (r['cw'] == 0 and r['ccw'] == 0)):
        return 'cw + ccw directed angles are neither a full turn nor both zero (equal directions)' if abs(v1[0] * v2[1] - v1[1] * v2[0]) < 1e-12 else 'cw + ccw is not a full turn'
    for ang in (r['signed'], r['ccw'], -r['cw']):
        w = [math.cos(ang) * v1[0] - math.sin(ang) * v1[1], math.sin(ang) * v1[0] + math.cos(ang) * v1[1]]
        n = math.hypot(*w) * math.hypot(*v2)
        if abs(w[0] * v2[1] - w[1] * v2[0]) > 1e-6 * n or w[0] * v2[0] + w[1] * v2[1] <= 0:
            return 'rotating v1 by the angle does not give the direction of v2'
    return False


JUDGES = {'angle_to_2pi': j_norm, 'angle_signed_pi': j_norm, 'angle_in_direction': j_in_direction, 'signed_compliment_2pi': j_compliment,
          'angle_interval_contains': j_interval, 'angle_interval_intersects': j_interval, 'vector_angles': j_vec}

_PAIRS_Q = [(0, 0), (0, 1), (0, 2), (0, 3), (1, 2), (0, 4), (4, 6), (4, 4), (5, 0), (6, 7), (2, 2), (3, 1)]
_PAIRS_T = [(i, j) for i in range(8) for j in range(8)]
UNITS = {
    'quick': [('u_norm', {'which': 'angle_to_2pi'}), ('u_norm', {'which': 'angle_signed_pi'}), ('u_in_direction', {}), ('u_compliment', {}),
              ('u_interval', {'mode': 'contains'}), ('u_interval', {'mode': 'intersects'})] + [('u_vec_angles', {'d1': a, 'd2': b}) for a, b in _PAIRS_Q],
    'thorough': [('u_norm', {'which': 'angle_to_2pi'}), ('u_norm', {'which': 'angle_signed_pi'}), ('u_in_direction', {}), ('u_compliment', {}),
                 ('u_interval', {'mode': 'contains'}), ('u_interval', {'mode': 'intersects'})] + [('u_vec_angles', {'d1': a, 'd2': b}) for a, b in _PAIRS_T],
}


def run(v, tier, seed, only=None):
    jobs = [(MOD, f, k) for (f, k) in UNITS[tier] if not only or only in f]
    res = run_jobs(jobs, seed=seed, procs=14, timeout_s=600 if tier == 'quick' else 3000)
    fold_results(v, res, JUDGES, 'C18')
